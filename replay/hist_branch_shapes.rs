// bounded stand-in driver (appended to acts/src/scheduler/tests/task.rs of a scratch copy): properties C01 / C04.
// Every one-step workflow with 2 or 3 branches, each branch being `if true`, `if false`, `else` or `needs <sibling>` (at most one else,
// needs never aimed at the else branch, no needs cycle), in every declaration order, is run on the real engine and compared with the
// reference reading of the model: an if-branch runs iff its condition holds, a needs-branch runs once the needed sibling finished,
// the else branch runs iff every sibling was skipped; a branch that does not run ends Skipped; the process completes.
#[tokio::test]
async fn verif_replay_hist_branch_shapes() {
    #[derive(Clone, Copy, PartialEq, Debug)]
    enum K { T, F, E, N(usize) }
    fn valid(s: &[K]) -> bool {
        if s.iter().filter(|k| **k == K::E).count() > 1 { return false; }
        for (i, k) in s.iter().enumerate() {
            if let K::N(j) = k {
                if *j >= s.len() || *j == i || s[*j] == K::E { return false; }
                // no cycle
                let mut cur = *j; let mut n = 0;
                while let K::N(j2) = s[cur] { cur = j2; n += 1; if n > s.len() { return false; } }
            }
        }
        true
    }
    let kinds = |n: usize| -> Vec<K> { let mut v = vec![K::T, K::F, K::E]; for j in 0..n { v.push(K::N(j)); } v };
    let mut shapes: Vec<Vec<K>> = Vec::new();
    for n in 2..=3usize {
        let ks = kinds(n);
        let mut idx = vec![0usize; n];
        loop {
            let s: Vec<K> = idx.iter().map(|i| ks[*i]).collect();
            if valid(&s) { shapes.push(s); }
            let mut p = 0;
            loop { if p == n { break; } idx[p] += 1; if idx[p] < ks.len() { break; } idx[p] = 0; p += 1; }
            if p == n { break; }
        }
    }
    let mut bad: Vec<String> = Vec::new();
    let mut count = 0;
    // every shape is run with every choice of WHICH branches have steps (a branch without steps finishes inside its own initialisation:
    // the siblings initialised after it find it already decided) -- all masks for 2 branches, {all, none, alternating} for 3
    let mut runs_list: Vec<(Vec<K>, Vec<bool>)> = Vec::new();
    for s in shapes.iter() {
        let n = s.len();
        let masks: Vec<Vec<bool>> = if n == 2 { vec![vec![true, true], vec![true, false], vec![false, true], vec![false, false]] }
            else { vec![vec![true; 3], vec![false; 3], vec![true, false, true], vec![false, true, false]] };
        for m in masks { runs_list.push((s.clone(), m)); }
    }
    for (s, has_steps) in runs_list.iter() {
        count += 1;
        let mut yml = String::from("id: m1\nsteps:\n  - id: step1\n    branches:\n");
        for (i, k) in s.iter().enumerate() {
            yml.push_str(&format!("      - id: b{i}\n"));
            match k {
                K::T => yml.push_str("        if: \"true\"\n"),
                K::F => yml.push_str("        if: \"false\"\n"),
                K::E => yml.push_str("        else: true\n"),
                K::N(j) => yml.push_str(&format!("        needs: [b{j}]\n")),
            }
            if has_steps[i] { yml.push_str(&format!("        steps:\n          - id: s{i}\n")); }
        }
        // a successor step: it must start exactly once, after step1
        yml.push_str("  - id: step2\n");
        let mut workflow = Workflow::from_yml(&yml).unwrap();
        let (proc, scher, _emitter, tx, rx) = crate::scheduler::tests::create_proc_signal::<bool>(&mut workflow, &crate::utils::longid());
        let rx2 = rx.clone();
        scher.launch(&proc);
        let timer = tokio::spawn(async move { tokio::time::sleep(std::time::Duration::from_millis(1500)).await; rx2.send(true); });
        let _ = tx.recv().await;
        timer.abort();
        let runs: Vec<bool> = s.iter().enumerate().map(|(i, k)| match k {
            K::T => true, K::F => false, K::N(_) => true,
            K::E => s.iter().enumerate().all(|(j, o)| j == i || *o == K::F),
        }).collect();
        let mut diffs: Vec<String> = Vec::new();
        if !proc.state().is_completed() { diffs.push(format!("no client action is pending, yet the process is still {}", proc.state())); }
        for (i, r) in runs.iter().enumerate() {
            let bs = proc.task_by_nid(&format!("b{i}")).first().map(|t| t.state());
            let ss = proc.task_by_nid(&format!("s{i}")).first().map(|t| t.state());
            let want = if *r { TaskState::Completed } else { TaskState::Skipped };
            if bs != Some(want.clone()) { diffs.push(format!("branch b{i} ends {bs:?}, the model says {want:?}")); }
            if *r && has_steps[i] && ss != Some(TaskState::Completed) { diffs.push(format!("step s{i} of the running branch b{i} ends {ss:?}")); }
            if !*r && ss.is_some() { diffs.push(format!("step s{i} of the skipped branch b{i} ran ({ss:?})")); }
        }
        let n2 = proc.task_by_nid("step2");
        if n2.len() != 1 || n2[0].state() != TaskState::Completed { diffs.push(format!("the successor step2 ran {} time(s) ({:?})", n2.len(), n2.iter().map(|t| t.state()).collect::<Vec<_>>())); }
        if !diffs.is_empty() { bad.push(format!("REPLAY-FAIL branches (declaration order) {s:?} with steps in {has_steps:?}: {}", diffs.join("; "))); }
    }
    println!("shapes explored: {count}");
    for b in bad.iter() { println!("{b}"); }
    assert!(bad.is_empty());
}
