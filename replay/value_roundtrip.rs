// replay / bounded stand-in driver (appended to acts/src/env/tests.rs of a scratch copy): property C14 (value part).
// Workflow variables are handed to the REAL script engine and read back, script literals are returned: for every value of a small
// family (null, booleans, strings incl. non-ASCII, integers around 2^31, 2^32 and 2^53, floats, arrays and objects with null
// members, nesting) the value seen inside the script (`v === <literal>`), the value returned (`v`) and the value stored by the
// script ($set) or returned inside an object (the route of a code act's result) must equal the original.
#[tokio::test]
async fn verif_replay_value_roundtrip() {
    let engine = Engine::new().start();
    let sig = engine.signal(());
    let s1 = sig.clone();
    let env = engine.runtime().env().clone();
    let ints: Vec<i64> = vec![0, 1, -1, 255, 2147483647, 2147483648, -2147483648, -2147483649, 4294967296, 1700000000000, 9007199254740991, -9007199254740991];
    let mut values: Vec<(String, serde_json::Value)> = vec![
        ("null".into(), json!(null)), ("true".into(), json!(true)), ("false".into(), json!(false)),
        ("\"\"".into(), json!("")), ("\"Zoë – Münster\"".into(), json!("Zoë – Münster")),
        ("1.5".into(), json!(1.5)), ("-0.25".into(), json!(-0.25)), ("1e21".into(), json!(1e21)),
        // finite floats beyond the 64-bit integers, whole-valued and not
        ("1e19".into(), json!(1e19)), ("-1.5e300".into(), json!(-1.5e300)), ("9223372036854775808".into(), json!(9223372036854775808.0_f64)), ("18446744073709551616".into(), json!(18446744073709551616.0_f64)), ("-9.3e18".into(), json!(-9.3e18)), ("1.7976931348623157e308".into(), json!(1.7976931348623157e308)),
        ("[1,null,\"a\"]".into(), json!([1, null, "a"])), ("({a:1,b:null})".into(), json!({"a": 1, "b": null})),
        ("({c:{d:null,e:[null,{f:null}]}})".into(), json!({"c": {"d": null, "e": [null, {"f": null}]}})),
    ];
    for i in ints.iter() { values.push((format!("{i}"), json!(i))); }
    let mut workflow = Workflow::new().with_input("saved", json!(null)).with_step(|step| step.with_id("step1"));
    for (k, (_, v)) in values.iter().enumerate() { workflow = workflow.with_input(&format!("v{k}"), v.clone()); }
    let proc = engine.runtime().start(&workflow, &Vars::new()).unwrap();
    engine.channel().on_complete(move |_| s1.close());
    sig.recv().await;
    let task = proc.root().unwrap();
    let context = task.create_context();
    let bad_cell: std::cell::RefCell<Vec<String>> = std::cell::RefCell::new(Vec::new());
    Context::scope(context, || {
        let mut bad = bad_cell.borrow_mut();
        for (k, (lit, v)) in values.iter().enumerate() {
            // 1. seen inside the script (scalars only: === on the literal)
            if !v.is_array() && !v.is_object() {
                match env.eval::<bool>(&format!("v{k} === {lit}")) {
                    Ok(true) => {}
                    other => bad.push(format!("REPLAY-FAIL workflow variable {v} is not seen as `{lit}` inside a script ({other:?}; the script sees {:?})", env.eval::<serde_json::Value>(&format!("v{k}")))),
                }
            }
            // 2. handed back unchanged
            match env.eval::<serde_json::Value>(&format!("v{k}")) {
                Ok(back) if back == *v || (back.as_f64().is_some() && back.as_f64() == v.as_f64()) => {}
                other => bad.push(format!("REPLAY-FAIL workflow variable {v} comes back from the script as {other:?}")),
            }
            // 3. a script literal returned / stored by the script
            match env.eval::<serde_json::Value>(&format!("({lit})")) {
                Ok(back) if back == *v || (back.as_f64().is_some() && back.as_f64() == v.as_f64()) => {}
                other => bad.push(format!("REPLAY-FAIL script value `{lit}` is returned as {other:?}")),
            }
            // 4. an object returned by a script (what an `acts.transform.code` act does with its result: Vars::from(map)), the value at the top level and nested
            match env.eval::<serde_json::Value>(&format!("({{ r: {lit}, n: {{ l: [{lit}] }} }})")) {
                Ok(serde_json::Value::Object(map)) => {
                    let vars = Vars::from(map);
                    let same = |g: Option<&serde_json::Value>| g == Some(v) || (g.and_then(|g| g.as_f64()).is_some() && g.and_then(|g| g.as_f64()) == v.as_f64());
                    let top = vars.get::<serde_json::Value>("r");
                    let nested = vars.get::<serde_json::Value>("n").and_then(|n| n.get("l").and_then(|l| l.get(0)).cloned());
                    if !same(top.as_ref()) { bad.push(format!("REPLAY-FAIL script value `{lit}` returned inside an object is stored as {top:?}")); }
                    if !same(nested.as_ref()) { bad.push(format!("REPLAY-FAIL script value `{lit}` returned nested inside an object is stored as {nested:?}")); }
                }
                other => bad.push(format!("REPLAY-FAIL an object holding `{lit}` is returned as {other:?}")),
            }
            let _ = env.eval::<()>(&format!("$set(\"saved\", {lit});"));
            let got = proc.data().get::<serde_json::Value>("saved");
            if !(got.as_ref() == Some(v) || (got.as_ref().and_then(|g| g.as_f64()).is_some() && got.as_ref().and_then(|g| g.as_f64()) == v.as_f64())) {
                bad.push(format!("REPLAY-FAIL script value `{lit}` is stored by $set as {got:?}"));
            }
        }
    });
    let bad = bad_cell.into_inner();
    for b in bad.iter().take(12) { println!("{b}"); }
    assert!(bad.is_empty(), "{} value(s) changed at the script boundary", bad.len());
}
