// bounded stand-in / replay driver (appended to acts/src/cache/tests.rs of a scratch copy): property C09, the message-table functions of
// acts/src/cache/store.rs on the REAL in-memory store: set_message_with, with_no_response_messages, resend_error_messages,
// clear_error_messages, and the client-facing MessageExecutor::ack.  Table: 2 processes x 2 tasks x the 4 message statuses (16 rows, old update_time); after each call every row is
// compared with the statement: an ack / action closes EVERY message of that task whatever its status and touches no other row; the
// retry step re-delivers exactly the unanswered `created` rows, counts the retry, and marks a row `error` once the limit is reached;
// resend turns exactly the `error` rows back to `created` with a fresh count; clear removes exactly the `error` rows (of one pid).
#[tokio::test]
async fn verif_replay_msg_table() {
    use crate::data::{Message, MessageStatus};
    use crate::store::query::Query;
    use std::sync::{Arc, Mutex};
    let mut bad: Vec<String> = Vec::new();
    let statuses = [MessageStatus::Created, MessageStatus::Acked, MessageStatus::Completed, MessageStatus::Error];
    let fill = |store: &Arc<crate::store::Store>| {
        let coll = store.messages();
        for m in coll.query(&Query::new().set_limit(10000)).unwrap().rows { coll.delete(&m.id).unwrap(); }
        for p in 0..2 { for t in 0..2 { for (k, st) in statuses.iter().enumerate() {
            coll.create(&Message { id: format!("m{p}{t}{k}"), pid: format!("p{p}"), tid: format!("t{t}"), status: *st, retry_times: k as i32, update_time: 1000, create_time: 1000, ..Default::default() }).unwrap();
        } } }
    };
    let rows = |store: &Arc<crate::store::Store>| -> std::collections::BTreeMap<String, Message> {
        store.messages().query(&Query::new().set_limit(10000)).unwrap().rows.into_iter().map(|m| (m.id.clone(), m)).collect()
    };
    let engine = EngineBuilder::new().build().await.unwrap().start();
    let store = engine.runtime().cache().store();
    // 1. set_message_with
    for target in [MessageStatus::Acked, MessageStatus::Completed] {
        fill(&store);
        let before = rows(&store);
        store.set_message_with("p1", "t0", target).unwrap();
        let after = rows(&store);
        for (id, b) in before.iter() {
            let a = after.get(id);
            let mine = b.pid == "p1" && b.tid == "t0";
            match a {
                None => bad.push(format!("REPLAY-FAIL set_message_with(p1, t0, {target:?}): row {id} disappeared")),
                Some(a) => {
                    if mine && a.status != target { bad.push(format!("REPLAY-FAIL set_message_with(p1, t0, {target:?}): message {id} (status {:?} before) is still {:?}: it would be re-sent after the client answered", b.status, a.status)); }
                    if !mine && (a.status != b.status || a.update_time != b.update_time || a.retry_times != b.retry_times) { bad.push(format!("REPLAY-FAIL set_message_with(p1, t0, {target:?}): row {id} of another task changed")); }
                }
            }
        }
    }
    // 2. with_no_response_messages (timeout 0 -> every old `created` row is due; limit 2)
    {
        fill(&store);
        let before = rows(&store);
        let sent: Arc<Mutex<Vec<String>>> = Arc::new(Mutex::new(Vec::new()));
        let s2 = sent.clone();
        store.with_no_response_messages(0, 2, move |m| { s2.lock().unwrap().push(m.id.clone()); }).unwrap();
        let after = rows(&store);
        let sent = sent.lock().unwrap().clone();
        for (id, b) in before.iter() {
            let a = after.get(id).cloned().unwrap_or_default();
            let due = b.status == MessageStatus::Created;
            if due && b.retry_times < 2 {
                if !sent.contains(id) || a.retry_times != b.retry_times + 1 || a.status != MessageStatus::Created { bad.push(format!("REPLAY-FAIL retry step: unanswered message {id} (retries {}) was not re-delivered and counted (sent={}, now retries {} status {:?})", b.retry_times, sent.contains(id), a.retry_times, a.status)); }
            } else if due {
                if sent.contains(id) || a.status != MessageStatus::Error { bad.push(format!("REPLAY-FAIL retry step: message {id} at the retry limit must become error without delivery (sent={}, status {:?})", sent.contains(id), a.status)); }
            } else if sent.contains(id) || a.status != b.status || a.retry_times != b.retry_times {
                bad.push(format!("REPLAY-FAIL retry step: answered message {id} (status {:?}) was touched (sent={}, now {:?} retries {})", b.status, sent.contains(id), a.status, a.retry_times));
            }
        }
    }
    // 3. resend_error_messages
    {
        fill(&store);
        let before = rows(&store);
        store.resend_error_messages().unwrap();
        let after = rows(&store);
        for (id, b) in before.iter() {
            let a = after.get(id).cloned().unwrap_or_default();
            if b.status == MessageStatus::Error { if a.status != MessageStatus::Created || a.retry_times != 0 { bad.push(format!("REPLAY-FAIL resend: error message {id} is now {:?} with {} retries", a.status, a.retry_times)); } }
            else if a.status != b.status || a.retry_times != b.retry_times { bad.push(format!("REPLAY-FAIL resend: message {id} (status {:?}) was touched", b.status)); }
        }
    }
    // 4. clear_error_messages
    for pid in [None, Some("p0".to_string())] {
        fill(&store);
        let before = rows(&store);
        store.clear_error_messages(pid.clone()).unwrap();
        let after = rows(&store);
        for (id, b) in before.iter() {
            let gone = b.status == MessageStatus::Error && pid.as_ref().map(|p| *p == b.pid).unwrap_or(true);
            if gone == after.contains_key(id) { bad.push(format!("REPLAY-FAIL clear_error_messages({pid:?}): message {id} (pid {}, status {:?}) {}", b.pid, b.status, if gone { "was kept" } else { "was removed" })); }
        }
    }
    // 5. the client-facing ack (MessageExecutor::ack -> Runtime::ack): an accepted ack marks exactly that message acked, whatever its status was
    //    ("once acknowledged ... a message is never redelivered": an acked message is neither retried nor turned back by a later redo)
    {
        fill(&store);
        let before = rows(&store);
        let executor = engine.executor();
        let exec = executor.msg();
        for id in ["m000", "m003", "m112"] {
            let r = exec.ack(id);
            if r.is_err() { bad.push(format!("REPLAY-FAIL ack({id}) was refused: {r:?}")); }
            if !before.contains_key(id) { bad.push(format!("REPLAY-FAIL driver: no message {id} in the table")); }
        }
        store.resend_error_messages().unwrap();
        let after = rows(&store);
        for (id, b) in before.iter() {
            let a = after.get(id).cloned().unwrap_or_default();
            let acked = ["m000", "m003", "m112"].contains(&id.as_str());
            if acked && a.status != MessageStatus::Acked { bad.push(format!("REPLAY-FAIL ack + redo: message {id} (status {:?} when the client acknowledged it, ack returned Ok) is now {:?}: it will be delivered again", b.status, a.status)); }
            if !acked && b.status != MessageStatus::Error && (a.status != b.status || a.retry_times != b.retry_times) { bad.push(format!("REPLAY-FAIL ack: message {id} was touched by the ack of another message")); }
        }
    }
    for b in bad.iter().take(12) { println!("{b}"); }
    assert!(bad.is_empty(), "{} rows differ", bad.len());
}
