// bounded stand-in / replay driver (appended to acts/src/cache/tests.rs of a scratch copy): property C17.
// keep_processes off / on (and off with the process evicted from the memory cache just before it ends) x ending {completed, aborted, error}: after the terminal event (and two ticks later, so that late task events
// and ticks have run) the rows of the finished process are all gone / all there in terminal states, a further action on it is refused,
// and a second process that is still running keeps every row.
#[tokio::test]
async fn verif_replay_hist_retention() {
    use crate::{Act, Vars, MessageState, Action, event::EventAction, store::query::{Cond, Expr, Query}, utils::consts};
    use std::sync::{Arc, Mutex};
    let mut bad: Vec<String> = Vec::new();
    for (keep, evict) in [(false, false), (true, false), (false, true)] {
        for ending in ["completed", "aborted", "error"] {
            let config = crate::config::ConfigData { keep_processes: Some(keep), cache_cap: Some(100), ..crate::config::ConfigData::default() };
            let engine = EngineBuilder::new().set_config(&config).build().await.unwrap().start();
            let rt = engine.runtime();
            // the finishing process carries a timeout rule, so ticks keep visiting it while it is open
            let workflow = Workflow::new().with_id("vr")
                .with_step(|s| s.with_id("step1").with_timeout(|t| t.with_on("1h").with_step(|s| s.with_id("ts1"))).with_act(Act::irq(|a| a.with_key("act1"))));
            let other = Workflow::new().with_id("vo").with_step(|s| s.with_id("step1").with_act(Act::irq(|a| a.with_key("wait"))));
            let pid = utils::longid();
            let opid = utils::longid();
            let proc = rt.create_proc(&pid, &workflow);
            let oproc = rt.create_proc(&opid, &other);
            let act_tid: Arc<Mutex<Option<String>>> = Arc::new(Mutex::new(None));
            let a2 = act_tid.clone();
            let s = rt.clone();
            let pid2 = pid.clone();
            engine.channel().on_message(move |e| {
                if e.pid == pid2 && e.is_key("act1") && e.is_state(MessageState::Created) {
                    *a2.lock().unwrap() = Some(e.tid.clone());
                    let mut o = Vars::new();
                    let ev = match ending { "completed" => EventAction::Next, "aborted" => EventAction::Abort, _ => { o.set(consts::ACT_ERR_CODE, "e1"); EventAction::Error } };
                    let _ = s.do_action(&Action::new(&e.pid, &e.tid, ev, &o));
                }
            });
            if evict {
                // the finishing process leaves the memory cache while it runs (as under cache pressure) and ends from its queued tasks: its rows must go all the same
                let (c, p, once) = (rt.cache().clone(), pid.clone(), Arc::new(Mutex::new(false)));
                rt.scher().on_task(move |e| {
                    if e.inner().pid == p && e.inner().node().id() == "step1" && e.inner().state().is_completed() && !*once.lock().unwrap() { *once.lock().unwrap() = true; c.uncache(&p); }
                });
            }
            rt.launch(&oproc);
            rt.launch(&proc);
            for _ in 0..200 { if proc.state().is_completed() { break; } tokio::time::sleep(std::time::Duration::from_millis(25)).await; }
            tokio::time::sleep(std::time::Duration::from_millis(2200)).await;
            let store = rt.cache().store();
            let task_rows = |p: &str| store.tasks().query(&Query::new().push(Cond::and().push(Expr::eq("pid", p.to_string()))).set_limit(1000)).unwrap().rows;
            let what = format!("keep_processes={keep}, ending {ending}{}", if evict { ", the process evicted from the cache before it ended" } else { "" });
            if !proc.state().is_completed() { bad.push(format!("REPLAY-FAIL {what}: the process did not end ({})", proc.state())); continue; }
            let rows = task_rows(&pid);
            let prow = store.procs().find(&pid);
            if keep {
                if prow.is_err() { bad.push(format!("REPLAY-FAIL {what}: the process row is gone")); }
                if rows.len() != proc.tasks().len() { bad.push(format!("REPLAY-FAIL {what}: {} task rows remain for {} tasks", rows.len(), proc.tasks().len())); }
                if let Ok(r) = &prow { if r.state != proc.state().to_string() { bad.push(format!("REPLAY-FAIL {what}: the kept process row is in state {} (process {})", r.state, proc.state())); } }
            } else {
                if prow.is_ok() { bad.push(format!("REPLAY-FAIL {what}: the process row is still (or again) in the store two ticks after the terminal event")); }
                if !rows.is_empty() { bad.push(format!("REPLAY-FAIL {what}: {} task row(s) of the finished process are still (or again) in the store: {:?}", rows.len(), rows.iter().map(|r| format!("{}:{}", r.name, r.state)).collect::<Vec<_>>())); }
                if let Some(tid) = act_tid.lock().unwrap().clone() {
                    if rt.do_action(&Action::new(&pid, &tid, EventAction::Next, &Vars::new())).is_ok() { bad.push(format!("REPLAY-FAIL {what}: an action on the removed process was accepted")); }
                }
            }
            // the other process keeps everything
            if store.procs().find(&opid).is_err() || task_rows(&opid).len() != oproc.tasks().len() { bad.push(format!("REPLAY-FAIL {what}: rows of the other, still running process are missing")); }
        }
    }
    // store level: Store::remove_proc on processes of many sizes (the row count is the unusual input: paging / limits), next to the rows
    // of another process, messages and events that must all survive
    {
        let engine = EngineBuilder::new().build().await.unwrap().start();
        let rt = engine.runtime();
        let store = rt.cache().store();
        let mk_task = |pid: &str, i: usize| crate::store::data::Task { id: format!("{pid}:t{i}"), pid: pid.to_string(), tid: format!("t{i}"), name: format!("n{i}"), kind: "step".to_string(), prev: None, state: "completed".to_string(), data: "{}".to_string(), err: None, node_data: "{}".to_string(), hooks: "{}".to_string(), start_time: 0, end_time: 0, timestamp: i as i64 };
        let mk_proc = |pid: &str, state: &str| crate::store::data::Proc { id: pid.to_string(), state: state.to_string(), mid: "m".to_string(), name: "n".to_string(), start_time: 0, end_time: 0, timestamp: 0, model: "{}".to_string(), env: "{}".to_string(), err: None };
        for (n, size) in [0usize, 1, 7, 99, 100, 101, 199, 250, 1001, 2500].into_iter().enumerate() {
            let pid = format!("rp{n}");
            let other = format!("ro{n}");
            store.procs().create(&mk_proc(&pid, "completed")).unwrap();
            store.procs().create(&mk_proc(&other, "running")).unwrap();
            for i in 0..size { store.tasks().create(&mk_task(&pid, i)).unwrap(); }
            for i in 0..3 { store.tasks().create(&mk_task(&other, i)).unwrap(); }
            store.messages().create(&crate::store::data::Message { id: format!("m{n}"), pid: pid.clone(), tid: "t0".to_string(), ..Default::default() }).unwrap();
            let r = store.remove_proc(&pid);
            let count = |p: &str| store.tasks().query(&Query::new().push(Cond::and().push(Expr::eq("pid", p.to_string()))).set_limit(100000)).unwrap().count;
            let what = format!("Store::remove_proc of a process with {size} task rows");
            if r.is_err() { bad.push(format!("REPLAY-FAIL {what}: refused")); }
            if count(&pid) != 0 { bad.push(format!("REPLAY-FAIL {what}: {} task row(s) remain", count(&pid))); }
            if store.procs().find(&pid).is_ok() { bad.push(format!("REPLAY-FAIL {what}: the process row remains")); }
            if count(&other) != 3 || store.procs().find(&other).is_err() { bad.push(format!("REPLAY-FAIL {what}: rows of another process were deleted")); }
            if store.messages().find(&format!("m{n}")).is_err() { bad.push(format!("REPLAY-FAIL {what}: a message record was deleted")); }
        }
    }
    // model level: "deleting a model removes exactly its registered start events" -- over deploy histories (one deploy; a redeploy that drops,
    // adds or keeps `on` entries), next to another model that registers an event of the same name
    {
        let engine = EngineBuilder::new().build().await.unwrap().start();
        let store = engine.runtime().cache().store();
        let mk = |mid: &str, evs: &[&str]| {
            let mut w = Workflow::new().with_step(|s| s.with_id("step1"));
            for e in evs { w.on.push(Act::new().with_id(e).with_uses("acts.event.manual")); }
            w.set_id(mid);
            w
        };
        let events_of = |mid: &str| -> Vec<String> {
            let mut v: Vec<String> = store.events().query(&Query::new().push(Cond::and().push(Expr::eq("mid", mid.to_string()))).set_limit(1000)).unwrap().rows.iter().map(|e| e.id.clone()).collect();
            v.sort(); v
        };
        let histories: Vec<(&str, Vec<Vec<&str>>)> = vec![
            ("one deploy", vec![vec!["e1", "e2"]]),
            ("redeploy drops an event", vec![vec!["e1", "e2"], vec!["e1"]]),
            ("redeploy adds an event", vec![vec!["e1"], vec!["e1", "e2"]]),
            ("redeploy replaces the events", vec![vec!["e1", "e2"], vec!["e3"]]),
            ("three versions", vec![vec!["e1"], vec!["e2"], vec!["e1", "e3"]]),
        ];
        for (n, (name, versions)) in histories.iter().enumerate() {
            let mid = format!("vm_rm_{n}");
            let other = format!("vm_keep_{n}");
            engine.executor().model().deploy(&mk(&other, &["e1", "e2"])).unwrap();
            for v in versions.iter() { engine.executor().model().deploy(&mk(&mid, v)).unwrap(); }
            let other_before = events_of(&other);
            let r = engine.executor().model().rm(&mid);
            if r.is_err() { bad.push(format!("REPLAY-FAIL model rm [{name}]: refused")); }
            let left = events_of(&mid);
            if !left.is_empty() { bad.push(format!("REPLAY-FAIL model rm [{name}]: start events {left:?} are still registered for the removed model")); }
            if store.models().find(&mid).is_ok() { bad.push(format!("REPLAY-FAIL model rm [{name}]: the model row remains")); }
            if events_of(&other) != other_before || other_before.len() != 2 { bad.push(format!("REPLAY-FAIL model rm [{name}]: the events of another model changed: {other_before:?} -> {:?}", events_of(&other))); }
            if store.models().find(&other).is_err() { bad.push(format!("REPLAY-FAIL model rm [{name}]: another model was removed")); }
        }
    }
    for b in bad.iter().take(10) { println!("{b}"); }
    assert!(bad.is_empty(), "{} retention differences", bad.len());
}
