// bounded stand-in / replay driver (appended to acts/src/export/tests.rs of a scratch copy):
// a channel that restricts exactly ONE of type/state/tag/key/uses (all others "*") must receive a message iff that field matches
// (tag: message tag OR model tag).  Bound: 5 single-field channels x 3 messages, plus the default channel.
#[tokio::test]
async fn verif_replay_chan_filter() {
    use std::sync::{Arc, Mutex};
    let engine = Engine::new().start();
    let mk = |f: &str| -> ChannelOptions {
        let mut o = ChannelOptions { id: format!("verif_{f}"), ..Default::default() };
        match f { "type" => o.r#type = "zz1".into(), "state" => o.state = "completed".into(), "tag" => o.tag = "zz1".into(), "key" => o.key = "zz1".into(), "uses" => o.uses = "zz1".into(), _ => {} }
        o
    };
    let fields = ["type", "state", "tag", "key", "uses", "default"];
    let got: Arc<Mutex<Vec<(String, String)>>> = Arc::new(Mutex::new(Vec::new()));
    let mut chans = Vec::new();
    for f in fields.iter() {
        let ch = engine.channel_with_options(&mk(f));
        let g = got.clone();
        let name = f.to_string();
        ch.on_message(move |e| { g.lock().unwrap().push((name.clone(), e.id.clone())); });
        chans.push(ch);
    }
    // m_hit matches every single-field channel; m_miss matches none of them; m_mtag matches `tag` only through the model tag
    let m_hit = Message { id: "m_hit".into(), r#type: "zz1".into(), state: MessageState::Completed, tag: "zz1".into(), key: "zz1".into(), uses: "zz1".into(), ..Message::default() };
    let m_miss = Message { id: "m_miss".into(), r#type: "other".into(), state: MessageState::Created, tag: "other".into(), key: "other".into(), uses: "other".into(), ..Message::default() };
    let mut m_mtag = m_miss.clone(); m_mtag.id = "m_mtag".into(); m_mtag.model.tag = "zz1".into();
    for m in [&m_hit, &m_miss, &m_mtag] { engine.runtime().emitter().emit_message(m); }
    tokio::time::sleep(std::time::Duration::from_millis(800)).await;
    let got = got.lock().unwrap().clone();
    let mut bad: Vec<String> = Vec::new();
    for f in fields.iter() {
        for (mid, want) in [("m_hit", true), ("m_miss", *f == "default"), ("m_mtag", *f == "default" || *f == "tag")] {
            let n = got.iter().filter(|(c, m)| c == f && m == mid).count();
            if want && n != 1 { bad.push(format!("REPLAY-FAIL channel restricting only `{f}` received message {mid} {n} time(s), expected exactly once")); }
            if !want && n != 0 { bad.push(format!("REPLAY-FAIL channel restricting only `{f}` received message {mid} although its {f} does not match")); }
        }
    }
    for b in bad.iter() { println!("{b}"); }
    assert!(bad.is_empty());
}
