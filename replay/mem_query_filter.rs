// replay driver (appended to acts/src/store/tests/mem.rs of a scratch copy):
// AND / OR accumulation must be exact also when a sub-condition matches nothing.
#[tokio::test]
async fn verif_replay_mem_query_filter() {
    let store = MemStore::new();
    let models = store.models();
    for (i, name) in ["a", "b", "c"].iter().enumerate() {
        models.create(&Model { id: format!("m{i}"), name: name.to_string(), ver: i as i32, size: 7, create_time: 0, update_time: 0,
            data: "{}".to_string(), timestamp: i as i64 }).unwrap();
    }
    let mut bad: Vec<String> = Vec::new();
    let mut check = |what: &str, q: Query, want: usize| {
        let got = models.query(&q).unwrap().count;
        if got != want { bad.push(format!("REPLAY-FAIL {what}: expected {want} record(s), query returned {got}")); }
    };
    check("AND[name=='zzz' (matches nothing), size==7 (matches all)]",
        Query::new().push(Cond::and().push(Expr::eq("name", "zzz")).push(Expr::eq("size", 7))), 0);
    check("AND[size==7, name=='zzz']",
        Query::new().push(Cond::and().push(Expr::eq("size", 7)).push(Expr::eq("name", "zzz"))), 0);
    check("AND[name=='a', name=='b' (disjoint), size==7]",
        Query::new().push(Cond::and().push(Expr::eq("name", "a")).push(Expr::eq("name", "b")).push(Expr::eq("size", 7))), 0);
    check("OR[name=='zzz', name=='a']",
        Query::new().push(Cond::or().push(Expr::eq("name", "zzz")).push(Expr::eq("name", "a"))), 1);
    check("two conditions: AND[name=='zzz'] and AND[size==7]",
        Query::new().push(Cond::and().push(Expr::eq("name", "zzz"))).push(Cond::and().push(Expr::eq("size", 7))), 0);
    check("two conditions: AND[size==7] and AND[name=='zzz']",
        Query::new().push(Cond::and().push(Expr::eq("size", 7))).push(Cond::and().push(Expr::eq("name", "zzz"))), 0);
    check("three conditions: AND[name=='a'], AND[name=='b'], AND[size==7]",
        Query::new().push(Cond::and().push(Expr::eq("name", "a"))).push(Cond::and().push(Expr::eq("name", "b"))).push(Cond::and().push(Expr::eq("size", 7))), 0);
    check("AND[name=='a', size==7]",
        Query::new().push(Cond::and().push(Expr::eq("name", "a")).push(Expr::eq("size", 7))), 1);
    for b in bad.iter() { println!("{b}"); }
    assert!(bad.is_empty(), "{} query result(s) wrong", bad.len());
}
