// bounded stand-in driver (appended to acts/src/package/tests/subflow.rs of a scratch copy): property C15.
// A calling act stays open until its child process has terminated and is then closed exactly once, in the way the child ended:
// completed / error (with the child's code and message) / aborted / skipped; a missing target model fails the calling act.
// 16 scenarios (incl. a call chain of depth 2 -- main -> w2 -> w3 -- whose innermost act is completed / failed: every return travels one level up; a calling process that has left the process cache -- its image is in the store -- when the child ends; a child whose outputs are named like the error fields; a calling act whose own catch takes the child's error; a calling act with declared outputs whose child errors / aborts): a timeout rule on the calling act finishing while the child is still open; the child's single irq act answered next / error(code) / abort / skip (the child then completes), a child script that throws (engine error, empty
// code), a missing model at depth 1 and at depth 2.
#[tokio::test]
async fn verif_replay_hist_subflow_return() {
    use std::sync::{Arc, Mutex};
    let mut bad: Vec<String> = Vec::new();
    #[derive(Clone, Copy, Debug, PartialEq)]
    enum Sc { Next, ErrorCode, Abort, Skip, ScriptThrows, Missing1, Missing2, TimeoutWhileChildOpen, ErrorCodeDeclaredOutputs, AbortDeclaredOutputs, ErrorCaughtByCallingAct, ErrorChildOutputsNamedLikeTheError, ParentEvictedNext, ParentEvictedError, Depth2Next, Depth2Error }
    for sc in [Sc::Next, Sc::ErrorCode, Sc::Abort, Sc::Skip, Sc::ScriptThrows, Sc::Missing1, Sc::Missing2, Sc::TimeoutWhileChildOpen, Sc::ErrorCodeDeclaredOutputs, Sc::AbortDeclaredOutputs, Sc::ErrorCaughtByCallingAct, Sc::ErrorChildOutputsNamedLikeTheError, Sc::ParentEvictedNext, Sc::ParentEvictedError, Sc::Depth2Next, Sc::Depth2Error] {
        let target = if sc == Sc::Missing1 { "not_deployed" } else { "w2" };
        let mut main = Workflow::new().with_id("main").with_step(|step| step.with_id("step1"));
        if sc == Sc::TimeoutWhileChildOpen {
            // a timeout rule on the calling act whose steps finish while the child is still waiting for its client
            main.steps[0].acts.push(Act::subflow(json!({ "to": target })).with_id("call1").with_timeout(|t| t.with_on("1s").with_step(|s| s.with_id("ts1"))));
        } else if sc == Sc::ErrorCodeDeclaredOutputs || sc == Sc::AbortDeclaredOutputs {
            // the calling act declares an output: the child's error / abort must still close it
            main.steps[0].acts.push(Act::subflow(json!({ "to": target })).with_id("call1").with_output("result", json!(null)));
        } else if sc == Sc::ErrorChildOutputsNamedLikeTheError {
            // the child hands back outputs that happen to be called `message` and `ecode`: the calling act must still carry the FAILURE's code and message
            main.steps[0].acts.push(Act::subflow(json!({ "to": target, "options": { "message": "an output of the child", "ecode": "not-the-error" } })).with_id("call1"));
        } else if sc == Sc::ErrorCaughtByCallingAct {
            // the calling act declares a catch-all: the child's error is taken by it, its steps run, then the calling act completes (C06) -- once (C15)
            main.steps[0].acts.push(Act::subflow(json!({ "to": target })).with_id("call1").with_catch(|c| c.with_step(|s| s.with_id("cs1"))));
        } else {
            main.steps[0].acts.push(Act::subflow(json!({ "to": target })).with_id("call1"));
        }
        // the calling process has a second step, so that it is still there to be looked at after the return
        if sc == Sc::ParentEvictedNext { main = main.with_step(|step| step.with_id("step2").with_act(Act::irq(|act| act.with_key("act2")).with_id("act2"))); }
        let w2 = match sc {
            Sc::ScriptThrows => Workflow::new().with_id("w2").with_step(|step| step.with_id("s1").with_act(Act::code(r#"throw new Error("boom in child");"#).with_id("code1"))),
            Sc::Missing2 => Workflow::new().with_id("w2").with_step(|step| step.with_id("s1").with_act(Act::subflow(json!({ "to": "not_deployed" })).with_id("call2"))),
            Sc::Depth2Next | Sc::Depth2Error => Workflow::new().with_id("w2").with_step(|step| step.with_id("s1").with_act(Act::subflow(json!({ "to": "w3" })).with_id("call2"))),
            Sc::ErrorChildOutputsNamedLikeTheError => Workflow::new().with_id("w2").with_output("message", json!(null)).with_output("ecode", json!(null))
                .with_step(|step| step.with_id("s1").with_act(Act::irq(|act| act.with_key("act1")).with_id("act1"))),
            _ => Workflow::new().with_id("w2").with_step(|step| step.with_id("s1").with_act(Act::irq(|act| act.with_key("act1")).with_id("act1"))),
        };
        let (proc, scher, emitter, _tx, _rx) = create_proc_signal::<()>(&mut main, &utils::longid());
        if sc != Sc::Missing1 { Executor::new(&scher).model().deploy(&w2).unwrap(); }
        if sc == Sc::Depth2Next || sc == Sc::Depth2Error {
            Executor::new(&scher).model().deploy(&Workflow::new().with_id("w3").with_step(|step| step.with_id("s1").with_act(Act::irq(|act| act.with_key("act1")).with_id("act1")))).unwrap();
        }
        let call_msgs: Arc<Mutex<Vec<String>>> = Arc::new(Mutex::new(Vec::new()));
        let cm = call_msgs.clone();
        let child_done_before: Arc<Mutex<Option<bool>>> = Arc::new(Mutex::new(None));
        let (cache, main_pid) = (scher.cache().clone(), proc.id().to_string());
        let main_pid2 = main_pid.clone();
        let events: Arc<Mutex<Vec<String>>> = Arc::new(Mutex::new(Vec::new()));
        let (ev1, ev2, ev3) = (events.clone(), events.clone(), events.clone());
        emitter.on_complete(move |e| { ev1.lock().unwrap().push(format!("complete:{}", e.model.id)); });
        emitter.on_error(move |e| { ev2.lock().unwrap().push(format!("error:{}:{}", e.model.id, e.inputs.get::<String>(consts::ACT_ERR_CODE).unwrap_or_default())); });
        emitter.on_message(move |e| {
            if e.nid == "call1" { cm.lock().unwrap().push(e.state.to_string()); }
            if e.is_key("act2") && e.is_state(MessageState::Created) { ev3.lock().unwrap().push("parent:act2".to_string()); }
            if e.is_key("act1") && e.is_state(MessageState::Created) && sc != Sc::TimeoutWhileChildOpen {
                // the calling process only waits now: it leaves the cache, its image stays in the store
                if sc == Sc::ParentEvictedNext || sc == Sc::ParentEvictedError { cache.uncache(&main_pid2); }
                let mut options = Vars::new();
                let action = match sc {
                    Sc::Next | Sc::ParentEvictedNext | Sc::Depth2Next => EventAction::Next,
                    Sc::ParentEvictedError | Sc::Depth2Error |
                    Sc::ErrorCode | Sc::ErrorCodeDeclaredOutputs | Sc::ErrorCaughtByCallingAct | Sc::ErrorChildOutputsNamedLikeTheError => { options.set(consts::ACT_ERR_CODE, "err1"); options.set(consts::ACT_ERR_MESSAGE, "sub workflow error"); EventAction::Error }
                    Sc::Abort | Sc::AbortDeclaredOutputs => EventAction::Abort,
                    _ => EventAction::Skip,
                };
                e.do_action(&e.pid, &e.tid, action, &options).unwrap();
            }
        });
        let _ = child_done_before;
        scher.launch(&proc);
        if sc == Sc::TimeoutWhileChildOpen {
            // nobody answers the child's act: 3 s later (rule at 1 s, tick 0.9 s) the calling act must still be open
            tokio::time::sleep(std::time::Duration::from_millis(3200)).await;
            let st = proc.task_by_nid("call1").first().map(|t| t.state());
            let ts = proc.task_by_nid("ts1").first().map(|t| t.state());
            if st.as_ref().map(|s| s.is_completed()).unwrap_or(true) || proc.state().is_completed() {
                bad.push(format!("REPLAY-FAIL scenario {sc:?}: the child process is still waiting for its client, yet the calling act is {st:?} and the calling process {} (timeout step ts1 = {ts:?})", proc.state()));
            }
            continue;
        }
        if sc == Sc::ParentEvictedNext || sc == Sc::ParentEvictedError {
            // the live process is no longer `proc` (that object left the cache): judged from the events and from the process the runtime hands out
            let want_event = if sc == Sc::ParentEvictedNext { "parent:act2" } else { "error:main:err1" };
            let mut left = 5000u64;
            while left > 0 && !events.lock().unwrap().iter().any(|e| e == want_event) { tokio::time::sleep(std::time::Duration::from_millis(25)).await; left = left.saturating_sub(25); }
            tokio::time::sleep(std::time::Duration::from_millis(100)).await;
            let evs = events.lock().unwrap().clone();
            let mut diffs: Vec<String> = Vec::new();
            if !evs.iter().any(|e| e == want_event) { diffs.push(format!("5 s after the child ended the calling process has not taken the return: events {evs:?}, expected {want_event}")); }
            if sc == Sc::ParentEvictedNext {
                let st = scher.proc(&main_pid).and_then(|p| p.task_by_nid("call1").first().map(|t| t.state()));
                if st != Some(TaskState::Completed) { diffs.push(format!("the calling act (of the re-loaded calling process) is {st:?}, the child's ending asks for Completed")); }
                if evs.iter().filter(|e| e.as_str() == "parent:act2").count() > 1 { diffs.push(format!("the calling act was closed more than once: {evs:?}")); }
            }
            if !diffs.is_empty() { bad.push(format!("REPLAY-FAIL scenario {sc:?}: {}", diffs.join("; "))); }
            continue;
        }
        let mut left = 5000u64;
        while left > 0 && !proc.state().is_completed() { tokio::time::sleep(std::time::Duration::from_millis(25)).await; left = left.saturating_sub(25); }
        tokio::time::sleep(std::time::Duration::from_millis(100)).await;
        let call1 = proc.task_by_nid("call1").first().cloned();
        let st = call1.as_ref().map(|t| t.state());
        // a skipped act does not skip the child process: the child completes, so does the calling act
        let want = match sc { Sc::Next | Sc::Skip | Sc::ErrorCaughtByCallingAct | Sc::ParentEvictedNext | Sc::Depth2Next => TaskState::Completed, Sc::Abort | Sc::AbortDeclaredOutputs => TaskState::Aborted, _ => TaskState::Error };
        let mut diffs: Vec<String> = Vec::new();
        if st != Some(want.clone()) { diffs.push(format!("the calling act ends {st:?}, the child's ending asks for {want:?} (main process: {})", proc.state())); }
        if !proc.state().is_completed() { diffs.push(format!("the calling process is still {} 5 s after the child ended", proc.state())); }
        if sc == Sc::ErrorCaughtByCallingAct {
            let cs = proc.task_by_nid("cs1").first().map(|t| t.state());
            if cs != Some(TaskState::Completed) { diffs.push(format!("the catch step of the calling act is {cs:?}")); }
            if proc.state() != TaskState::Completed { diffs.push(format!("the calling process ends {} although the calling act's catch took the child's error", proc.state())); }
        }
        if let Some(t) = &call1 {
            match sc {
                Sc::ErrorChildOutputsNamedLikeTheError => { let e = t.err(); if e.as_ref().map(|e| (e.ecode.as_str(), e.message.as_str())) != Some(("err1", "sub workflow error")) { diffs.push(format!("the calling act does not carry the child's error code and message but {e:?}")); } }
                Sc::ErrorCode | Sc::ErrorCodeDeclaredOutputs | Sc::ParentEvictedError | Sc::Depth2Error => { let e = t.err(); if e.as_ref().map(|e| e.ecode.as_str()) != Some("err1") { diffs.push(format!("the calling act does not carry the child's error code: {e:?}")); } }
                Sc::ScriptThrows => { let e = t.err(); if !e.as_ref().map(|e| e.message.contains("boom in child")).unwrap_or(false) { diffs.push(format!("the calling act does not carry the child's error message: {e:?}")); } }
                _ => {}
            }
        }
        let msgs = call_msgs.lock().unwrap().clone();
        let terminal = msgs.iter().filter(|s| s.as_str() != "created" && s.as_str() != "none").count();
        if terminal > 1 { diffs.push(format!("the calling act was closed {terminal} times: messages {msgs:?}")); }
        if !diffs.is_empty() { bad.push(format!("REPLAY-FAIL scenario {sc:?}: {}", diffs.join("; "))); }
    }
    for b in bad.iter() { println!("{b}"); }
    assert!(bad.is_empty());
}
