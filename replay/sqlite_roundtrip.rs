// replay driver (appended to store/sqlite/src/tests.rs of a scratch copy): create -> find must return every field, update -> find every
// changed field (all six collections, every field given its own distinct value), and an update leaves other rows alone.
#[tokio::test(flavor = "multi_thread", worker_threads = 2)]
async fn verif_replay_sqlite_roundtrip() {
    let store = store().await;
    let mut bad: Vec<String> = Vec::new();
    macro_rules! cmp { ($coll:expr, $a:expr, $b:expr, $($f:ident),*) => { $( if format!("{:?}", $a.$f) != format!("{:?}", $b.$f) {
        bad.push(format!("REPLAY-FAIL {}.{}: stored {:?} read back {:?}", $coll, stringify!($f), $a.$f, $b.$f)); } )* } }
    let p = Proc { id: utils::longid(), name: "f_name".into(), mid: "f_mid".into(), state: "f_state".into(), start_time: 11, end_time: 12,
        timestamp: 13, model: "f_model".into(), env: "f_env".into(), err: Some("f_err".into()) };
    store.procs().create(&p).unwrap();
    let q = store.procs().find(&p.id).unwrap();
    cmp!("procs", p, q, id, name, mid, state, start_time, end_time, timestamp, model, env, err);
    let t = Task { id: utils::longid(), pid: "f_pid".into(), tid: "f_tid".into(), node_data: "f_node".into(), kind: "f_kind".into(),
        prev: Some("f_prev".into()), name: "f_name".into(), state: "f_state".into(), data: "f_data".into(), err: Some("f_err".into()),
        start_time: 21, end_time: 22, hooks: "f_hooks".into(), timestamp: 23 };
    store.tasks().create(&t).unwrap();
    let u = store.tasks().find(&t.id).unwrap();
    cmp!("tasks", t, u, id, pid, tid, node_data, kind, prev, name, state, data, err, start_time, end_time, hooks, timestamp);
    let m = Model { id: utils::longid(), name: "f_name".into(), ver: 31, size: 32, create_time: 33, update_time: 34, data: "f_data".into(), timestamp: 35 };
    store.models().create(&m).unwrap();
    let n = store.models().find(&m.id).unwrap();
    cmp!("models", m, n, id, name, ver, size, create_time, update_time, data, timestamp);
    let e = Event { id: utils::longid(), name: "f_name".into(), mid: "f_mid".into(), ver: 41, uses: "f_uses".into(), params: "f_params".into(), create_time: 42, timestamp: 43 };
    store.events().create(&e).unwrap();
    let f = store.events().find(&e.id).unwrap();
    cmp!("events", e, f, id, name, mid, ver, uses, params, create_time, timestamp);
    let g = Message { id: utils::longid(), tid: "f_tid".into(), name: "f_name".into(), state: MessageState::Completed, r#type: "f_type".into(),
        model: "f_model".into(), pid: "f_pid".into(), nid: "f_nid".into(), mid: "f_mid".into(), key: "f_key".into(), uses: "f_uses".into(),
        inputs: "f_inputs".into(), outputs: "f_outputs".into(), tag: "f_tag".into(), start_time: 51, end_time: 52, chan_id: "f_chan".into(),
        chan_pattern: "f_pat".into(), create_time: 53, update_time: 54, retry_times: 5, status: acts::data::MessageStatus::Acked, timestamp: 56 };
    store.messages().create(&g).unwrap();
    let h = store.messages().find(&g.id).unwrap();
    cmp!("messages", g, h, id, tid, name, state, r#type, model, pid, nid, mid, key, uses, inputs, outputs, tag, start_time, end_time,
        chan_id, chan_pattern, create_time, update_time, retry_times, status, timestamp);
    let k = Package { id: utils::longid(), desc: "f_desc".into(), icon: "f_icon".into(), doc: "f_doc".into(), version: "f_version".into(),
        schema: "f_schema".into(), run_as: acts::ActRunAs::Msg, resources: "f_res".into(), catalog: acts::ActPackageCatalog::App, built_in: true,
        create_time: 61, update_time: 62, timestamp: 63 };
    store.packages().create(&k).unwrap();
    let l = store.packages().find(&k.id).unwrap();
    cmp!("packages", k, l, id, desc, icon, doc, version, schema, run_as, resources, catalog, built_in, create_time, update_time, timestamp);
    // update replaces every field
    let mut p2 = p.clone(); p2.name = "g_name".into(); p2.mid = "g_mid".into(); p2.state = "g_state".into(); p2.start_time = 111; p2.end_time = 112;
    p2.timestamp = 113; p2.model = "g_model".into(); p2.env = "g_env".into(); p2.err = Some("g_err".into());
    store.procs().update(&p2).unwrap();
    let q2 = store.procs().find(&p.id).unwrap();
    cmp!("procs(update)", p2, q2, id, name, mid, state, start_time, end_time, timestamp, model, env, err);
    let mut g2 = g.clone(); g2.create_time = 153; g2.update_time = 154; g2.retry_times = 15; g2.status = acts::data::MessageStatus::Error; g2.timestamp = 156;
    store.messages().update(&g2).unwrap();
    let h2 = store.messages().find(&g.id).unwrap();
    cmp!("messages(update)", g2, h2, id, create_time, update_time, retry_times, status, timestamp);
    // update replaces every field of the row with that id (all collections, every field changed) and of no other row
    let t_other = Task { id: utils::longid(), ..t.clone() };
    store.tasks().create(&t_other).unwrap();
    let t2 = Task { id: t.id.clone(), pid: "g_pid".into(), tid: "g_tid".into(), node_data: "g_node".into(), kind: "g_kind".into(), prev: Some("g_prev".into()),
        name: "g_name".into(), state: "g_state".into(), data: "g_data".into(), err: Some("g_err".into()), start_time: 121, end_time: 122, hooks: "g_hooks".into(), timestamp: 123 };
    store.tasks().update(&t2).unwrap();
    let u2 = store.tasks().find(&t.id).unwrap();
    cmp!("tasks(update)", t2, u2, id, pid, tid, node_data, kind, prev, name, state, data, err, start_time, end_time, hooks, timestamp);
    let u3 = store.tasks().find(&t_other.id).unwrap();
    cmp!("tasks(update of another row)", t_other, u3, id, pid, tid, node_data, kind, prev, name, state, data, err, start_time, end_time, hooks, timestamp);
    let m2 = Model { id: m.id.clone(), name: "g_name".into(), ver: 131, size: 132, create_time: 133, update_time: 134, data: "g_data".into(), timestamp: 135 };
    store.models().update(&m2).unwrap();
    let n2 = store.models().find(&m.id).unwrap();
    cmp!("models(update)", m2, n2, id, name, ver, size, create_time, update_time, data, timestamp);
    let e2 = Event { id: e.id.clone(), name: "g_name".into(), mid: "g_mid".into(), ver: 141, uses: "g_uses".into(), params: "g_params".into(), create_time: 142, timestamp: 143 };
    store.events().update(&e2).unwrap();
    let f2 = store.events().find(&e.id).unwrap();
    cmp!("events(update)", e2, f2, id, name, mid, ver, uses, params, create_time, timestamp);
    let g3 = Message { id: g.id.clone(), tid: "g_tid".into(), name: "g_name".into(), state: MessageState::Error, r#type: "g_type".into(),
        model: "g_model".into(), pid: "g_pid".into(), nid: "g_nid".into(), mid: "g_mid".into(), key: "g_key".into(), uses: "g_uses".into(),
        inputs: "g_inputs".into(), outputs: "g_outputs".into(), tag: "g_tag".into(), start_time: 151, end_time: 152, chan_id: "g_chan".into(),
        chan_pattern: "g_pat".into(), create_time: 253, update_time: 254, retry_times: 25, status: acts::data::MessageStatus::Completed, timestamp: 256 };
    store.messages().update(&g3).unwrap();
    let h3 = store.messages().find(&g.id).unwrap();
    cmp!("messages(update, all fields)", g3, h3, id, tid, name, state, r#type, model, pid, nid, mid, key, uses, inputs, outputs, tag, start_time, end_time,
        chan_id, chan_pattern, create_time, update_time, retry_times, status, timestamp);
    let k2 = Package { id: k.id.clone(), desc: "g_desc".into(), icon: "g_icon".into(), doc: "g_doc".into(), version: "g_version".into(),
        schema: "g_schema".into(), run_as: acts::ActRunAs::Func, resources: "g_res".into(), catalog: acts::ActPackageCatalog::Core, built_in: false,
        create_time: 161, update_time: 162, timestamp: 163 };
    store.packages().update(&k2).unwrap();
    let l2 = store.packages().find(&k.id).unwrap();
    cmp!("packages(update)", k2, l2, id, desc, icon, doc, version, schema, run_as, resources, catalog, built_in, create_time, update_time, timestamp);
    for b in bad.iter() { println!("{b}"); }
    assert!(bad.is_empty(), "{} field(s) differ", bad.len());
}
