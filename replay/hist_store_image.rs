// bounded stand-in / replay driver (appended to acts/src/cache/tests.rs of a scratch copy): property C11.
// (also C03: the process state mirrors a terminal root task.)  At quiescent points of 8 histories (a failing script act revived by its own catch; a script that writes the process environment; an eviction + reload while tasks are in flight; waiting at an act; after a completed act; an error taken by an empty catch; an error taken by a
// catch with steps; an aborted process kept in the store) the process row and the task rows in the store are compared with the live
// process: same set of tasks, per task state / prev / data / error / start and end time, per process state / error / env.
#[tokio::test]
async fn verif_replay_hist_store_image() {
    use crate::{Act, Vars, MessageState, Action, event::EventAction, store::query::{Cond, Expr, Query}, utils::consts};
    use std::sync::{Arc, Mutex};
    let mut bad: Vec<String> = Vec::new();
    #[derive(Clone, Copy, Debug, PartialEq)]
    enum H { Waiting, AfterComplete, EmptyCatch, CatchWithSteps, Aborted, EvictedInFlight, EnvWritten, ScriptActCatch }
    for h in [H::Waiting, H::AfterComplete, H::EmptyCatch, H::CatchWithSteps, H::Aborted, H::EvictedInFlight, H::EnvWritten, H::ScriptActCatch] {
        let config = crate::config::ConfigData { keep_processes: Some(true), cache_cap: Some(100), ..crate::config::ConfigData::default() };
        let engine = EngineBuilder::new().set_config(&config).build().await.unwrap().start();
        let rt = engine.runtime();
        let workflow = match h {
            H::EmptyCatch => Workflow::new().with_id("vh").with_input("a", serde_json::json!(1))
                .with_step(|s| s.with_id("step1").with_catch(|c| c).with_act(Act::irq(|a| a.with_key("act1"))))
                .with_step(|s| s.with_id("step2").with_act(Act::irq(|a| a.with_key("act2")))),
            H::CatchWithSteps => Workflow::new().with_id("vh").with_input("a", serde_json::json!(1))
                .with_step(|s| s.with_id("step1").with_catch(|c| c.with_step(|s| s.with_id("cs1").with_act(Act::irq(|a| a.with_key("act2"))))).with_act(Act::irq(|a| a.with_key("act1")))),
            // a script act (an act that delivers no message of its own) fails and its OWN catch, whose step waits for a client, takes the error:
            // the revived act must be in the store as it is in memory
            H::ScriptActCatch => Workflow::new().with_id("vh").with_input("a", serde_json::json!(1))
                .with_step(|s| s.with_id("step1").with_act(Act::code(r#"throw new Error("boom");"#).with_id("c1")
                    .with_catch(|c| c.with_step(|s| s.with_id("cs1").with_act(Act::irq(|a| a.with_key("act2")))))))
                .with_step(|s| s.with_id("step2")),
            // a script writes the process environment after the process row was created
            H::EnvWritten => Workflow::new().with_id("vh").with_input("a", serde_json::json!(1))
                .with_step(|s| s.with_id("step1").with_act(Act::code(r#"$env.cnt = 7; $env.who = "script";"#).with_id("c1")))
                .with_step(|s| s.with_id("step2").with_act(Act::irq(|a| a.with_key("act2")))),
            // `a` is an input AND an output of the workflow: the step receives a copy of it, so a later write lands in two scopes (both must be stored)
            _ => Workflow::new().with_id("vh").with_input("a", serde_json::json!(1)).with_output("a", serde_json::json!(null))
                .with_step(|s| s.with_id("step1").with_act(Act::irq(|a| a.with_key("act1"))))
                .with_step(|s| s.with_id("step2").with_act(Act::irq(|a| a.with_key("act2")))),
        };
        let pid = utils::longid();
        let proc = rt.create_proc(&pid, &workflow);
        let quiet: Arc<Mutex<bool>> = Arc::new(Mutex::new(false));
        let q2 = quiet.clone();
        let s = rt.clone();
        engine.channel().on_message(move |e| {
            if e.is_key("act1") && e.is_state(MessageState::Created) {
                match h {
                    H::Waiting | H::EvictedInFlight | H::EnvWritten | H::ScriptActCatch => { *q2.lock().unwrap() = true; }
                    H::AfterComplete => { let _ = s.do_action(&Action::new(&e.pid, &e.tid, EventAction::Next, &Vars::new().with("a", 5))); }
                    H::EmptyCatch | H::CatchWithSteps => {
                        let mut o = Vars::new(); o.set(consts::ACT_ERR_CODE, "err1"); o.set(consts::ACT_ERR_MESSAGE, "biz error");
                        let _ = s.do_action(&Action::new(&e.pid, &e.tid, EventAction::Error, &o));
                    }
                    H::Aborted => { let _ = s.do_action(&Action::new(&e.pid, &e.tid, EventAction::Abort, &Vars::new())); *q2.lock().unwrap() = true; }
                }
            }
            if e.is_key("act2") && e.is_state(MessageState::Created) { *q2.lock().unwrap() = true; }
        });
        if h == H::EvictedInFlight {
            // the process is dropped from the cache and reloaded from the store WHILE its first step is starting (tasks in flight): the
            // tasks that go on reporting afterwards must end up in the process the API hands out
            let (c, r, p, once) = (rt.cache().clone(), rt.clone(), pid.clone(), Arc::new(Mutex::new(false)));
            rt.scher().on_task(move |e| {
                if e.inner().node().id() == "step1" && e.inner().state().is_running() && !*once.lock().unwrap() {
                    *once.lock().unwrap() = true;
                    c.uncache(&p);
                    let _ = c.proc(&p, &r);
                }
            });
        }
        rt.launch(&proc);
        for _ in 0..400 { if *quiet.lock().unwrap() { break; } tokio::time::sleep(std::time::Duration::from_millis(25)).await; }
        tokio::time::sleep(std::time::Duration::from_millis(500)).await;
        if !*quiet.lock().unwrap() { bad.push(format!("REPLAY-FAIL history {h:?}: the quiescent point was never reached (process {})", proc.state())); continue; }
        // the live process AS SEEN THROUGH THE API (after an eviction that is the reloaded object the cache hands out)
        let proc = if h == H::EvictedInFlight { match rt.cache().proc(&pid, &rt) { Some(p) => p, None => { bad.push(format!("REPLAY-FAIL history {h:?}: the process is not available through the cache")); continue; } } } else { proc.clone() };
        let store = rt.cache().store();
        let rows = store.tasks().query(&Query::new().push(Cond::and().push(Expr::eq("pid", pid.clone()))).set_limit(1000)).unwrap().rows;
        let live = proc.tasks();
        let mut diffs: Vec<String> = Vec::new();
        if rows.len() != live.len() { diffs.push(format!("{} task rows for {} live tasks", rows.len(), live.len())); }
        for task in live.iter() {
            let what = format!("task {} ({})", task.id, task.node().id());
            match rows.iter().find(|r| r.tid == task.id) {
                None => diffs.push(format!("no row for {what}")),
                Some(row) => {
                    if row.state != task.state().to_string() { diffs.push(format!("{what}: row state {} / live {}", row.state, task.state())); }
                    if row.prev != task.prev() { diffs.push(format!("{what}: row prev {:?} / live {:?}", row.prev, task.prev())); }
                    if row.start_time != task.start_time() || row.end_time != task.end_time() { diffs.push(format!("{what}: row times ({}, {}) / live ({}, {})", row.start_time, row.end_time, task.start_time(), task.end_time())); }
                    let live_data: serde_json::Value = serde_json::from_str(&task.data().to_string()).unwrap_or_default();
                    let row_data: serde_json::Value = serde_json::from_str(&row.data).unwrap_or_default();
                    if live_data != row_data { diffs.push(format!("{what}: row data {row_data} / live {live_data}")); }
                    let (live_err, row_err) = (task.err().map(|e| e.ecode), row.err.as_ref().and_then(|e| serde_json::from_str::<serde_json::Value>(e).ok()).and_then(|v| v.get("ecode").and_then(|c| c.as_str().map(|s| s.to_string()))));
                    if live_err.is_some() != row.err.as_ref().map(|e| !e.is_empty() && e != "null").unwrap_or(false) { diffs.push(format!("{what}: row error {:?} / live {:?}", row.err, live_err)); }
                    let _ = row_err;
                }
            }
        }
        match store.procs().find(&pid) {
            Err(_) => diffs.push("no process row".to_string()),
            Ok(row) => {
                if row.state != proc.state().to_string() { diffs.push(format!("process: row state {} / live {}", row.state, proc.state())); }
                // (the process row's end_time is NOT compared: C11 lists state, error and env for the process, and a process whose state is
                //  written twice within one action keeps the later clock reading in memory -- a 1 ms difference is not a property violation)
                let live_env: serde_json::Value = serde_json::from_str(&proc.env().to_string()).unwrap_or_default();
                let row_env: serde_json::Value = serde_json::from_str(&row.env).unwrap_or_default();
                if live_env != row_env { diffs.push(format!("process: row env {row_env} / live {live_env}")); }
                if h == H::EnvWritten && live_env.get("cnt") != Some(&serde_json::json!(7)) { diffs.push(format!("the script's write to $env is not in the live process: {live_env}")); }
            }
        }
        // C03: the process mirrors its root task once the root is terminal
        if let Some(root) = proc.root() {
            if root.state().is_completed() && proc.state() != root.state() { diffs.push(format!("process state {} does not mirror its terminal root task {}", proc.state(), root.state())); }
        }
        if !diffs.is_empty() { bad.push(format!("REPLAY-FAIL history {h:?}: {}", diffs.join("; "))); }
    }
    for b in bad.iter().take(10) { println!("{b}"); }
    assert!(bad.is_empty(), "{} histories differ", bad.len());
}
