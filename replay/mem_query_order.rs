// replay driver (appended to acts/src/store/tests/mem.rs of a scratch copy): property C10
// "ordered by the requested keys (numbers numerically)", several keys, ascending and descending.
#[tokio::test]
async fn verif_replay_mem_query_order() {
    let store = MemStore::new();
    let models = store.models();
    // (id, name, ver)
    let recs = [("m0", "b", 9), ("m1", "a", 10), ("m2", "b", 100), ("m3", "a", 2), ("m4", "c", 10)];
    for (id, name, ver) in recs.iter() {
        models.create(&Model { id: id.to_string(), name: name.to_string(), ver: *ver, size: 7, create_time: 0, update_time: 0,
            data: "{}".to_string(), timestamp: 0 }).unwrap();
    }
    let mut bad: Vec<String> = Vec::new();
    let mut check = |what: &str, q: Query, want: &[&str]| {
        let got: Vec<String> = models.query(&q).unwrap().rows.iter().map(|m| m.id.clone()).collect();
        let want: Vec<String> = want.iter().map(|s| s.to_string()).collect();
        if got != want { bad.push(format!("REPLAY-FAIL {what}: expected order {want:?}, query returned {got:?}")); }
    };
    check("order by ver ascending (numbers 2, 9, 10, 10, 100; ties by id ascending)",
        Query::new().push_order("ver", false).push_order("id", false), &["m3", "m0", "m1", "m4", "m2"]);
    check("order by ver descending, ties by id ascending",
        Query::new().push_order("ver", true).push_order("id", false), &["m2", "m1", "m4", "m0", "m3"]);
    check("order by name ascending, then ver descending",
        Query::new().push_order("name", false).push_order("ver", true), &["m1", "m3", "m2", "m0", "m4"]);
    check("order by name descending, then ver ascending",
        Query::new().push_order("name", true).push_order("ver", false), &["m4", "m0", "m2", "m3", "m1"]);
    for b in bad.iter() { println!("{b}"); }
    assert!(bad.is_empty(), "{} query order(s) wrong", bad.len());
}
