// bounded stand-in / replay driver (appended to store/sqlite/src/tests.rs of a scratch copy): property C10, the SQLite `query` of all six
// collections: "a query returns exactly the records satisfying its AND/OR filter, ordered by the requested keys (numbers numerically), paged
// by offset/limit with the true total count".  Per collection 7 records that share a unique marker (and 3 that do not); every window
// offset 0..11 x limit 1..8, ascending and descending by timestamp, is compared with the reference (count 7, page arithmetic, the rows of the
// window in order); then 3 records are deleted and every window is asked again (a late page after deletes).
#[tokio::test(flavor = "multi_thread", worker_threads = 2)]
async fn verif_replay_sqlite_query_pages() {
    let store = store().await;
    let mut bad: Vec<String> = Vec::new();
    let marker = format!("vq{}", utils::shortid());
    // ($coll, $name, make(i, marked) -> record, key field that carries the marker, id/timestamp getters)
    macro_rules! run { ($name:expr, $coll:expr, $mk:expr, $key:expr) => {{
        let coll = $coll;
        let mut ids: Vec<String> = Vec::new();
        for i in 0..10usize {
            let marked = i < 7;
            let rec = $mk(i, marked);
            if marked { ids.push(rec.id.clone()); }
            coll.create(&rec).unwrap();
        }
        for round in 0..2 {
            let live: Vec<String> = if round == 0 { ids.clone() } else { ids.iter().enumerate().filter(|(i, _)| i % 2 == 0).map(|(_, s)| s.clone()).collect() };
            if round == 1 { for (i, id) in ids.iter().enumerate() { if i % 2 == 1 { coll.delete(id).unwrap(); } } }
            let total = live.len();
            for rev in [false, true] {
                let mut want: Vec<String> = live.clone();
                if rev { want.reverse(); }
                for offset in 0..12usize {
                    for limit in 1..9usize {
                        let q = Query::new().push(Cond::and().push(Expr::eq($key, marker.clone()))).push_order("timestamp", rev).set_offset(offset).set_limit(limit);
                        let what = format!("{} round {round} {} offset {offset} limit {limit}", $name, if rev { "desc" } else { "asc" });
                        match coll.query(&q) {
                            Err(e) => bad.push(format!("REPLAY-FAIL {what}: refused: {e}")),
                            Ok(p) => {
                                if p.count != total { bad.push(format!("REPLAY-FAIL {what}: count {} but {total} record(s) satisfy the filter", p.count)); }
                                if p.page_size != limit || p.page_count != (total + limit - 1) / limit || p.page_num != offset / limit + 1 {
                                    bad.push(format!("REPLAY-FAIL {what}: page_size {} page_count {} page_num {}", p.page_size, p.page_count, p.page_num)); }
                                let w: Vec<String> = want.iter().skip(offset).take(limit).cloned().collect();
                                let got: Vec<String> = p.rows.iter().map(|r| r.id.clone()).collect();
                                if got != w { bad.push(format!("REPLAY-FAIL {what}: rows {got:?} expected {w:?}")); }
                            }
                        }
                    }
                }
            }
            // no filter on the marker: an OR over two ids returns exactly those two
            if live.len() >= 2 {
                let q = Query::new().push(Cond::or().push(Expr::eq("id", live[0].clone())).push(Expr::eq("id", live[1].clone())));
                match coll.query(&q) { Ok(p) if p.count == 2 && p.rows.len() == 2 => {}, other => bad.push(format!("REPLAY-FAIL {} round {round}: OR over two ids: {:?}", $name, other.map(|p| (p.count, p.rows.len())))) }
            }
        }
    }}; }
    let mk = marker.clone();
    run!("models", store.models(), |i: usize, m: bool| Model { id: utils::longid(), name: if m { mk.clone() } else { "other".into() }, ver: i as i32, size: 1, create_time: 0, update_time: 0, data: "{}".into(), timestamp: 1000 + i as i64 }, "name");
    let mk = marker.clone();
    run!("procs", store.procs(), |i: usize, m: bool| Proc { id: utils::longid(), name: if m { mk.clone() } else { "other".into() }, mid: "m".into(), state: "running".into(), start_time: 0, end_time: 0, timestamp: 1000 + i as i64, model: "{}".into(), env: "{}".into(), err: None }, "name");
    let mk = marker.clone();
    run!("tasks", store.tasks(), |i: usize, m: bool| Task { id: utils::longid(), pid: "p".into(), tid: format!("t{i}"), node_data: "{}".into(), kind: "step".into(), prev: None, name: if m { mk.clone() } else { "other".into() }, state: "running".into(), data: "{}".into(), err: None, start_time: 0, end_time: 0, hooks: "{}".into(), timestamp: 1000 + i as i64 }, "name");
    let mk = marker.clone();
    run!("events", store.events(), |i: usize, m: bool| Event { id: utils::longid(), name: if m { mk.clone() } else { "other".into() }, mid: "m".into(), ver: 1, uses: "u".into(), params: "{}".into(), create_time: 0, timestamp: 1000 + i as i64 }, "name");
    let mk = marker.clone();
    run!("messages", store.messages(), |i: usize, m: bool| Message { id: utils::longid(), tid: "t".into(), name: if m { mk.clone() } else { "other".into() }, state: MessageState::Created, r#type: "act".into(), model: "{}".into(), pid: "p".into(), nid: "n".into(), mid: "m".into(), key: "k".into(), uses: "u".into(), inputs: "{}".into(), outputs: "{}".into(), tag: "".into(), start_time: 0, end_time: 0, chan_id: "c".into(), chan_pattern: "*".into(), create_time: 0, update_time: 0, retry_times: 0, status: acts::data::MessageStatus::Created, timestamp: 1000 + i as i64 }, "name");
    let mk = marker.clone();
    run!("packages", store.packages(), |i: usize, m: bool| Package { id: utils::longid(), desc: if m { mk.clone() } else { "other".into() }, icon: "i".into(), doc: "d".into(), version: "1".into(), schema: "{}".into(), run_as: acts::ActRunAs::Msg, resources: "[]".into(), catalog: acts::ActPackageCatalog::App, built_in: false, create_time: 0, update_time: 0, timestamp: 1000 + i as i64 }, "desc");
    for b in bad.iter().take(12) { println!("{b}"); }
    assert!(bad.is_empty(), "{} difference(s)", bad.len());
}
