// bounded stand-in / replay driver (appended to acts/src/package/tests/parallel.rs of a scratch copy): property C16 (generators).
// Every generator shape {parallel, sequence} over a list of 1-3 elements, alone and nested inside another generator of 2 elements
// ({parallel, sequence} x {parallel, sequence}), with one irq act per innermost group that the driver answers: the number of groups is
// the list length, each innermost act sees its OWN group's $index / $value (not the outer generator's), a sequence opens its groups in
// list order one after another, and the process completes (the generating acts close only after every generated act).
#[tokio::test]
async fn verif_replay_hist_generators() {
    use std::sync::{Arc, Mutex};
    let mut bad: Vec<String> = Vec::new();
    let mkgen = |kind: &str, list: Vec<String>, inner: serde_json::Value| -> serde_json::Value {
        json!({ "uses": format!("acts.core.{kind}"), "params": { "in": list, "acts": [inner] } })
    };
    let irq = json!({ "uses": "acts.core.irq", "key": "k" });
    let mut shapes: Vec<(String, serde_json::Value, Vec<(i64, String)>, bool)> = Vec::new();   // (name, act json, expected (index, value) of every irq, inner order matters)
    for kind in ["parallel", "sequence"] {
        for n in 1..=3usize {
            let list: Vec<String> = (0..n).map(|i| format!("v{i}")).collect();
            let want = list.iter().enumerate().map(|(i, v)| (i as i64, v.clone())).collect();
            shapes.push((format!("{kind} over {n}"), mkgen(kind, list, irq.clone()), want, kind == "sequence"));
        }
    }
    for outer in ["parallel", "sequence"] {
        for inner in ["parallel", "sequence"] {
            let il: Vec<String> = vec!["x".into(), "y".into(), "z".into()];
            let ol: Vec<String> = vec!["a".into(), "b".into()];
            let mut want = Vec::new();
            for _ in ol.iter() { for (i, v) in il.iter().enumerate() { want.push((i as i64, v.clone())); } }
            shapes.push((format!("{outer} over 2 of {inner} over 3"), mkgen(outer, ol, mkgen(inner, il, irq.clone())), want, false));
        }
    }
    for (name, act_json, want, ordered) in shapes.iter() {
        let act: Act = serde_json::from_value(act_json.clone()).unwrap();
        let mut workflow = Workflow::new().with_step(|step| step.with_id("step1"));
        workflow.steps[0].acts.push(act);
        let (proc, scher, emitter, tx, rx) = create_proc_signal::<()>(&mut workflow, &utils::longid());
        let seen: Arc<Mutex<Vec<(i64, String)>>> = Arc::new(Mutex::new(Vec::new()));
        let s2 = seen.clone();
        let p2 = proc.clone();
        emitter.on_message(move |e| {
            if e.is_key("k") && e.is_state(MessageState::Created) {
                if let Some(t) = p2.task(&e.tid) {
                    let o = t.options();
                    s2.lock().unwrap().push((o.get::<i64>(consts::ACT_INDEX).unwrap_or(-1), o.get::<String>(consts::ACT_VALUE).unwrap_or_default()));
                }
                e.do_action(&e.pid, &e.tid, EventAction::Next, &Vars::new()).unwrap();
            }
        });
        let rx2 = rx.clone();
        scher.launch(&proc);
        let timer = tokio::spawn(async move { tokio::time::sleep(std::time::Duration::from_millis(4000)).await; rx2.close(); });
        tx.recv().await;
        timer.abort();
        let mut got = seen.lock().unwrap().clone();
        let mut w = want.clone();
        if !*ordered { got.sort(); w.sort(); }
        if got != w { bad.push(format!("REPLAY-FAIL {name}: the generated acts saw ($index, $value) = {got:?}, the model says {w:?}")); }
        if !proc.state().is_completed() { bad.push(format!("REPLAY-FAIL {name}: every generated act was answered, yet the process is still {}", proc.state())); }
    }
    for b in bad.iter().take(10) { println!("{b}"); }
    assert!(bad.is_empty(), "{} shapes differ", bad.len());
}
