// bounded stand-in / replay driver (appended to acts/src/scheduler/tests/task.rs of a scratch copy): property C16, lifecycle hooks.
// "A setup act bound to created, completed, before_update, updated or step fires exactly once per matching lifecycle event of the task it is
// attached to": every hook is a msg act with its own key; the number of messages per key is compared with the reference reading of the model:
// created / completed: once for the task that carries the hook; before_update / updated of a STEP: once per act whose NEAREST enclosing step it
// is; step (on the workflow): once per finished step; hooks on an act: created / completed once.  Shapes: flat step, nested steps
// (step -> branch -> step), hooks on the workflow, hooks on an act, two acts in one step.
#[tokio::test]
async fn verif_replay_hist_hooks() {
    use crate::{ActEvent, StmtBuild, Vars};
    use std::sync::{Arc, Mutex};
    let mut bad: Vec<String> = Vec::new();
    fn hooks4(prefix: &'static str) -> Vec<Act> {
        vec![
            Act::msg(|m| m.with_on(ActEvent::Created)).with_key(&format!("{prefix}_created")),
            Act::msg(|m| m.with_on(ActEvent::Completed)).with_key(&format!("{prefix}_completed")),
            Act::msg(|m| m.with_on(ActEvent::BeforeUpdate)).with_key(&format!("{prefix}_before_update")),
            Act::msg(|m| m.with_on(ActEvent::Updated)).with_key(&format!("{prefix}_updated")),
        ]
    }
    let irq = |k: &str| Act::irq(|a| a).with_key(k).with_id(k);
    // (name, workflow, expected counts per hook key)
    let mut shapes: Vec<(&str, Workflow, Vec<(&str, usize)>)> = Vec::new();
    {   // flat: one step with two acts
        let mut s = crate::Step::new().with_id("s");
        s.setup = hooks4("s");
        s = s.with_act(irq("a1")).with_act(irq("a2"));
        let mut w = Workflow::new(); w.steps.push(s);
        shapes.push(("flat step with two acts", w, vec![("s_created", 1), ("s_completed", 1), ("s_before_update", 2), ("s_updated", 2)]));
    }
    {   // nested: outer step -> branch -> inner step -> act: the act belongs to the INNER step
        let mut inner = crate::Step::new().with_id("i");
        inner.setup = hooks4("i");
        inner = inner.with_act(irq("a1"));
        let mut b = crate::Branch::new().with_id("b").with_if("true");
        b.steps.push(inner);
        let mut outer = crate::Step::new().with_id("o");
        outer.setup = hooks4("o");
        outer.branches.push(b);
        let mut w = Workflow::new(); w.steps.push(outer);
        shapes.push(("nested steps", w, vec![("o_created", 1), ("o_completed", 1), ("o_before_update", 0), ("o_updated", 0), ("i_created", 1), ("i_completed", 1), ("i_before_update", 1), ("i_updated", 1)]));
    }
    {   // hooks on the workflow: created / completed once, step once per finished step, before_update / updated once per act
        let mut w = Workflow::new().with_step(|s| s.with_id("s1").with_act(Act::irq(|a| a).with_key("a1").with_id("a1"))).with_step(|s| s.with_id("s2").with_act(Act::irq(|a| a).with_key("a2").with_id("a2")));
        w.setup = hooks4("w");
        w.setup.push(Act::msg(|m| m.with_on(ActEvent::Step)).with_key("w_step"));
        shapes.push(("hooks on the workflow", w, vec![("w_created", 1), ("w_completed", 1), ("w_before_update", 2), ("w_updated", 2), ("w_step", 2)]));
    }
    {   // hooks on an act: created / completed once
        let mut a = irq("a1");
        a.setup = vec![Act::msg(|m| m.with_on(ActEvent::Created)).with_key("a_created"), Act::msg(|m| m.with_on(ActEvent::Completed)).with_key("a_completed")];
        let mut s = crate::Step::new().with_id("s"); s = s.with_act(a);
        let mut w = Workflow::new(); w.steps.push(s);
        shapes.push(("hooks on an act", w, vec![("a_created", 1), ("a_completed", 1)]));
    }
    for (name, wf, want) in shapes.into_iter() {
        let mut workflow = wf;
        let pid = utils::longid();
        let (proc, rt, emitter, _tx, _rx) = create_proc_signal::<()>(&mut workflow, &pid);
        let seen: Arc<Mutex<Vec<String>>> = Arc::new(Mutex::new(Vec::new()));
        let s2 = seen.clone();
        emitter.on_message(move |e| {
            if e.is_msg() { s2.lock().unwrap().push(e.key.clone()); }
            if e.is_irq() && e.is_state(MessageState::Created) { let _ = e.do_action(&e.pid, &e.tid, crate::event::EventAction::Next, &Vars::new()); }
        });
        rt.launch(&proc);
        let mut left = 5000u64;
        while left > 0 && !proc.state().is_completed() { tokio::time::sleep(std::time::Duration::from_millis(25)).await; left = left.saturating_sub(25); }
        tokio::time::sleep(std::time::Duration::from_millis(300)).await;
        if !proc.state().is_completed() { bad.push(format!("REPLAY-FAIL [{name}] the process did not finish ({})", proc.state())); }
        let got = seen.lock().unwrap().clone();
        for (key, n) in want.iter() {
            let c = got.iter().filter(|k| k.as_str() == *key).count();
            if c != *n { bad.push(format!("REPLAY-FAIL [{name}] hook `{key}` fired {c} time(s), the model asks for {n} (all hook messages: {got:?})")); }
        }
    }
    for b in bad.iter().take(12) { println!("{b}"); }
    assert!(bad.is_empty(), "{} difference(s)", bad.len());
}
