// bounded stand-in / replay driver (appended to acts/src/scheduler/tests/message.rs of a scratch copy): property C01 over ACTION HISTORIES.
// "Whenever the engine has no work in flight, every started process has either delivered its terminal event or has at least one open interrupt
// act that a client can still answer ... a process whose every interrupt is eventually answered with 'complete' always finishes."
// Models: (A) step1 {act1; act2} -> step2 {act3};  (B) step1 {branch b1 {s11 {a}}, branch b2 {s12 {b}}} -> step2 {c}.  Histories: the first k
// created acts are answered by a scripted action (next / back to step1 / cancel of an answered act / skip), every later one with next.  After
// EVERY answer the quiescence oracle is checked on the live process (terminal, or an open interrupt act exists); at the end the process is finished.
#[tokio::test]
async fn verif_replay_hist_progress() {
    use crate::{Action, TaskState, event::EventAction};
    use std::sync::{Arc, Mutex};
    let mut bad: Vec<String> = Vec::new();
    #[derive(Clone, Copy, Debug, PartialEq)]
    enum A { Next, BackToStep1, CancelPrev, Skip }
    let model = |m: usize| -> Workflow {
        if m == 0 {
            Workflow::new().with_step(|s| s.with_id("step1").with_act(Act::irq(|a| a.with_key("act1"))).with_act(Act::irq(|a| a.with_key("act2"))))
                .with_step(|s| s.with_id("step2").with_act(Act::irq(|a| a.with_key("act3"))))
        } else {
            Workflow::new().with_step(|s| s.with_id("step1")
                    .with_branch(|b| b.with_id("b1").with_if("true").with_step(|s| s.with_id("s11").with_act(Act::irq(|a| a.with_key("a")))))
                    .with_branch(|b| b.with_id("b2").with_if("true").with_step(|s| s.with_id("s12").with_act(Act::irq(|a| a.with_key("b"))))))
                .with_step(|s| s.with_id("step2").with_act(Act::irq(|a| a.with_key("c"))))
        }
    };
    // scripts: the action for the i-th answer (later answers: Next)
    let scripts: Vec<Vec<A>> = vec![
        vec![], vec![A::Next, A::Next, A::BackToStep1], vec![A::Next, A::BackToStep1], vec![A::Next, A::CancelPrev], vec![A::Next, A::Next, A::CancelPrev],
        vec![A::Skip], vec![A::Next, A::Skip], vec![A::Next, A::Next, A::BackToStep1, A::Next, A::Next, A::BackToStep1],
    ];
    for m in 0..2usize {
        for script in scripts.iter() {
            let mut workflow = model(m);
            let pid = utils::longid();
            let (proc, rt, emitter, _tx, _rx) = create_proc_signal::<()>(&mut workflow, &pid);
            let ends: Arc<Mutex<usize>> = Arc::new(Mutex::new(0));
            let (e1, e2) = (ends.clone(), ends.clone());
            emitter.on_complete(move |_| { *e1.lock().unwrap() += 1; });
            emitter.on_error(move |_| { *e2.lock().unwrap() += 1; });
            rt.launch(&proc);
            let what = format!("model {} script {script:?}", if m == 0 { "A" } else { "B" });
            let mut answered: Vec<Arc<crate::scheduler::Task>> = Vec::new();
            let mut n = 0usize;
            loop {
                // quiescence: the set of open interrupt acts is stable for 3 polls
                let mut open: Vec<Arc<crate::scheduler::Task>> = Vec::new();
                let mut stable = 0;
                for _ in 0..120 {
                    tokio::time::sleep(std::time::Duration::from_millis(25)).await;
                    let now: Vec<_> = proc.tasks().into_iter().filter(|t| t.state() == TaskState::Interrupt).collect();
                    if now.len() == open.len() && now.iter().zip(open.iter()).all(|(a, b)| a.id == b.id) { stable += 1; } else { stable = 0; }
                    open = now;
                    if stable >= 3 || proc.state().is_completed() { break; }
                }
                if proc.state().is_completed() { break; }
                if open.is_empty() {
                    bad.push(format!("REPLAY-FAIL {what}: after {n} answer(s) the process is `{}` with no open interrupt act: nothing can wake it any more (tasks: {:?})", proc.state(),
                        proc.tasks().iter().map(|t| format!("{}:{}", t.node().id(), t.state())).collect::<Vec<_>>()));
                    break;
                }
                if n > 14 { bad.push(format!("REPLAY-FAIL {what}: still not finished after {n} answers")); break; }
                open.sort_by(|a, b| a.node().key().cmp(&b.node().key()));
                let t = open[0].clone();
                let act = script.get(n).copied().unwrap_or(A::Next);
                let r = match act {
                    A::Next => rt.do_action(&Action::new(&pid, &t.id, EventAction::Next, &Vars::new())),
                    A::Skip => rt.do_action(&Action::new(&pid, &t.id, EventAction::Skip, &Vars::new())),
                    A::BackToStep1 => rt.do_action(&Action::new(&pid, &t.id, EventAction::Back, &Vars::new().with("to", "step1"))),
                    A::CancelPrev => match answered.last() { Some(p) => rt.do_action(&Action::new(&pid, &p.id, EventAction::Cancel, &Vars::new())), None => rt.do_action(&Action::new(&pid, &t.id, EventAction::Next, &Vars::new())) },
                };
                // a refused scripted action is answered with next instead (C05 decides admission, not this driver)
                if r.is_err() && act != A::Next { let _ = rt.do_action(&Action::new(&pid, &t.id, EventAction::Next, &Vars::new())); }
                if act != A::CancelPrev { answered.push(t); }
                n += 1;
            }
            tokio::time::sleep(std::time::Duration::from_millis(100)).await;
            if proc.state().is_completed() && *ends.lock().unwrap() != 1 { bad.push(format!("REPLAY-FAIL {what}: {} terminal process events", *ends.lock().unwrap())); }
        }
    }
    for b in bad.iter().take(12) { println!("{b}"); }
    assert!(bad.is_empty(), "{} difference(s)", bad.len());
}
