// bounded stand-in / replay driver (appended to acts/src/export/tests.rs of a scratch copy): property C18, registration side.
// "Closing or unsubscribing a channel stops deliveries to it and to no other channel, and re-registering a channel id replaces the
// previous handler instead of duplicating deliveries" -- checked on the real emitter for the four keyed event kinds, including messages
// that were emitted but not yet dispatched when the close / unsub / re-registration happened (current-thread runtime: the dispatch
// of an emit runs at the next await).
#[tokio::test]
async fn verif_replay_chan_registry() {
    use std::sync::{Arc, Mutex};
    let mut bad: Vec<String> = Vec::new();
    let engine = Engine::new().start();
    let emitter = engine.runtime().emitter().clone();
    let log: Arc<Mutex<Vec<(String, String)>>> = Arc::new(Mutex::new(Vec::new()));     // (handler name, message id)
    let mk = |id: &str| engine.channel_with_options(&ChannelOptions { id: id.to_string(), ..Default::default() });
    let msg = |id: &str| Message { id: id.to_string(), key: "k".to_string(), ..Message::default() };
    let count = |log: &Arc<Mutex<Vec<(String, String)>>>, h: &str, m: &str| log.lock().unwrap().iter().filter(|(a, b)| a == h && b == m).count();
    for kind in ["message", "start", "complete", "error"] {
        let reg = |ch: &Arc<crate::Channel>, name: &str| {
            let l = log.clone();
            let n = format!("{kind}:{name}");
            let f = move |e: &crate::Event<Message>| { l.lock().unwrap().push((n.clone(), e.id.clone())); };
            match kind { "message" => ch.on_message(f), "start" => ch.on_start(f), "complete" => ch.on_complete(f), _ => ch.on_error(f) }
        };
        let emit = |m: &Message| match kind { "message" => emitter.emit_message(m), "start" => emitter.emit_start_event(m), "complete" => emitter.emit_complete_event(m), _ => emitter.emit_error(m) };
        let a = mk(&format!("vr_{kind}_a"));
        let b = mk(&format!("vr_{kind}_b"));
        let c = mk(&format!("vr_{kind}_c"));
        reg(&a, "a"); reg(&b, "b"); reg(&c, "c");
        // 1. every registered channel receives an event exactly once
        emit(&msg("m1"));
        tokio::time::sleep(std::time::Duration::from_millis(150)).await;
        for h in ["a", "b", "c"] { let n = count(&log, &format!("{kind}:{h}"), "m1"); if n != 1 { bad.push(format!("REPLAY-FAIL {kind}: channel {h} received m1 {n} time(s), expected once")); } }
        // 2. re-registering an id replaces the handler: the old one gets nothing more, the new one gets the event once
        reg(&a, "a2");
        emit(&msg("m2"));
        tokio::time::sleep(std::time::Duration::from_millis(150)).await;
        if count(&log, &format!("{kind}:a"), "m2") != 0 { bad.push(format!("REPLAY-FAIL {kind}: the replaced handler of channel a still received m2")); }
        let n = count(&log, &format!("{kind}:a2"), "m2"); if n != 1 { bad.push(format!("REPLAY-FAIL {kind}: the new handler of channel a received m2 {n} time(s)")); }
        for h in ["b", "c"] { let n = count(&log, &format!("{kind}:{h}"), "m2"); if n != 1 { bad.push(format!("REPLAY-FAIL {kind}: channel {h} received m2 {n} time(s) after channel a was re-registered")); } }
        // 3. an event emitted and not yet dispatched when channel b closes is not delivered to b; a and c still get it
        emit(&msg("m3"));
        b.close();
        tokio::time::sleep(std::time::Duration::from_millis(150)).await;
        if count(&log, &format!("{kind}:b"), "m3") != 0 { bad.push(format!("REPLAY-FAIL {kind}: channel b received m3 after close() had returned")); }
        for h in ["a2", "c"] { let n = count(&log, &format!("{kind}:{h}"), "m3"); if n != 1 { bad.push(format!("REPLAY-FAIL {kind}: handler {h} received m3 {n} time(s) after channel b was closed")); } }
        // 4. the same for unsub of c; and a re-registration between emit and dispatch: the new handler gets it, the old one does not
        emit(&msg("m4"));
        engine.executor().msg().unsub(&format!("vr_{kind}_c")).unwrap();
        reg(&a, "a3");
        tokio::time::sleep(std::time::Duration::from_millis(150)).await;
        if count(&log, &format!("{kind}:c"), "m4") != 0 { bad.push(format!("REPLAY-FAIL {kind}: channel c received m4 after unsub had returned")); }
        if count(&log, &format!("{kind}:a2"), "m4") != 0 { bad.push(format!("REPLAY-FAIL {kind}: the replaced handler a2 received m4")); }
        let n = count(&log, &format!("{kind}:a3"), "m4"); if n != 1 { bad.push(format!("REPLAY-FAIL {kind}: the handler registered before the dispatch (a3) received m4 {n} time(s)")); }
        // 5. afterwards only a3 is left
        emit(&msg("m5"));
        tokio::time::sleep(std::time::Duration::from_millis(150)).await;
        for h in ["a", "a2", "b", "c"] { if count(&log, &format!("{kind}:{h}"), "m5") != 0 { bad.push(format!("REPLAY-FAIL {kind}: handler {h} received m5 although it was replaced / closed / unsubscribed")); } }
        let n = count(&log, &format!("{kind}:a3"), "m5"); if n != 1 { bad.push(format!("REPLAY-FAIL {kind}: handler a3 received m5 {n} time(s)")); }
        a.close();
    }
    // one channel id that registered ALL FOUR handler kinds: close (and unsub) must stop every kind
    for how in ["close", "unsub"] {
        let id = format!("vr_all_{how}");
        let ch = mk(&id);
        for kind in ["message", "start", "complete", "error"] {
            let l = log.clone();
            let n = format!("all:{how}:{kind}");
            let f = move |e: &crate::Event<Message>| { l.lock().unwrap().push((n.clone(), e.id.clone())); };
            match kind { "message" => ch.on_message(f), "start" => ch.on_start(f), "complete" => ch.on_complete(f), _ => ch.on_error(f) }
        }
        let emit_all = |mid: &str| { let m = msg(mid); emitter.emit_message(&m); emitter.emit_start_event(&m); emitter.emit_complete_event(&m); emitter.emit_error(&m); };
        emit_all("x1");
        tokio::time::sleep(std::time::Duration::from_millis(150)).await;
        for kind in ["message", "start", "complete", "error"] { let n = count(&log, &format!("all:{how}:{kind}"), "x1"); if n != 1 { bad.push(format!("REPLAY-FAIL all kinds ({how}): the {kind} handler received x1 {n} time(s)")); } }
        if how == "close" { ch.close(); } else { engine.executor().msg().unsub(&id).unwrap(); }
        emit_all("x2");
        tokio::time::sleep(std::time::Duration::from_millis(150)).await;
        for kind in ["message", "start", "complete", "error"] { if count(&log, &format!("all:{how}:{kind}"), "x2") != 0 { bad.push(format!("REPLAY-FAIL all kinds ({how}): the {kind} handler of the channel still received x2 after {how}")); } }
    }
    // the channel id is free text: an EMPTY id is an id like any other -- registering under it again replaces the handler, close / unsub stop deliveries to it
    for how in ["close", "unsub"] {
        let ch = mk("");
        let reg_e = |name: &str| { let l = log.clone(); let n = format!("empty:{how}:{name}"); ch.on_message(move |e: &crate::Event<Message>| { l.lock().unwrap().push((n.clone(), e.id.clone())); }); };
        reg_e("first");
        emitter.emit_message(&msg("e1"));
        tokio::time::sleep(std::time::Duration::from_millis(150)).await;
        let n = count(&log, &format!("empty:{how}:first"), "e1"); if n != 1 { bad.push(format!("REPLAY-FAIL empty channel id ({how}): the handler received e1 {n} time(s), expected once")); }
        reg_e("second");
        emitter.emit_message(&msg("e2"));
        tokio::time::sleep(std::time::Duration::from_millis(150)).await;
        if count(&log, &format!("empty:{how}:first"), "e2") != 0 { bad.push(format!("REPLAY-FAIL empty channel id ({how}): the replaced handler still received e2 (re-registering duplicated the deliveries)")); }
        let n = count(&log, &format!("empty:{how}:second"), "e2"); if n != 1 { bad.push(format!("REPLAY-FAIL empty channel id ({how}): the new handler received e2 {n} time(s)")); }
        if how == "close" { ch.close(); } else { engine.executor().msg().unsub("").unwrap(); }
        emitter.emit_message(&msg("e3"));
        tokio::time::sleep(std::time::Duration::from_millis(150)).await;
        for h in ["first", "second"] { if count(&log, &format!("empty:{how}:{h}"), "e3") != 0 { bad.push(format!("REPLAY-FAIL empty channel id ({how}): handler {h} still received e3 after the channel was closed / unsubscribed")); } }
    }
    for b in bad.iter().take(12) { println!("{b}"); }
    assert!(bad.is_empty(), "{} difference(s)", bad.len());
}
