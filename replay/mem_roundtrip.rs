// replay / bounded stand-in driver (appended to acts/src/store/tests/mem.rs of a scratch copy): property C10 on the in-memory store
// (the default one): create -> find must return every field; update -> find every changed field (one record per collection, a distinct
// value in every field).
#[tokio::test]
async fn verif_replay_mem_roundtrip() {
    use crate::data::MessageStatus;
    let store = MemStore::new();
    let mut bad: Vec<String> = Vec::new();
    macro_rules! cmp { ($coll:expr, $a:expr, $b:expr, $($f:ident),*) => { $( if format!("{:?}", $a.$f) != format!("{:?}", $b.$f) {
        bad.push(format!("REPLAY-FAIL {}.{}: stored {:?} read back {:?}", $coll, stringify!($f), $a.$f, $b.$f)); } )* } }
    let p = Proc { id: "p1".into(), name: "f_name".into(), mid: "f_mid".into(), state: "f_state".into(), start_time: 11, end_time: 12,
        timestamp: 13, model: "f_model".into(), env: "f_env".into(), err: Some("f_err".into()) };
    store.procs().create(&p).unwrap();
    let q = store.procs().find(&p.id).unwrap();
    cmp!("procs", p, q, id, name, mid, state, start_time, end_time, timestamp, model, env, err);
    let p2 = Proc { id: "p1".into(), name: "g_name".into(), mid: "g_mid".into(), state: "g_state".into(), start_time: 111, end_time: 112,
        timestamp: 113, model: "g_model".into(), env: "g_env".into(), err: Some("g_err".into()) };
    store.procs().update(&p2).unwrap();
    let q2 = store.procs().find(&p.id).unwrap();
    cmp!("procs(update)", p2, q2, id, name, mid, state, start_time, end_time, timestamp, model, env, err);
    let t = Task { id: "t1".into(), pid: "f_pid".into(), tid: "f_tid".into(), node_data: "f_node".into(), kind: "f_kind".into(),
        prev: Some("f_prev".into()), name: "f_name".into(), state: "f_state".into(), data: "f_data".into(), err: Some("f_err".into()),
        start_time: 21, end_time: 22, hooks: "f_hooks".into(), timestamp: 23 };
    store.tasks().create(&t).unwrap();
    let u = store.tasks().find(&t.id).unwrap();
    cmp!("tasks", t, u, id, pid, tid, node_data, kind, prev, name, state, data, err, start_time, end_time, hooks, timestamp);
    let t2 = Task { id: "t1".into(), pid: "g_pid".into(), tid: "g_tid".into(), node_data: "g_node".into(), kind: "g_kind".into(), prev: None,
        name: "g_name".into(), state: "g_state".into(), data: "g_data".into(), err: None, start_time: 121, end_time: 122, hooks: "g_hooks".into(), timestamp: 123 };
    store.tasks().update(&t2).unwrap();
    let u2 = store.tasks().find(&t.id).unwrap();
    cmp!("tasks(update)", t2, u2, id, pid, tid, node_data, kind, prev, name, state, data, err, start_time, end_time, hooks, timestamp);
    let m = Model { id: "m1".into(), name: "f_name".into(), ver: 31, size: 32, create_time: 33, update_time: 34, data: "f_data".into(), timestamp: 35 };
    store.models().create(&m).unwrap();
    let n = store.models().find(&m.id).unwrap();
    cmp!("models", m, n, id, name, ver, size, create_time, update_time, data, timestamp);
    let e = Event { id: "e1".into(), name: "f_name".into(), mid: "f_mid".into(), ver: 41, uses: "f_uses".into(), params: "f_params".into(), create_time: 42, timestamp: 43 };
    store.events().create(&e).unwrap();
    let f = store.events().find(&e.id).unwrap();
    cmp!("events", e, f, id, name, mid, ver, uses, params, create_time, timestamp);
    let g = Message { id: "g1".into(), tid: "f_tid".into(), name: "f_name".into(), state: crate::MessageState::Completed, r#type: "f_type".into(),
        model: "f_model".into(), pid: "f_pid".into(), nid: "f_nid".into(), mid: "f_mid".into(), key: "f_key".into(), uses: "f_uses".into(),
        inputs: "f_inputs".into(), outputs: "f_outputs".into(), tag: "f_tag".into(), start_time: 51, end_time: 52, chan_id: "f_chan".into(),
        chan_pattern: "f_pat".into(), create_time: 53, update_time: 54, retry_times: 5, status: MessageStatus::Acked, timestamp: 56 };
    store.messages().create(&g).unwrap();
    let h = store.messages().find(&g.id).unwrap();
    cmp!("messages", g, h, id, tid, name, state, r#type, model, pid, nid, mid, key, uses, inputs, outputs, tag, start_time, end_time,
        chan_id, chan_pattern, create_time, update_time, retry_times, status, timestamp);
    let k = Package { id: "k1".into(), desc: "f_desc".into(), icon: "f_icon".into(), doc: "f_doc".into(), version: "f_version".into(),
        schema: "f_schema".into(), run_as: crate::ActRunAs::Msg, resources: "f_res".into(), catalog: crate::ActPackageCatalog::App, built_in: true,
        create_time: 61, update_time: 62, timestamp: 63 };
    store.packages().create(&k).unwrap();
    let l = store.packages().find(&k.id).unwrap();
    cmp!("packages", k, l, id, desc, icon, doc, version, schema, run_as, resources, catalog, built_in, create_time, update_time, timestamp);
    for b in bad.iter() { println!("{b}"); }
    assert!(bad.is_empty(), "{} field(s) differ", bad.len());
}
