// bounded stand-in driver (appended to acts/src/scheduler/tests/scher.rs of a scratch copy): property C13, the part no contract reaches.
// "Running many processes at once, of the same or different models, gives each process the same task outcomes, message multiset and outputs as
// running it alone; no message, variable or action leaks between processes ... and the results do not change with the configured cache capacity
// or the number of runtime threads."  Reference: one process of each of two models, alone, on a single-threaded runtime.  Runs: 6 processes
// (3 of each model, different start values) at once on 1 and on 4 worker threads, with cache capacity 100 and 2 (smaller than the number of live
// processes: they are evicted and reloaded).  Model A has two branches that each read and rewrite a process variable after 120 ms of script work
// and an interrupt act the driver answers with the process's own token; model B is a chain of three steps with a transform.  Per process: the
// terminal outputs, the multiset of (type, node, state) messages and the final task states must equal the reference (up to the start value).
fn verif_iso_models() -> (Workflow, Workflow) {
    let a = Workflow::new().with_id("viso_a").with_input("n", json!(0)).with_input("tok", json!("")).with_input("got", json!("")).with_output("n", json!(null)).with_output("tok", json!(null)).with_output("got", json!(null)).with_output("cnt", json!("{{ $env.cnt }}"))
        .with_step(|s| s.with_id("s1")
            .with_branch(|b| b.with_id("b1").with_if("true").with_step(|s| s.with_id("b1s").with_act(Act::code(r#"let c = $env.cnt || 0; let t = Date.now(); while (Date.now() - t < 120) {} $env.cnt = c + 1; $set("n", $get("n") + 1);"#).with_id("c1"))))
            .with_branch(|b| b.with_id("b2").with_if("true").with_step(|s| s.with_id("b2s").with_act(Act::code(r#"let c = $env.cnt || 0; let t = Date.now(); while (Date.now() - t < 120) {} $env.cnt = c + 1; $set("n", $get("n") + 10);"#).with_id("c2")))))
        .with_step(|s| s.with_id("s2").with_act(Act::irq(|x| x.with_key("ask")).with_id("ask").with_output("got", json!(null))));
    let b = Workflow::new().with_id("viso_b").with_input("n", json!(0)).with_output("n", json!(null)).with_output("m", json!(null))
        .with_step(|s| s.with_id("t1").with_act(Act::set(Vars::new().with("m", "{{ n * 2 }}")).with_id("set1")))
        .with_step(|s| s.with_id("t2").with_act(Act::code(r#"$set("n", $get("n") + 100);"#).with_id("c3")))
        .with_step(|s| s.with_id("t3"));
    (a, b)
}
// runs the given (model id, start n) processes at once; returns per pid: (sorted messages, outputs text, sorted task states)
async fn verif_iso_run(cache_cap: i64, starts: Vec<(&'static str, i64)>) -> std::collections::BTreeMap<String, (Vec<String>, String, Vec<String>)> { verif_iso_run_w(cache_cap, starts, false).await }
// `window`: the FIRST process is started alone and waits at its interrupt; the others are started and -- before the runtime gets to launch them --
// the client answers the first process, which then ends: a process ends in the window between the start call of another and its launch
async fn verif_iso_run_w(cache_cap: i64, starts: Vec<(&'static str, i64)>, window: bool) -> std::collections::BTreeMap<String, (Vec<String>, String, Vec<String>)> {
    use std::collections::BTreeMap;
    use std::sync::{Arc, Mutex};
    // (window histories run with the default `keep_processes = false`: a finished process leaves the cache, which is what makes room for a restore)
    let config = crate::config::ConfigData { cache_cap: Some(cache_cap), keep_processes: Some(!window), ..crate::config::ConfigData::default() };
    let engine = crate::EngineBuilder::new().set_config(&config).build().await.unwrap().start();
    let (a, b) = verif_iso_models();
    engine.executor().model().deploy(&a).unwrap();
    engine.executor().model().deploy(&b).unwrap();
    let seen: Arc<Mutex<BTreeMap<String, (Vec<String>, String, Vec<String>)>>> = Arc::new(Mutex::new(BTreeMap::new()));
    let s1 = seen.clone();
    let ex = engine.executor().clone();
    let held: Arc<Mutex<Option<(String, String)>>> = Arc::new(Mutex::new(None));
    let (h1, first_pid) = (held.clone(), Arc::new(Mutex::new(String::new())));
    let fp = first_pid.clone();
    engine.channel().on_message(move |e| {
        s1.lock().unwrap().entry(e.pid.clone()).or_default().0.push(format!("{}:{}:{}", e.r#type, e.nid, e.state));
        // the client answers an interrupt with the token of THAT process (read from the message it was sent)
        if e.is_key("ask") && e.is_state(MessageState::Created) {
            if window && e.pid == *fp.lock().unwrap() { *h1.lock().unwrap() = Some((e.pid.clone(), e.tid.clone())); return; }
            let tok = format!("answer-for-{}", e.pid);
            let _ = ex.act().complete(&e.pid, &e.tid, &Vars::new().with("got", tok));
        }
    });
    let s2 = seen.clone();
    engine.channel().on_complete(move |e| { s2.lock().unwrap().entry(e.pid.clone()).or_default().1 = e.outputs.to_string(); });
    let s3 = seen.clone();
    engine.channel().on_error(move |e| { s3.lock().unwrap().entry(e.pid.clone()).or_default().1 = format!("ERROR {}", e.outputs); });
    let mut pids = Vec::new();
    for (i, (mid, n)) in starts.iter().enumerate() {
        let pid = format!("viso{i}_{}", utils::shortid());
        if i == 0 { *first_pid.lock().unwrap() = pid.clone(); }
        engine.executor().proc().start(mid, &Vars::new().with("pid", pid.clone()).with("n", *n).with("tok", format!("tok-{pid}"))).unwrap();
        pids.push(pid);
        if window && i == 0 {
            // wait until the first process waits at its interrupt
            for _ in 0..200 { if held.lock().unwrap().is_some() { break; } tokio::time::sleep(std::time::Duration::from_millis(25)).await; }
        }
    }
    if window {
        // no await since the last start call: the runtime has not launched the processes started after the first one yet
        let _ = engine.runtime().cache().count();
        if let Some((pid, tid)) = held.lock().unwrap().clone() {
            let _ = engine.executor().act().complete(&pid, &tid, &Vars::new().with("got", format!("answer-for-{pid}")));
        }
    }
    for _ in 0..300 {
        tokio::time::sleep(std::time::Duration::from_millis(50)).await;
        if seen.lock().unwrap().values().filter(|v| !v.1.is_empty()).count() == starts.len() { break; }
    }
    tokio::time::sleep(std::time::Duration::from_millis(300)).await;
    let mut out = seen.lock().unwrap().clone();
    for pid in pids.iter() {
        let e = out.entry(pid.clone()).or_default();
        e.0.sort();
        if let Some(p) = engine.runtime().cache().proc(pid, &engine.runtime()) {
            let mut ts: Vec<String> = p.tasks().iter().map(|t| format!("{}:{}", t.node().id(), t.state())).collect();
            ts.sort();
            e.2 = ts;
        }
    }
    // key by start index so that runs can be compared
    pids.iter().enumerate().map(|(i, pid)| (format!("{i}"), out.get(pid).cloned().unwrap_or_default())).map(|(k, mut v)| { v.1 = v.1.replace(&pids[k.parse::<usize>().unwrap()], "<pid>"); (k, v) }).collect()
}
fn verif_iso_block_on<F: std::future::Future + Send + 'static>(threads: usize, f: F) -> F::Output where F::Output: Send + 'static {
    std::thread::spawn(move || {
        let mut b = if threads <= 1 { tokio::runtime::Builder::new_current_thread() } else { let mut b = tokio::runtime::Builder::new_multi_thread(); b.worker_threads(threads); b };
        b.enable_all().build().unwrap().block_on(f)
    }).join().unwrap()
}
#[test]
fn verif_replay_hist_isolation() {
    let mut bad: Vec<String> = Vec::new();
    let starts: Vec<(&'static str, i64)> = vec![("viso_a", 1), ("viso_b", 2), ("viso_a", 3), ("viso_b", 4), ("viso_a", 5), ("viso_b", 6)];
    // reference: every process alone, single thread, large cache
    let mut reference: Vec<(Vec<String>, String, Vec<String>)> = Vec::new();
    for (mid, n) in starts.iter() {
        let one = vec![(*mid, *n)];
        let r = verif_iso_block_on(1, async move { verif_iso_run(100, one).await });
        reference.push(r.get("0").cloned().unwrap_or_default());
    }
    // (the reference itself is only sanity-checked: every process ended, and a process of model A got the answer meant for it)
    for (i, (mid, n)) in starts.iter().enumerate() {
        if reference[i].1.is_empty() || reference[i].1.starts_with("ERROR") { bad.push(format!("REPLAY-FAIL reference: process {i} ({mid}, n={n}) alone did not complete: {}", reference[i].1)); }
        if *mid == "viso_a" && !reference[i].1.contains("answer-for-<pid>") { bad.push(format!("REPLAY-FAIL reference: process {i} alone did not get its own answer: {}", reference[i].1)); }
    }
    for (threads, cap) in [(1usize, 100i64), (4, 100), (4, 2), (1, 2)] {
        let st = starts.clone();
        let run = verif_iso_block_on(threads, async move { verif_iso_run(cap, st).await });
        for i in 0..starts.len() {
            let got = run.get(&format!("{i}")).cloned().unwrap_or_default();
            let what = format!("{} processes at once on {threads} thread(s), cache capacity {cap}: process {i} ({}, n={})", starts.len(), starts[i].0, starts[i].1);
            if got.1 != reference[i].1 { bad.push(format!("REPLAY-FAIL {what}: outputs {} -- alone: {}", got.1, reference[i].1)); }
            if got.0 != reference[i].0 { bad.push(format!("REPLAY-FAIL {what}: messages {:?} -- alone: {:?}", got.0, reference[i].0)); }
            if got.2 != reference[i].2 { bad.push(format!("REPLAY-FAIL {what}: task states {:?} -- alone: {:?}", got.2, reference[i].2)); }
        }
    }
    // a process that ends in the window between the start call of another process and its launch (single thread; capacity 1, 2 and 100)
    for cap in [1i64, 2, 100] {
        let st: Vec<(&'static str, i64)> = vec![starts[0], starts[1], starts[3]];
        let idx = [0usize, 1, 3];
        let st2 = st.clone();
        let run = verif_iso_block_on(1, async move { verif_iso_run_w(cap, st2, true).await });
        for (k, i) in idx.iter().enumerate() {
            let got = run.get(&format!("{k}")).cloned().unwrap_or_default();
            let what = format!("process 0 ends between the start call and the launch of the others, cache capacity {cap}: process {k} ({}, n={})", st[k].0, st[k].1);
            if got.1 != reference[*i].1 { bad.push(format!("REPLAY-FAIL {what}: outputs {} -- alone: {}", got.1, reference[*i].1)); }
            if got.0 != reference[*i].0 { bad.push(format!("REPLAY-FAIL {what}: messages {:?} -- alone: {:?}", got.0, reference[*i].0)); }
        }
    }
    for b in bad.iter().take(10) { println!("{b}"); }
    assert!(bad.is_empty(), "{} difference(s)", bad.len());
}
