// bounded stand-in / replay driver (appended to acts/src/scheduler/tests/tree.rs of a scratch copy): properties C20 / C19, model side.
// "A workflow written to YAML or JSON and parsed back is identical" -- a family of models that uses every kind of node and field (inputs,
// outputs, setup hooks with `on`, `on` start events, branches with if / else / needs, acts with uses / params / options / catches / timeouts / tag /
// key / rets, nested steps) is written to YAML and to JSON, parsed back and compared (as JSON values, and the second generation text must
// equal the first); the tree built from the re-parsed model has the same nodes and links.  TimeoutLimit: every limit `<n><unit>` over a
// family of values and the four units parses to that value and unit, prints back to the same text and converts to the seconds of the statement;
// malformed limits are refused.
#[tokio::test]
async fn verif_replay_model_roundtrip() {
    use crate::{ActEvent, StmtBuild, Vars, model::TimeoutLimit};
    use serde_json::json;
    let mut bad: Vec<String> = Vec::new();
    let mut models: Vec<Workflow> = Vec::new();
    models.push(Workflow::new().with_id("m0").with_name("plain").with_step(|s| s.with_id("s1").with_name("first")).with_step(|s| s.with_id("s2")));
    models.push(Workflow::new().with_id("m1").with_tag("t1").with_input("a", json!(1)).with_input("o", json!({"k": [1, null, "x"]})).with_output("r", json!(null)).with_output("c", json!("{{ a }}"))
        .with_env("e", json!("v"))
        .with_step(|s| s.with_id("s1").with_if("a > 0").with_input("x", json!(true)).with_output("y", json!(null))
            .with_act(Act::irq(|a| a.with_key("k1")).with_id("a1").with_name("n1").with_tag("tg").with_input("i", json!(5)).with_output("o", json!(null)))
            .with_act(Act::msg(|m| m.with_key("k2")).with_id("a2"))
            .with_next("s2"))
        .with_step(|s| s.with_id("s2")));
    models.push(Workflow::new().with_id("m2")
        .with_on(|a| a.with_id("ev1").with_uses("acts.event.manual"))
        .with_setup(|st| st.add(Act::msg(|m| m.with_on(ActEvent::Created).with_key("w_created"))).add(Act::msg(|m| m.with_on(ActEvent::Step).with_key("w_step"))))
        .with_step(|s| s.with_id("s1")
            .with_setup(|st| st.add(Act::msg(|m| m.with_on(ActEvent::BeforeUpdate).with_key("s_bu"))).add(Act::set(Vars::new().with("z", 1))))
            .with_branch(|b| b.with_id("b1").with_if("true").with_step(|s| s.with_id("s11").with_act(Act::irq(|a| a.with_key("x")).with_id("ax"))))
            .with_branch(|b| b.with_id("b2").with_else(true).with_step(|s| s.with_id("s12")))
            .with_branch(|b| b.with_id("b3").with_need("b1").with_step(|s| s.with_id("s13")).with_step(|s| s.with_id("s14")))));
    models.push(Workflow::new().with_id("m3").with_step(|s| s.with_id("s1")
        .with_catch(|c| c.with_on("e1").with_step(|s| s.with_id("c1")))
        .with_catch(|c| c.with_step(|s| s.with_id("c2").with_act(Act::irq(|a| a.with_key("fix")))))
        .with_timeout(|t| t.with_on("2h").with_step(|s| s.with_id("t1")))
        .with_timeout(|t| t.with_on("30s").with_step(|s| s.with_id("t2")))
        .with_act(Act::irq(|a| a.with_key("k")).with_id("a1")
            .with_catch(|c| c.with_on("e2").with_step(|s| s.with_id("ac1")))
            .with_timeout(|t| t.with_on("1d").with_step(|s| s.with_id("at1")))
            .with_setup(|st| st.add(Act::msg(|m| m.with_on(ActEvent::Completed).with_key("a_done")))))
        .with_act(Act::new().with_id("gen").with_uses("acts.core.parallel").with_params_vars(|v| v.with("in", json!(["x", "y"])).with("acts", json!([{ "uses": "acts.core.irq", "key": "g" }]))))
        .with_act(Act::new().with_id("sub").with_uses("acts.core.subflow").with_params_vars(|v| v.with("to", "m0").with("options", json!({"p": "{{ a }}"}))))));
    for m in models.iter() {
        for fmt in ["yaml", "json"] {
            let text = if fmt == "yaml" { m.to_yml() } else { m.to_json() };
            let text = match text { Ok(t) => t, Err(e) => { bad.push(format!("REPLAY-FAIL model {} cannot be written as {fmt}: {e}", m.id)); continue; } };
            let back = if fmt == "yaml" { Workflow::from_yml(&text) } else { Workflow::from_json(&text) };
            let back = match back { Ok(b) => b, Err(e) => { bad.push(format!("REPLAY-FAIL model {} written as {fmt} cannot be parsed back: {e}\n{text}", m.id)); continue; } };
            let (v1, v2) = (serde_json::to_value(m).unwrap(), serde_json::to_value(&back).unwrap());
            if v1 != v2 { bad.push(format!("REPLAY-FAIL model {} is not identical after a {fmt} round trip:\n  written {v1}\n  parsed  {v2}", m.id)); }
            let text2 = if fmt == "yaml" { back.to_yml().unwrap_or_default() } else { back.to_json().unwrap_or_default() };
            if text2 != text { bad.push(format!("REPLAY-FAIL model {} written a second time as {fmt} differs from the first text", m.id)); }
            // the tree of the re-parsed model: same node ids at the same levels with the same links
            let describe = |w: &Workflow| -> Vec<String> {
                let mut tree = crate::scheduler::NodeTree::new();
                let mut w = w.clone();
                if let Err(e) = tree.load(&mut w) { return vec![format!("load failed: {e}")]; }
                let mut v: Vec<String> = tree.node_map.read().unwrap().iter().map(|(id, n)| format!("{id} level={} kind={} next={:?} children={:?}", n.level, n.kind(), n.next().upgrade().map(|x| x.id().to_string()), n.children().iter().map(|c| c.id().to_string()).collect::<Vec<_>>())).collect();
                v.sort(); v
            };
            if m.id != "m3" && describe(m) != describe(&back) { bad.push(format!("REPLAY-FAIL model {}: the tree of the {fmt} round-tripped model differs: {:?} / {:?}", m.id, describe(m), describe(&back))); }
        }
    }
    // "a deployed model is stored and handed back unchanged": deploy histories on the real engine (first deploy; a re-deploy with a changed name and a
    // changed step list): the row handed back carries the id, the name, the text and a version one higher of exactly the model deployed last
    {
        let engine = crate::Engine::new().start();
        let executor = engine.executor();
        let ex = executor.model();
        let v1 = Workflow::new().with_id("vdep").with_name("purchase order").with_step(|s| s.with_id("s1"));
        let v2 = Workflow::new().with_id("vdep").with_name("purchase order (two approvals)").with_step(|s| s.with_id("s1")).with_step(|s| s.with_id("s2"));
        for (k, w) in [&v1, &v2, &v2].iter().enumerate() {
            if let Err(e) = ex.deploy(w) { bad.push(format!("REPLAY-FAIL deploy #{} of model vdep is refused: {e}", k + 1)); continue; }
            match ex.get("vdep", "text") {
                Err(e) => bad.push(format!("REPLAY-FAIL model vdep is not handed back after deploy #{}: {e}", k + 1)),
                Ok(m) => {
                    if m.name != w.name { bad.push(format!("REPLAY-FAIL after deploy #{} the stored model is named `{}`, the model deployed is named `{}`", k + 1, m.name, w.name)); }
                    if m.ver != (k as i32 + 1) { bad.push(format!("REPLAY-FAIL after deploy #{} the stored version is {}", k + 1, m.ver)); }
                    match Workflow::from_yml(&m.data) { Ok(back) if serde_json::to_value(&back).ok() == serde_json::to_value(w).ok() => {}, other => bad.push(format!("REPLAY-FAIL after deploy #{} the stored text is not the model deployed: {:?}", k + 1, other.map(|b| b.name))) }
                }
            }
        }
    }
    // TimeoutLimit
    for (u, letter, secs) in [("Second", "s", 1i64), ("Minute", "m", 60), ("Hour", "h", 3600), ("Day", "d", 86400)] {
        for n in [0i64, 1, 2, 15, 59, 60, 90, 1000, 86400, 123456] {
            let text = format!("{n}{letter}");
            match TimeoutLimit::parse(&text) {
                Err(e) => bad.push(format!("REPLAY-FAIL timeout limit `{text}` is refused: {e}")),
                Ok(l) => {
                    if l.value != n || format!("{:?}", l.unit) != u { bad.push(format!("REPLAY-FAIL timeout limit `{text}` parses to {l:?}")); }
                    if l.to_string() != text { bad.push(format!("REPLAY-FAIL timeout limit `{text}` prints as `{}`", l.to_string())); }
                    if l.as_secs() != n * secs { bad.push(format!("REPLAY-FAIL timeout limit `{text}` is {} seconds, the statement says {}", l.as_secs(), n * secs)); }
                    let js = serde_json::to_string(&l).unwrap_or_default();
                    match serde_json::from_str::<TimeoutLimit>(&js) { Ok(b) if b == l => {}, other => bad.push(format!("REPLAY-FAIL timeout limit `{text}` does not survive serde: {js} -> {other:?}")) }
                }
            }
        }
    }
    // malformed limits (also text that is not ASCII: `on` is free text in a model) are refused with an error -- never a panic: the limit of every rule is
    // parsed on the tick, and a tick that dies on one rule never reaches the rules after it ("no later than one tick after that")
    for t in ["", "s", "10", "10x", "x10s", "1.5h", "10 s", "s10", "1\u{ff53}", "\u{e9}", "10\u{e9}", "\u{ff11}s", "\u{ff11}\u{ff10}\u{ff53}", "5\u{442}", "\u{1f552}"] {
        match std::panic::catch_unwind(|| TimeoutLimit::parse(t)) {
            Err(_) => bad.push(format!("REPLAY-FAIL malformed timeout limit `{t}` makes TimeoutLimit::parse PANIC instead of returning an error (the tick that evaluates the rule dies)")),
            Ok(Ok(l)) => bad.push(format!("REPLAY-FAIL malformed timeout limit `{t}` is accepted as {l:?}")),
            Ok(Err(_)) => {}
        }
    }
    for b in bad.iter().take(10) { println!("{b}"); }
    assert!(bad.is_empty(), "{} difference(s)", bad.len());
}
