// bounded stand-in / replay driver (appended to acts/src/scheduler/tests/task.rs of a scratch copy): property C03.
// "A workflow, step, branch or composite act is reported successfully completed only when every task started beneath it is terminal ...
// each process delivers exactly one terminal event ... when that event reports a non-error ending no task other than lifecycle-hook
// acts is still open".  8 + 2 (error) shapes with parallel children (branches, generated acts, hook acts, nesting); the open interrupt acts are
// answered ONE AT A TIME and after every answer the invariant is checked on the live process: no successfully completed task has an
// open task beneath it, and no terminal process event was delivered while a non-hook task is open.
#[tokio::test]
async fn verif_replay_hist_completion() {
    use crate::{ActEvent, Action, StmtBuild, Vars, event::EventAction};
    use std::sync::{Arc, Mutex};
    let mut bad: Vec<String> = Vec::new();
    // (the model builders take fn pointers: no captures, so the steps are assembled by hand)
    let two_branches = |hook: bool, nested: bool| -> Workflow {
        let mut s = crate::Step::new().with_id("step0");
        if hook { s = s.with_setup(|stmts| stmts.add(Act::msg(|m| m.with_on(ActEvent::Created).with_id("hook1").with_key("hook1")))); }
        s = s.with_branch(|b| b.with_id("b1").with_if("true").with_step(|st| st.with_id("s1").with_act(Act::irq(|a| a.with_key("a1")).with_id("a1"))));
        s = if nested {
            s.with_branch(|b| b.with_id("b2").with_if("true").with_step(|st| st.with_id("s2")
                .with_branch(|b| b.with_id("b21").with_if("true").with_step(|st| st.with_id("s21").with_act(Act::irq(|a| a.with_key("a21")).with_id("a21"))))
                .with_branch(|b| b.with_id("b22").with_if("true").with_step(|st| st.with_id("s22").with_act(Act::irq(|a| a.with_key("a22")).with_id("a22"))))))
        } else {
            s.with_branch(|b| b.with_id("b2").with_if("true").with_step(|st| st.with_id("s2").with_act(Act::irq(|a| a.with_key("a2")).with_id("a2"))))
        };
        let mut w = Workflow::new();
        w.steps.push(s);
        w.with_step(|s| s.with_id("last").with_act(Act::irq(|a| a.with_key("z")).with_id("z")))
    };
    let generated = |uses: &str, hook: bool| -> Workflow {
        let mut s = crate::Step::new().with_id("step0");
        if hook { s = s.with_setup(|stmts| stmts.add(Act::msg(|m| m.with_on(ActEvent::Created).with_id("hook1").with_key("hook1")))); }
        let act = Act::new().with_uses(uses).with_id("gen").with_params_vars(|v| v.with("in", serde_json::json!(["x", "y"])).with("acts", serde_json::json!([{ "uses": "acts.core.irq", "key": "g" }])));
        s = s.with_act(act);
        let mut w = Workflow::new();
        w.steps.push(s);
        w
    };
    let mut shapes: Vec<(&str, Workflow)> = vec![
        ("two branches", two_branches(false, false)),
        ("two branches + created-hook on the step", two_branches(true, false)),
        ("nested branches", two_branches(false, true)),
        ("nested branches + created-hook on the step", two_branches(true, true)),
        ("parallel generator", generated("acts.core.parallel", false)),
        ("parallel generator + created-hook on the step", generated("acts.core.parallel", true)),
        ("sequence generator", generated("acts.core.sequence", false)),
        ("sequence generator + created-hook on the step", generated("acts.core.sequence", true)),
    ];
    // error shapes: the FIRST open act is failed by the client (error action) while a sibling is still waiting; afterwards only the invariant is
    // watched (whether and how such a process ends is C06's business): nothing may be reported successfully completed above the act still open
    {
        use crate::package::RunningMode;
        let mut w = Workflow::new().with_step(|step| step.with_id("step1"));
        w.steps[0].acts.push(Act::block(Vars::new().with("mode", RunningMode::Parallel).with("acts", vec![
            Act::block(Vars::new().with("mode", RunningMode::Parallel).with("acts", vec![Act::irq(|a| a.with_key("x")).with_id("x"), Act::irq(|a| a.with_key("y")).with_id("y")])).with_id("inner")])).with_id("outer").with_catch(|c| c));
        shapes.push(("ERR act catch over a nested parallel block, one act failed", w));
        let mut w = Workflow::new().with_step(|step| step.with_id("step1").with_catch(|c| c));
        w.steps[0].acts.push(Act::block(Vars::new().with("mode", RunningMode::Parallel).with("acts", vec![Act::irq(|a| a.with_key("x")).with_id("x"), Act::irq(|a| a.with_key("y")).with_id("y")])).with_id("blk"));
        let w = w.with_step(|s| s.with_id("last").with_act(Act::irq(|a| a.with_key("z")).with_id("z")));
        shapes.push(("ERR step catch over a parallel block, one act failed", w));
        // two inner blocks: the failed act's block has a sibling block with an open act of its own
        let mut w = Workflow::new().with_step(|step| step.with_id("step1").with_catch(|c| c));
        w.steps[0].acts.push(Act::block(Vars::new().with("mode", RunningMode::Parallel).with("acts", vec![
            Act::block(Vars::new().with("mode", RunningMode::Parallel).with("acts", vec![Act::irq(|a| a.with_key("x")).with_id("x"), Act::irq(|a| a.with_key("y")).with_id("y")])).with_id("inner1"),
            Act::block(Vars::new().with("mode", RunningMode::Parallel).with("acts", vec![Act::irq(|a| a.with_key("z")).with_id("z")])).with_id("inner2")])).with_id("outer"));
        let w = w.with_step(|s| s.with_id("last").with_act(Act::irq(|a| a.with_key("q")).with_id("q")));
        shapes.push(("ERR step catch over two nested parallel blocks, one act failed", w));
        // the same with a failure that is not a client action: the script of one act of the block throws while the other act waits
        let mut w = Workflow::new().with_step(|step| step.with_id("step1").with_catch(|c| c));
        w.steps[0].acts.push(Act::block(Vars::new().with("mode", RunningMode::Parallel).with("acts", vec![Act::irq(|a| a.with_key("y")).with_id("y"), Act::code(r#"throw new Error("boom");"#).with_id("x")])).with_id("blk"));
        let w = w.with_step(|s| s.with_id("last").with_act(Act::irq(|a| a.with_key("z")).with_id("z")));
        shapes.push(("SCRIPT-ERR step catch over a parallel block, the script of one act throws", w));
    }
    // a cancel aimed two steps back (the step after the cancelled act has already completed): whether it is refused or carried out, the invariant holds
    // afterwards and the process ends once, with nothing open
    shapes.push(("CANCEL of an act two steps back, then everything is answered", Workflow::new()
        .with_step(|s| s.with_id("s1").with_act(Act::irq(|a| a.with_key("a1")).with_id("a1")))
        .with_step(|s| s.with_id("s2").with_act(Act::irq(|a| a.with_key("a2")).with_id("a2")))
        .with_step(|s| s.with_id("s3").with_act(Act::irq(|a| a.with_key("a3")).with_id("a3")))));
    for (name, wf) in shapes.into_iter() {
        let fail_first = name.starts_with("ERR");
        let script_err = name.starts_with("SCRIPT-ERR");
        let mut workflow = wf;
        let pid = utils::longid();
        let (proc, rt, emitter, _tx, _rx) = create_proc_signal::<()>(&mut workflow, &pid);
        let ends: Arc<Mutex<Vec<String>>> = Arc::new(Mutex::new(Vec::new()));
        let e1 = ends.clone(); emitter.on_complete(move |e| { e1.lock().unwrap().push(format!("complete:{}", e.state)); });
        let e2 = ends.clone(); emitter.on_error(move |e| { e2.lock().unwrap().push(format!("error:{}", e.state)); });
        rt.launch(&proc);
        let is_hook = |t: &Arc<crate::scheduler::Task>| t.is_event_processed() || t.node().id().starts_with("hook");
        let check = |when: &str, bad: &mut Vec<String>| {
            let tasks = proc.tasks();
            for t in tasks.iter() {
                if t.state().is_completed() || is_hook(t) { continue; }
                // t is open: nothing above it may be closed as a success, and no terminal event may have been delivered
                let mut up = t.parent();
                while let Some(p) = up {
                    if p.state().is_success() || p.state() == TaskState::Skipped || p.state() == TaskState::Aborted {
                        bad.push(format!("REPLAY-FAIL [{name}] {when}: {} ({}) is {} while {} ({}) beneath it is still {}", p.node().id(), p.node().kind(), p.state(), t.node().id(), t.node().kind(), t.state()));
                    }
                    up = p.parent();
                }
                let ev = ends.lock().unwrap().clone();
                if !ev.is_empty() { bad.push(format!("REPLAY-FAIL [{name}] {when}: terminal process event(s) {ev:?} delivered while {} is still {}", t.node().id(), t.state())); }
            }
            if let Some(root) = proc.root() { if root.state().is_completed() && proc.state() != root.state() { bad.push(format!("REPLAY-FAIL [{name}] {when}: process {} / root {}", proc.state(), root.state())); } }
        };
        let mut rounds = 0;
        let mut cancelled = false;
        loop {
            // quiescence: the set of open interrupt acts is stable
            let mut open: Vec<Arc<crate::scheduler::Task>> = Vec::new();
            for _ in 0..80 {
                tokio::time::sleep(std::time::Duration::from_millis(25)).await;
                let now: Vec<_> = proc.tasks().into_iter().filter(|t| t.state() == TaskState::Interrupt).collect();
                if !now.is_empty() && now.len() == open.len() && now.iter().zip(open.iter()).all(|(a, b)| a.id == b.id) { break; }
                if proc.state().is_completed() { open = now; break; }
                open = now;
            }
            check(&format!("after {rounds} answer(s)"), &mut bad);
            if proc.state().is_completed() || open.is_empty() || rounds > 12 || script_err { break; }
            if name.starts_with("CANCEL") && rounds == 2 && !cancelled {
                cancelled = true;
                if let Some(a1) = proc.task_by_nid("a1").first() {
                    let _ = rt.do_action(&Action::new(&pid, &a1.id, EventAction::Cancel, &Vars::new()));
                    tokio::time::sleep(std::time::Duration::from_millis(200)).await;
                    check("after the cancel two steps back", &mut bad);
                    continue;
                }
            }
            // answer ONE open act (the first by node id, so that runs are reproducible)
            open.sort_by(|a, b| a.node().id().cmp(b.node().id()));
            let t = open[0].clone();
            if fail_first {
                if rounds >= 1 { break; }
                let _ = rt.do_action(&Action::new(&pid, &t.id, EventAction::Error, &Vars::new().with(crate::utils::consts::ACT_ERR_CODE, "e1")));
            } else {
                let _ = rt.do_action(&Action::new(&pid, &t.id, EventAction::Next, &Vars::new()));
            }
            rounds += 1;
        }
        if fail_first || script_err {
            tokio::time::sleep(std::time::Duration::from_millis(400)).await;
            check("after the error and 400 ms", &mut bad);
            continue;
        }
        tokio::time::sleep(std::time::Duration::from_millis(150)).await;
        if !proc.state().is_completed() { bad.push(format!("REPLAY-FAIL [{name}] the process did not finish after {rounds} answers ({})", proc.state())); }
        let ev = ends.lock().unwrap().clone();
        if ev.len() != 1 { bad.push(format!("REPLAY-FAIL [{name}] {} terminal process events: {ev:?}", ev.len())); }
        check("at the end", &mut bad);
    }
    for b in bad.iter().take(12) { println!("{b}"); }
    assert!(bad.is_empty(), "{} difference(s)", bad.len());
}
