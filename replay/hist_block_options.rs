// replay driver (appended to acts/src/package/tests/parallel.rs of a scratch copy):
// every act of a generated group must see the group's own $index / $value (property C16).
#[tokio::test]
async fn verif_replay_hist_block_options() {
    let mut workflow = Workflow::new().with_step(|step| {
        step.with_id("step1").with_setup(|setup| {
            setup.add(Act::parallel(json!({
                "in": ["u1", "u2"],
                "acts": vec![
                    Act::irq(|act| act.with_key("k1").with_id("k1")),
                    Act::irq(|act| act.with_key("k2").with_id("k2")),
                ]
            })))
        })
    });
    let (proc, scher, emitter, tx, rx) = create_proc_signal_with_auto_clomplete::<()>(&mut workflow, &utils::longid(), false);
    let rx2 = rx.clone();
    emitter.on_message(move |e| {
        // answer the first act of each group so that the second one is created
        if e.is_key("k1") && e.is_state(MessageState::Created) {
            e.do_action(&e.pid, &e.tid, EventAction::Next, &Vars::new()).unwrap();
        }
    });
    scher.launch(&proc);
    tokio::spawn(async move { tokio::time::sleep(std::time::Duration::from_millis(1500)).await; rx2.close(); });
    tx.recv().await;
    let mut bad: Vec<String> = Vec::new();
    for nid in ["k1", "k2"] {
        let tasks = proc.task_by_nid(nid);
        if tasks.len() != 2 { bad.push(format!("REPLAY-FAIL expected 2 tasks for act {nid} (one per list element), found {}", tasks.len())); }
        for t in tasks.iter() {
            let o = t.options();
            if o.get::<i32>(consts::ACT_INDEX).is_none() || o.get::<String>(consts::ACT_VALUE).is_none() {
                bad.push(format!("REPLAY-FAIL act {nid} (tid {}) of a generated group does not see its group's $index/$value: options={}", t.id, o));
            }
        }
    }
    for b in bad.iter() { println!("{b}"); }
    assert!(bad.is_empty());
}
