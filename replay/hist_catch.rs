// bounded stand-in / replay driver (appended to acts/src/scheduler/tests/message.rs of a scratch copy): property C06.
// 9 workflows (the last one: a failing script act that declares the catch itself); in each the irq act `err1` is answered with error code e1 (acts named `err2` with e2, all other irq acts are completed):
// no catch / non-matching catch -> act, step and workflow end in error with the original code, exactly one error event;
// matching catch / catch-all on the step or on the act itself -> the catch steps run exactly once, the catching task completes, the
// successor step runs, the process completes without an error event; a second error raised inside the catch steps is not taken by the
// same catch again; a catch step with its OWN catch still takes its own error although an ancestor's catch was already used.
#[tokio::test]
async fn verif_replay_hist_catch() {
    let mut bad: Vec<String> = Vec::new();
    #[derive(Clone, Copy, PartialEq, Debug)]
    enum W { NoCatch, NonMatching, StepCatch, StepCatchAll, ActCatch, FirstOfTwo, ErrorInsideCatch, NestedCatch, ScriptActCatch }
    for w in [W::NoCatch, W::NonMatching, W::StepCatch, W::StepCatchAll, W::ActCatch, W::FirstOfTwo, W::ErrorInsideCatch, W::NestedCatch, W::ScriptActCatch] {
        let step2 = |s: crate::Step| s.with_id("step2").with_act(Act::irq(|a| a.with_key("ok_after")));
        let workflow = match w {
            W::NoCatch => Workflow::new().with_step(|s| s.with_id("step1").with_act(Act::irq(|a| a.with_key("err1")))).with_step(step2),
            W::NonMatching => Workflow::new().with_step(|s| s.with_id("step1").with_act(Act::irq(|a| a.with_key("err1")))
                .with_catch(|c| c.with_on("e9").with_step(|s| s.with_id("cs").with_act(Act::irq(|a| a.with_key("ok_catch")))))).with_step(step2),
            W::StepCatch => Workflow::new().with_step(|s| s.with_id("step1").with_act(Act::irq(|a| a.with_key("err1")))
                .with_catch(|c| c.with_on("e1").with_step(|s| s.with_id("cs").with_act(Act::irq(|a| a.with_key("ok_catch")))))).with_step(step2),
            W::StepCatchAll => Workflow::new().with_step(|s| s.with_id("step1").with_act(Act::irq(|a| a.with_key("err1")))
                .with_catch(|c| c.with_step(|s| s.with_id("cs").with_act(Act::irq(|a| a.with_key("ok_catch")))))).with_step(step2),
            W::ActCatch => Workflow::new().with_step(|s| s.with_id("step1").with_act(Act::irq(|a| a.with_key("err1"))
                .with_catch(|c| c.with_on("e1").with_step(|s| s.with_id("cs").with_act(Act::irq(|a| a.with_key("ok_catch"))))))).with_step(step2),
            // the failing act is a script (an act that delivers no message of its own) and declares the catch itself
            W::ScriptActCatch => Workflow::new().with_step(|s| s.with_id("step1").with_act(Act::code(r#"throw new Error("boom");"#).with_id("code1")
                .with_catch(|c| c.with_step(|s| s.with_id("cs").with_act(Act::irq(|a| a.with_key("ok_catch"))))))).with_step(step2),
            W::FirstOfTwo => Workflow::new().with_step(|s| s.with_id("step1").with_act(Act::irq(|a| a.with_key("err1")))
                .with_catch(|c| c.with_on("e1").with_step(|s| s.with_id("cs").with_act(Act::irq(|a| a.with_key("ok_catch")))))
                .with_catch(|c| c.with_step(|s| s.with_id("cs_all").with_act(Act::irq(|a| a.with_key("ok_catchall")))))).with_step(step2),
            W::ErrorInsideCatch => Workflow::new().with_step(|s| s.with_id("step1").with_act(Act::irq(|a| a.with_key("err1")))
                .with_catch(|c| c.with_step(|s| s.with_id("cs").with_act(Act::irq(|a| a.with_key("err2")))))).with_step(step2),
            W::NestedCatch => Workflow::new().with_step(|s| s.with_id("step1").with_act(Act::irq(|a| a.with_key("err1")))
                .with_catch(|c| c.with_step(|s| s.with_id("cs").with_act(Act::irq(|a| a.with_key("err2")))
                    .with_catch(|c| c.with_on("e2").with_step(|s| s.with_id("cs_inner").with_act(Act::irq(|a| a.with_key("ok_inner")))))))).with_step(step2),
        };
        let config = ConfigData { keep_processes: Some(true), ..ConfigData::default() };
        let id = utils::longid();
        let (engine, proc, _sig) = create_proc_signal_config::<Vec<String>>(&config, &workflow, &id).await;
        let created: Arc<Mutex<Vec<String>>> = Arc::new(Mutex::new(Vec::new()));
        let events: Arc<Mutex<Vec<String>>> = Arc::new(Mutex::new(Vec::new()));
        let (c2, ex) = (created.clone(), engine.executor().clone());
        engine.channel().on_message(move |e| {
            if e.is_irq() && e.is_state(MessageState::Created) {
                c2.lock().unwrap().push(e.key.clone());
                if e.key.starts_with("err") {
                    let mut v = Vars::new(); v.set("ecode", if e.key == "err1" { "e1" } else { "e2" }); v.set("error", "biz");
                    let _ = ex.act().error(&e.pid, &e.tid, &v);
                } else { let _ = ex.act().complete(&e.pid, &e.tid, &Vars::new()); }
            }
        });
        let (e1, e2) = (events.clone(), events.clone());
        engine.channel().on_complete(move |_| e1.lock().unwrap().push("complete".to_string()));
        engine.channel().on_error(move |e| e2.lock().unwrap().push(format!("error:{}", e.inner().state)));
        engine.runtime().launch(&proc);
        let mut left = 4000u64;
        while left > 0 && !proc.state().is_completed() { tokio::time::sleep(std::time::Duration::from_millis(25)).await; left = left.saturating_sub(25); }
        tokio::time::sleep(std::time::Duration::from_millis(300)).await;
        let created = created.lock().unwrap().clone();
        let events = events.lock().unwrap().clone();
        let count = |k: &str| created.iter().filter(|c| c.as_str() == k).count();
        let st = |nid: &str| proc.task_by_nid(nid).first().map(|t| t.state());
        let code = |nid: &str| proc.task_by_nid(nid).first().and_then(|t| t.err()).map(|e| e.ecode);
        let mut d: Vec<String> = Vec::new();
        let errors = events.iter().filter(|e| e.starts_with("error")).count();
        let completes = events.iter().filter(|e| e.as_str() == "complete").count();
        match w {
            W::NoCatch | W::NonMatching => {
                if st("step1") != Some(crate::TaskState::Error) || !proc.state().is_error() { d.push(format!("step1 {:?}, process {}: the uncaught error must end both in error", st("step1"), proc.state())); }
                if code("step1").as_deref() != Some("e1") || proc.err().map(|e| e.ecode).as_deref() != Some("e1") { d.push(format!("the original code e1 is not kept: step1 {:?}, process {:?}", code("step1"), proc.err())); }
                if errors != 1 || completes != 0 { d.push(format!("{errors} error event(s), {completes} complete event(s); exactly one error event expected")); }
                if count("ok_catch") != 0 || count("ok_after") != 0 { d.push(format!("acts ran after the uncaught error: {created:?}")); }
            }
            W::StepCatch | W::StepCatchAll | W::ActCatch | W::FirstOfTwo | W::ScriptActCatch => {
                if count("ok_catch") != 1 { d.push(format!("the matching catch's step ran {} time(s): {created:?}", count("ok_catch"))); }
                if w == W::FirstOfTwo && count("ok_catchall") != 0 { d.push("the second (catch-all) catch ran although the first catch matched".to_string()); }
                if count("ok_after") != 1 || !proc.state().is_success() { d.push(format!("after the catch the flow must continue with step2 and complete: step2 act created {} time(s), process {}", count("ok_after"), proc.state())); }
                if st("step1") != Some(crate::TaskState::Completed) { d.push(format!("step1 ends {:?}", st("step1"))); }
                if errors != 0 || completes != 1 { d.push(format!("{errors} error event(s), {completes} complete event(s); exactly one complete event expected")); }
            }
            W::ErrorInsideCatch => {
                if count("err2") != 1 { d.push(format!("the catch step ran {} time(s)", count("err2"))); }
                if !proc.state().is_error() || proc.err().map(|e| e.ecode).as_deref() != Some("e2") { d.push(format!("the second error (e2) raised inside the catch steps must end the process in error e2: process {} {:?}", proc.state(), proc.err())); }
                if errors != 1 { d.push(format!("{errors} error event(s)")); }
            }
            W::NestedCatch => {
                if count("ok_inner") != 1 { d.push(format!("the catch step's OWN catch (on e2) ran {} time(s) although its error e2 matches: {created:?}", count("ok_inner"))); }
                if count("ok_after") != 1 || !proc.state().is_success() { d.push(format!("the flow must continue with step2 and complete: step2 act created {} time(s), process {} {:?}", count("ok_after"), proc.state(), proc.err())); }
            }
        }
        if !d.is_empty() { bad.push(format!("REPLAY-FAIL workflow {w:?}: {}", d.join("; "))); }
    }
    for b in bad.iter() { println!("{b}"); }
    assert!(bad.is_empty(), "{} workflows differ", bad.len());
}
