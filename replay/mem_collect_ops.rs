// bounded stand-in / replay driver (appended to acts/src/store/tests/mem.rs of a scratch copy): property C10, in-memory collection.
// (a) create / find / exists / update / delete sequences on one collection: find returns the record field for field, update replaces
//     every field of an existing record and creates nothing, delete removes the record and only it;
// (b) the whole query: 6 records, every filter of a small family x every order x offsets 0..7 x limits 1..7 -> rows, count, page_count,
//     page_num compared with a reference evaluation written from the statement.
#[tokio::test]
async fn verif_replay_mem_collect_ops() {
    let mut bad: Vec<String> = Vec::new();
    let mk = |id: &str, name: &str, ver: i32, size: i32, ts: i64| Model { id: id.to_string(), name: name.to_string(), ver, size, create_time: ts * 10, update_time: ts * 100,
        data: format!("data-{id}"), timestamp: ts };
    let same = |a: &Model, b: &Model| a.id == b.id && a.name == b.name && a.ver == b.ver && a.size == b.size && a.create_time == b.create_time && a.update_time == b.update_time
        && a.data == b.data && a.timestamp == b.timestamp;
    // ---- (a) operations
    {
        let store = MemStore::new();
        let c = store.models();
        let m1 = mk("k1", "one", 1, 10, 1);
        let m2 = mk("k2", "two", 2, 20, 2);
        if c.exists("k1").unwrap() { bad.push("REPLAY-FAIL ops: exists is true on an empty collection".into()); }
        if c.find("k1").is_ok() { bad.push("REPLAY-FAIL ops: find succeeds on an empty collection".into()); }
        // update before create creates nothing
        let _ = c.update(&m1);
        if c.exists("k1").unwrap() || c.find("k1").is_ok() || c.query(&Query::new()).unwrap().count != 0 { bad.push("REPLAY-FAIL ops: update of an unknown id created a record".into()); }
        c.create(&m1).unwrap();
        c.create(&m2).unwrap();
        match c.find("k1") { Ok(r) if same(&r, &m1) => {}, other => bad.push(format!("REPLAY-FAIL ops: create then find does not return the record: {other:?}")) }
        if !c.exists("k1").unwrap() || !c.exists("k2").unwrap() { bad.push("REPLAY-FAIL ops: exists is false after create".into()); }
        // update replaces every field, touches no other record
        let m1b = mk("k1", "uno", 11, 110, 7);
        c.update(&m1b).unwrap();
        match c.find("k1") { Ok(r) if same(&r, &m1b) => {}, other => bad.push(format!("REPLAY-FAIL ops: update then find does not return the new record: {other:?}")) }
        match c.find("k2") { Ok(r) if same(&r, &m2) => {}, other => bad.push(format!("REPLAY-FAIL ops: update of k1 changed k2: {other:?}")) }
        if c.query(&Query::new()).unwrap().count != 2 { bad.push("REPLAY-FAIL ops: update changed the number of records".into()); }
        // delete removes that record only
        c.delete("k1").unwrap();
        if c.exists("k1").unwrap() || c.find("k1").is_ok() { bad.push("REPLAY-FAIL ops: the record is still there after delete".into()); }
        match c.find("k2") { Ok(r) if same(&r, &m2) => {}, other => bad.push(format!("REPLAY-FAIL ops: delete of k1 changed k2: {other:?}")) }
        // update after delete does not bring it back
        let _ = c.update(&m1b);
        if c.exists("k1").unwrap() || c.query(&Query::new()).unwrap().count != 1 { bad.push("REPLAY-FAIL ops: update brought a deleted record back".into()); }
        // delete of an unknown id changes nothing
        let _ = c.delete("nope");
        if c.query(&Query::new()).unwrap().count != 1 { bad.push("REPLAY-FAIL ops: delete of an unknown id changed the collection".into()); }
        // create again after delete
        c.create(&m1).unwrap();
        match c.find("k1") { Ok(r) if same(&r, &m1) => {}, other => bad.push(format!("REPLAY-FAIL ops: create after delete: {other:?}")) }
    }
    // ---- (b) query = filter, order, page, count
    {
        let store = MemStore::new();
        let c = store.models();
        let recs = vec![mk("r0", "a", 9, 7, 0), mk("r1", "b", 10, 7, 1), mk("r2", "a", 100, 8, 2), mk("r3", "c", 2, 8, 3), mk("r4", "b", 10, 9, 4), mk("r5", "a", 3, 9, 5)];
        for r in recs.iter() { c.create(r).unwrap(); }
        type P = Box<dyn Fn(&Model) -> bool>;
        let filters: Vec<(&str, Query, P)> = vec![
            ("no filter", Query::new(), Box::new(|_| true)),
            ("AND[name==a]", Query::new().push(Cond::and().push(Expr::eq("name", "a"))), Box::new(|m| m.name == "a")),
            ("AND[name==a, size==9]", Query::new().push(Cond::and().push(Expr::eq("name", "a")).push(Expr::eq("size", 9))), Box::new(|m| m.name == "a" && m.size == 9)),
            ("AND[name==zzz, size==7]", Query::new().push(Cond::and().push(Expr::eq("name", "zzz")).push(Expr::eq("size", 7))), Box::new(|_| false)),
            ("OR[name==a, name==c]", Query::new().push(Cond::or().push(Expr::eq("name", "a")).push(Expr::eq("name", "c"))), Box::new(|m| m.name == "a" || m.name == "c")),
            ("OR[name==a, ver>=10]", Query::new().push(Cond::or().push(Expr::eq("name", "a")).push(Expr::ge("ver", 10))), Box::new(|m| m.name == "a" || m.ver >= 10)),
            ("AND[ver>2, ver<=10]", Query::new().push(Cond::and().push(Expr::gt("ver", 2)).push(Expr::le("ver", 10))), Box::new(|m| m.ver > 2 && m.ver <= 10)),
            ("AND[size!=8] and OR[name==b, ver<5]", Query::new().push(Cond::and().push(Expr::ne("size", 8))).push(Cond::or().push(Expr::eq("name", "b")).push(Expr::lt("ver", 5))),
                Box::new(|m| m.size != 8 && (m.name == "b" || m.ver < 5))),
            ("OR[name==a] and OR[name==b]", Query::new().push(Cond::or().push(Expr::eq("name", "a"))).push(Cond::or().push(Expr::eq("name", "b"))), Box::new(|_| false)),
        ];
        type K = Box<dyn Fn(&Model, &Model) -> std::cmp::Ordering>;
        let orders: Vec<(&str, Vec<(String, bool)>, Option<K>)> = vec![
            ("unordered", vec![], None),
            ("ver asc, timestamp asc", vec![("ver".to_string(), false), ("timestamp".to_string(), false)], Some(Box::new(|a, b| a.ver.cmp(&b.ver).then(a.timestamp.cmp(&b.timestamp))))),
            ("size desc, ver asc", vec![("size".to_string(), true), ("ver".to_string(), false)], Some(Box::new(|a, b| b.size.cmp(&a.size).then(a.ver.cmp(&b.ver)).then(std::cmp::Ordering::Equal)))),
            ("name asc, ver desc", vec![("name".to_string(), false), ("ver".to_string(), true)], Some(Box::new(|a, b| a.name.cmp(&b.name).then(b.ver.cmp(&a.ver))))),
            ("timestamp desc", vec![("timestamp".to_string(), true)], Some(Box::new(|a, b| b.timestamp.cmp(&a.timestamp)))),
        ];
        let mut n = 0;
        for (fname, q0, pred) in filters.iter() {
            let want_all: Vec<&Model> = recs.iter().filter(|m| pred(m)).collect();
            for (oname, okeys, cmp) in orders.iter() {
                for offset in 0..8usize {
                    for limit in 1..8usize {
                        n += 1;
                        let q = q0.clone().set_order(okeys).set_offset(offset).set_limit(limit);
                        let what = format!("{fname}, {oname}, offset {offset}, limit {limit}");
                        let page = match c.query(&q) { Ok(p) => p, Err(e) => { bad.push(format!("REPLAY-FAIL query {what}: refused: {e}")); continue; } };
                        if page.count != want_all.len() { bad.push(format!("REPLAY-FAIL query {what}: count {} but {} record(s) satisfy the filter", page.count, want_all.len())); continue; }
                        if page.page_size != limit { bad.push(format!("REPLAY-FAIL query {what}: page_size {}", page.page_size)); }
                        if page.page_count != (want_all.len() + limit - 1) / limit { bad.push(format!("REPLAY-FAIL query {what}: page_count {} for {} records", page.page_count, want_all.len())); }
                        if page.page_num != offset / limit + 1 { bad.push(format!("REPLAY-FAIL query {what}: page_num {}", page.page_num)); }
                        let want_len = want_all.len().saturating_sub(offset).min(limit);
                        if page.rows.len() != want_len { bad.push(format!("REPLAY-FAIL query {what}: {} row(s) returned, {} expected", page.rows.len(), want_len)); continue; }
                        for r in page.rows.iter() {
                            match recs.iter().find(|m| m.id == r.id) { Some(m) if same(m, r) && pred(m) => {}, _ => bad.push(format!("REPLAY-FAIL query {what}: row {} is not a stored record that satisfies the filter", r.id)) }
                        }
                        if let Some(cmp) = cmp {
                            // the keys of every order above determine the position of a record up to records equal on all keys
                            let mut sorted = want_all.clone();
                            sorted.sort_by(|a, b| cmp(a, b));
                            let want_page: Vec<&&Model> = sorted.iter().skip(offset).take(limit).collect();
                            for (i, r) in page.rows.iter().enumerate() {
                                if cmp(want_page[i], r) != std::cmp::Ordering::Equal { bad.push(format!("REPLAY-FAIL query {what}: row {i} is {} but the order puts {} there", r.id, want_page[i].id)); break; }
                            }
                        } else {
                            // unordered: the pages of one query partition the result
                            let mut seen: Vec<String> = Vec::new();
                            let mut off = 0;
                            loop {
                                let p = c.query(&q0.clone().set_offset(off).set_limit(limit)).unwrap();
                                if p.rows.is_empty() { break; }
                                for r in p.rows.iter() { seen.push(r.id.clone()); }
                                off += limit;
                            }
                            seen.sort(); seen.dedup();
                            if offset == 0 && seen.len() != want_all.len() { bad.push(format!("REPLAY-FAIL query {what}: paging through the result visits {} distinct record(s) of {}", seen.len(), want_all.len())); }
                        }
                    }
                }
            }
        }
        println!("verif_replay_mem_collect_ops: {n} queries compared");
    }
    for b in bad.iter().take(12) { println!("{b}"); }
    assert!(bad.is_empty(), "{} difference(s)", bad.len());
}
