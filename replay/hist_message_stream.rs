// replay / bounded stand-in driver (appended to acts/src/scheduler/tests/message.rs of a scratch copy): property C08.
// For every task the client sees at most one `created` and at most one terminal message, the terminal one last, and a task whose
// error is taken by its own catch reports only its eventual ending.  10 workflows (one with an act pushed without an id; the last one scripted: a step closed by a back while a child is open, the child ends later) (+ every ended workflow / step / interrupt act has exactly one terminal message with its final state): plain act, two acts in sequence, step catch with
// steps, step catch without steps, act catch without steps, step with a false condition.
#[tokio::test]
async fn verif_replay_hist_message_stream() {
    let mut bad: Vec<String> = Vec::new();
    let shapes: Vec<(&str, Workflow)> = vec![
        ("plain irq act answered complete", Workflow::new().with_id("v_m1").with_step(|s| s.with_id("step1").with_act(Act::irq(|a| a.with_key("ok1"))))),
        ("two irq acts in sequence", Workflow::new().with_id("v_m2").with_step(|s| s.with_id("step1").with_act(Act::irq(|a| a.with_key("ok1"))).with_act(Act::irq(|a| a.with_key("ok2"))))),
        ("step catch with steps takes the act's error", Workflow::new().with_id("v_m3").with_step(|s| s.with_id("step1").with_act(Act::irq(|a| a.with_key("err1")))
            .with_catch(|c| c.with_step(|s| s.with_id("cs1").with_act(Act::irq(|a| a.with_key("ok1"))))))),
        ("step catch without steps takes the act's error", Workflow::new().with_id("v_m4").with_step(|s| s.with_id("step1").with_act(Act::irq(|a| a.with_key("err1"))).with_catch(|c| c))
            .with_step(|s| s.with_id("step2").with_act(Act::irq(|a| a.with_key("ok1"))))),
        ("act catch without steps takes its own error", Workflow::new().with_id("v_m5").with_step(|s| s.with_id("step1").with_act(Act::irq(|a| a.with_key("err1")).with_catch(|c| c)))
            .with_step(|s| s.with_id("step2").with_act(Act::irq(|a| a.with_key("ok1"))))),
        ("the steps of a step catch fail again: the catching step ends in error after all", Workflow::new().with_id("v_m7").with_step(|s| s.with_id("step1").with_act(Act::irq(|a| a.with_key("err1")))
            .with_catch(|c| c.with_step(|s| s.with_id("cs1").with_act(Act::irq(|a| a.with_key("err2"))))))),
        ("the steps of an act catch fail again", Workflow::new().with_id("v_m8").with_step(|s| s.with_id("step1").with_act(Act::irq(|a| a.with_key("err1")).with_id("a1")
            .with_catch(|c| c.with_step(|s| s.with_id("cs1").with_act(Act::irq(|a| a.with_key("err2")))))))),
        ("step with a false condition is skipped", Workflow::new().with_id("v_m6").with_step(|s| s.with_id("step1").with_if("false").with_act(Act::irq(|a| a.with_key("ok1"))))
            .with_step(|s| s.with_id("step2").with_act(Act::irq(|a| a.with_key("ok2"))))),
        // an act pushed by the client WITHOUT an id (its node gets a generated id): its messages must still name the node of their task
        ("an act pushed without an id", Workflow::new().with_id("v_m10").with_step(|s| s.with_id("step1").with_act(Act::irq(|a| a.with_key("hold_p"))))),
        // a task ends while one of its children is still open, and that child ends later: back from one of two parallel branches closes the step that
        // holds them; the act of the other branch is completed afterwards (scripted below: the `hold_` acts are answered by the script)
        ("back from one of two parallel branches, then the act of the other branch is completed", Workflow::new().with_id("v_m9")
            .with_step(|s| s.with_id("s0").with_act(Act::irq(|a| a.with_key("ok0"))))
            .with_step(|s| s.with_id("s1")
                .with_branch(|b| b.with_id("b1").with_if("true").with_step(|s| s.with_id("s2").with_act(Act::irq(|a| a.with_key("hold_a1")))))
                .with_branch(|b| b.with_id("b2").with_if("true").with_step(|s| s.with_id("s3").with_act(Act::irq(|a| a.with_key("hold_a2"))))))),
    ];
    for (name, workflow) in shapes.iter() {
        let config = ConfigData { keep_processes: Some(true), ..ConfigData::default() };
        let id = utils::longid();
        let (engine, proc, _sig) = create_proc_signal_config::<Vec<String>>(&config, workflow, &id).await;
        let log: Arc<Mutex<Vec<(String, String, String)>>> = Arc::new(Mutex::new(Vec::new()));   // (tid, nid, state)
        let l = log.clone();
        let ex = engine.executor().clone();
        let held: Arc<Mutex<Vec<(String, String)>>> = Arc::new(Mutex::new(Vec::new()));   // (key, tid) of the `created` messages the script answers itself
        let h2 = held.clone();
        engine.channel().on_message(move |e| {
            l.lock().unwrap().push((e.tid.clone(), e.nid.clone(), e.state.to_string()));
            if e.is_irq() && e.is_state(MessageState::Created) && e.key.starts_with("hold_") { h2.lock().unwrap().push((e.key.clone(), e.tid.clone())); return; }
            if e.is_irq() && e.is_state(MessageState::Created) {
                if e.key.starts_with("err") {
                    let mut vars = Vars::new(); vars.set("ecode", "e1");
                    let _ = ex.act().error(&e.pid, &e.tid, &vars);
                } else {
                    let _ = ex.act().complete(&e.pid, &e.tid, &Vars::new());
                }
            }
        });
        engine.runtime().launch(&proc);
        if name.starts_with("an act pushed without an id") {
            let nth = |k: &'static str, n: usize| { let held = held.clone(); async move { for _ in 0..200 { if let Some(t) = held.lock().unwrap().iter().filter(|(key, _)| key == k).map(|(_, tid)| tid.clone()).nth(n) { return Some(t); } tokio::time::sleep(std::time::Duration::from_millis(25)).await; } None } };
            if let Some(hp) = nth("hold_p", 0).await {
                let step_tid = proc.task_by_nid("step1").first().map(|t| t.id.clone()).unwrap_or_default();
                let r = engine.executor().act().push(&proc.id(), &step_tid, &Vars::new().with("uses", "acts.core.irq").with("key", "ok_pushed"));
                if r.is_err() { bad.push(format!("REPLAY-FAIL [{name}] the push is refused: {r:?}")); }
                tokio::time::sleep(std::time::Duration::from_millis(300)).await;
                let _ = engine.executor().act().complete(&proc.id(), &hp, &Vars::new());
            } else { bad.push(format!("REPLAY-FAIL [{name}] the act did not open")); }
        }
        if name.starts_with("back from one of two parallel branches") {
            // the n-th `created` message with that key (its task id), waited for
            let nth = |k: &'static str, n: usize| { let held = held.clone(); async move { for _ in 0..200 { if let Some(t) = held.lock().unwrap().iter().filter(|(key, _)| key == k).map(|(_, tid)| tid.clone()).nth(n) { return Some(t); } tokio::time::sleep(std::time::Duration::from_millis(25)).await; } None } };
            if let (Some(a1), Some(a2)) = (nth("hold_a1", 0).await, nth("hold_a2", 0).await) {
                tokio::time::sleep(std::time::Duration::from_millis(100)).await;
                let _ = engine.executor().act().back(&proc.id(), &a1, &Vars::new().with("to", "s0"));
                tokio::time::sleep(std::time::Duration::from_millis(200)).await;
                let _ = engine.executor().act().complete(&proc.id(), &a2, &Vars::new());
                // s0 runs again (ok0 is answered by the handler), the branches open again: both acts are completed now
                if let Some(t) = nth("hold_a1", 1).await { let _ = engine.executor().act().complete(&proc.id(), &t, &Vars::new()); }
                if let Some(t) = nth("hold_a2", 1).await { let _ = engine.executor().act().complete(&proc.id(), &t, &Vars::new()); }
            } else { bad.push(format!("REPLAY-FAIL [{name}] the two branch acts did not open")); }
        }
        let mut left = 5000u64;
        while left > 0 && !proc.state().is_completed() { tokio::time::sleep(std::time::Duration::from_millis(25)).await; left = left.saturating_sub(25); }
        tokio::time::sleep(std::time::Duration::from_millis(300)).await;
        let msgs = log.lock().unwrap().clone();
        let mut per: std::collections::BTreeMap<String, (String, Vec<String>)> = std::collections::BTreeMap::new();
        for (tid, nid, st) in msgs.iter() { per.entry(tid.clone()).or_insert((nid.clone(), Vec::new())).1.push(st.clone()); }
        if !proc.state().is_completed() { bad.push(format!("REPLAY-FAIL [{name}] the process did not finish ({})", proc.state())); }
        // "every message carries the ... node id ... of the task it describes"
        for (tid, (nid, _)) in per.iter() {
            if let Some(t) = proc.task(tid) { if t.node().id() != nid.as_str() { bad.push(format!("REPLAY-FAIL [{name}] the messages of task {tid} carry node id `{nid}`, the task runs node `{}`", t.node().id())); } }
        }
        for (_tid, (nid, sts)) in per.iter() {
            let created = sts.iter().filter(|s| s.as_str() == "created").count();
            let terminal: Vec<&String> = sts.iter().filter(|s| s.as_str() != "created" && s.as_str() != "none").collect();
            if created > 1 { bad.push(format!("REPLAY-FAIL [{name}] task {nid}: {created} `created` messages: {sts:?}")); }
            if terminal.len() > 1 { bad.push(format!("REPLAY-FAIL [{name}] task {nid}: {} terminal messages: {sts:?}", terminal.len())); }
            if terminal.len() == 1 && sts.last().map(|s| s.as_str()) == Some("created") { bad.push(format!("REPLAY-FAIL [{name}] task {nid}: `created` after the terminal message: {sts:?}")); }
        }
        // every workflow, step and interrupt act that ENDS yields a terminal message with its final state
        for t in proc.tasks().iter() {
            let kind = t.node().kind();
            let reported = per.contains_key(&t.id);
            let is_wf_or_step = kind == crate::scheduler::NodeKind::Workflow || kind == crate::scheduler::NodeKind::Step;
            if !(is_wf_or_step || (kind == crate::scheduler::NodeKind::Act && reported)) { continue; }
            if !t.state().is_completed() { continue; }
            let want = MessageState::from(t.state()).to_string();
            let got: Vec<String> = per.get(&t.id).map(|(_, sts)| sts.iter().filter(|s| s.as_str() != "created" && s.as_str() != "none").cloned().collect()).unwrap_or_default();
            if got != vec![want.clone()] { bad.push(format!("REPLAY-FAIL [{name}] task {} ({:?}) ended `{want}` but its terminal message(s) are {got:?}", t.node().id(), kind)); }
        }
    }
    for b in bad.iter() { println!("{b}"); }
    assert!(bad.is_empty());
}
