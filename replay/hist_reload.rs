// replay / bounded stand-in driver (appended to acts/src/cache/tests.rs of a scratch copy): property C12, functions Store::load / load_proc.
// Three processes (two of the SAME model with different inputs and generated node ids, one of another model) wait at their first
// act; each is then rebuilt from the store by Store::load (bulk) and by Store::load_proc and compared with the live process:
// model, state, start time, env, and per task id: state, prev, data, start/end time, node id.
#[tokio::test]
async fn verif_replay_hist_reload() {
    use crate::{Act, Vars, MessageState};
    use std::sync::{Arc, Mutex};
    let engine = EngineBuilder::new().cache_size(100).build().await.unwrap().start();
    let rt = engine.runtime();
    let cache = rt.cache().clone();
    let m1 = Workflow::new().with_id("vm1").with_output("v", serde_json::json!(null))
        .with_step(|s| s.with_name("step1").with_act(Act::irq(|a| a.with_key("act1"))))
        .with_step(|s| s.with_name("step2").with_act(Act::irq(|a| a.with_key("act2"))));
    let m2 = Workflow::new().with_id("vm2").with_step(|s| s.with_id("only").with_act(Act::irq(|a| a.with_key("act1"))));
    // a fourth process stands inside a catch rule whose steps carry NO explicit id (generated ids must survive the reload: the rule's
    // remaining steps hang off the node the waiting task is re-bound to)
    let m3 = Workflow::new().with_id("vm3").with_step(|s| s.with_id("s1").with_act(Act::irq(|a| a.with_key("boom")))
        .with_catch(|c| c.with_step(|s| s.with_name("r1").with_act(Act::irq(|a| a.with_key("act1")))).with_step(|s| s.with_name("r2").with_act(Act::irq(|a| a.with_key("r2act"))))));
    engine.executor().model().deploy(&m1).unwrap();
    engine.executor().model().deploy(&m2).unwrap();
    engine.executor().model().deploy(&m3).unwrap();
    let seen: Arc<Mutex<Vec<String>>> = Arc::new(Mutex::new(Vec::new()));
    let s2 = seen.clone();
    engine.channel().on_message(move |e| {
        if e.key == "act1" && e.is_state(MessageState::Created) { s2.lock().unwrap().push(e.pid.clone()); }
        if e.key == "boom" && e.is_state(MessageState::Created) {
            let mut o = Vars::new(); o.set(crate::utils::consts::ACT_ERR_CODE, "e1");
            let _ = e.do_action(&e.pid, &e.tid, crate::event::EventAction::Error, &o);
        }
    });
    let mut pids = Vec::new();
    pids.push(engine.executor().proc().start("vm1", &Vars::new().with("v", 1)).unwrap());
    pids.push(engine.executor().proc().start("vm1", &Vars::new().with("v", 2)).unwrap());
    pids.push(engine.executor().proc().start("vm2", &Vars::new().with("v", 3)).unwrap());
    pids.push(engine.executor().proc().start("vm3", &Vars::new().with("v", 4)).unwrap());
    for _ in 0..200 { if seen.lock().unwrap().len() >= 4 { break; } tokio::time::sleep(std::time::Duration::from_millis(25)).await; }
    tokio::time::sleep(std::time::Duration::from_millis(200)).await;
    let mut bad: Vec<String> = Vec::new();
    let describe = |p: &Arc<Process>| -> (String, String, i64, String, Vec<(String, String, Option<String>, String, i64, i64, String)>) {
        // node = its id + the id of its successor + the ids of its children (the links the flow continues along after the reload)
        let links = |t: &Arc<crate::scheduler::Task>| format!("{} next={:?} children={:?}", t.node().id(), t.node().next().upgrade().map(|n| n.id().to_string()), t.node().children().iter().map(|n| n.id().to_string()).collect::<Vec<_>>());
        let mut tasks: Vec<_> = p.tasks().iter().map(|t| (t.id.clone(), t.state().to_string(), t.prev(), t.data().to_string(), t.start_time(), t.end_time(), links(t))).collect();
        tasks.sort();
        (p.model().to_json().unwrap_or_default(), p.state().to_string(), p.start_time(), p.env().to_string(), tasks)
    };
    let live: Vec<Arc<Process>> = pids.iter().map(|pid| cache.procs().into_iter().find(|p| p.id() == pid).expect("live process")).collect();
    let bulk = cache.store().load(100, &rt).unwrap();
    for (how, reloaded) in [("Store::load", bulk), ("Store::load_proc", pids.iter().filter_map(|pid| cache.store().load_proc(pid, &rt).unwrap()).collect::<Vec<_>>())] {
        for lp in live.iter() {
            match reloaded.iter().find(|p| p.id() == lp.id()) {
                None => bad.push(format!("REPLAY-FAIL {how}: running process {} (model {}) is not restored", lp.id(), lp.model().id)),
                Some(rp) => {
                    let (a, b) = (describe(lp), describe(rp));
                    if a.0 != b.0 { bad.push(format!("REPLAY-FAIL {how}: process {} (model {}, v={:?}) comes back with another model text (inputs {:?} instead of {:?})", lp.id(), lp.model().id, lp.data().get::<i64>("v"), rp.model().inputs, lp.model().inputs)); }
                    if a.1 != b.1 || a.2 != b.2 || a.3 != b.3 { bad.push(format!("REPLAY-FAIL {how}: process {} state/start/env differ: live {:?} reloaded {:?}", lp.id(), (&a.1, a.2, &a.3), (&b.1, b.2, &b.3))); }
                    if a.4 != b.4 { bad.push(format!("REPLAY-FAIL {how}: process {} tasks differ: live {:?} reloaded {:?}", lp.id(), a.4, b.4)); }
                }
            }
        }
    }
    for b in bad.iter().take(10) { println!("{b}"); }
    assert!(bad.is_empty(), "{} differences", bad.len());
}
