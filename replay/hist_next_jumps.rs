// bounded stand-in / replay driver (appended to acts/src/scheduler/tests/workflow.rs of a scratch copy): property C04, `next` jumps.
// "... the same set of nodes runs the same number of times in the same order and with the same final states under forward and backward `next` jumps":
// two models on the REAL engine -- a loop whose head is the FIRST top-level step (re-entered from a step nested in one of its branches) and a loop with a
// later head (init; cond; end) -- compared with what the statement fixes: how often every node runs, the value of the loop counter, the last step after the
// last round of the head, the workflow and the process completed, exactly one complete event.  (Whether the tasks of EARLIER rounds are closed is C03's
// business: the second test below, registered for C03 only.)
#[tokio::test]
async fn verif_replay_hist_next_jumps() { verif_next_jumps(false).await }
#[tokio::test]
async fn verif_replay_open_tasks_after_next_jumps() { verif_next_jumps(true).await }
async fn verif_next_jumps(open_tasks_only: bool) {
    use std::sync::{Arc, Mutex};
    let mut bad: Vec<String> = Vec::new();
    let shapes: Vec<(&str, Workflow, Vec<(&str, usize)>, i32)> = vec![
        ("loop whose head is the first top-level step", Workflow::new().with_input("i", 0.into())
            .with_step(|step| step.with_id("cond").with_branch(|b| b.with_id("again").with_if("i < 2").with_step(|step| step.with_id("add").with_act(Act::code(r#"$set("i", i + 1);"#).with_id("inc")).with_next("cond")))
                .with_branch(|b| b.with_id("done").with_if("i >= 2")))
            .with_step(|step| step.with_id("end")),
            vec![("cond", 3), ("add", 2), ("end", 1)], 2),
        ("loop with a later head (init; cond; end)", Workflow::new().with_input("i", 0.into())
            .with_step(|step| step.with_id("init"))
            .with_step(|step| step.with_id("cond").with_branch(|b| b.with_id("again").with_if("i < 2").with_step(|step| step.with_id("add").with_act(Act::code(r#"$set("i", i + 1);"#).with_id("inc")).with_next("cond")))
                .with_branch(|b| b.with_id("done").with_if("i >= 2")))
            .with_step(|step| step.with_id("end")),
            vec![("init", 1), ("cond", 3), ("add", 2), ("end", 1)], 2),
    ];
    for (name, wf, counts, want_i) in shapes.into_iter() {
        let mut workflow = wf;
        let (proc, scher, emitter, tx, _rx) = create_proc_signal::<()>(&mut workflow, &utils::longid());
        let ends: Arc<Mutex<Vec<String>>> = Arc::new(Mutex::new(Vec::new()));
        let e1 = ends.clone(); emitter.on_complete(move |e| { e1.lock().unwrap().push(format!("complete:{}", e.state)); });
        let e2 = ends.clone(); emitter.on_error(move |e| { e2.lock().unwrap().push(format!("error:{}", e.state)); });
        scher.launch(&proc);
        let _ = tokio::time::timeout(std::time::Duration::from_secs(5), tx.recv()).await;
        tokio::time::sleep(std::time::Duration::from_millis(200)).await;
        if open_tasks_only {
            // C03: "reported successfully completed only when every task started beneath it is terminal"
            let open: Vec<String> = proc.tasks().iter().filter(|t| !t.state().is_completed()).map(|t| format!("{}:{}", t.node().id(), t.state())).collect();
            if proc.root().map(|r| r.state().is_success()).unwrap_or(false) && !open.is_empty() { bad.push(format!("REPLAY-FAIL [{name}] the workflow is reported completed while tasks of earlier rounds beneath it are still open: {open:?}")); }
            continue;
        }
        for (nid, n) in counts.iter() {
            let got = proc.task_by_nid(nid).len();
            if got != *n { bad.push(format!("REPLAY-FAIL [{name}] node {nid} ran {got} time(s), the reference reading says {n}")); }
        }
        let i = proc.data().get::<i32>("i");
        if i != Some(want_i) { bad.push(format!("REPLAY-FAIL [{name}] the counter ends as {i:?}, the reference reading says {want_i}")); }
        let root = proc.root().map(|r| r.state());
        if root != Some(TaskState::Completed) || proc.state() != TaskState::Completed { bad.push(format!("REPLAY-FAIL [{name}] every step of the model is done, yet the workflow is {root:?} and the process {}", proc.state())); }
        let ev = ends.lock().unwrap().clone();
        if ev != vec!["complete:completed".to_string()] { bad.push(format!("REPLAY-FAIL [{name}] terminal events {ev:?}, expected exactly one complete event")); }
    }
    for b in bad.iter().take(12) { println!("{b}"); }
    assert!(bad.is_empty(), "{} difference(s)", bad.len());
}
