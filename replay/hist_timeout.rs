// replay driver (appended to acts/src/scheduler/tests/step/timeout.rs of a scratch copy):
// a timeout rule must not fire for a task that reached a terminal state before the limit (property C19).
#[tokio::test]
async fn verif_replay_hist_timeout() {
    // step1 has a 1s rule and one irq act that is answered at once; step2 keeps the process running.
    let mut workflow = Workflow::new()
        .with_step(|step| {
            step.with_id("step1")
                .with_timeout(|t| t.with_on("1s").with_step(|step| step.with_id("step_t").with_act(Act::msg(|msg| msg.with_key("tmo")))))
                .with_act(Act::irq(|act| act.with_key("act1")))
        })
        .with_step(|step| step.with_id("step2").with_act(Act::irq(|act| act.with_key("act2"))));
    let (proc, scher, emitter, tx, rx) = create_proc_signal::<Vec<String>>(&mut workflow, &utils::longid());
    let rx2 = rx.clone();
    emitter.on_message(move |e| {
        if e.is_key("act1") && e.is_state(crate::MessageState::Created) {
            e.do_action(&e.pid, &e.tid, crate::event::EventAction::Next, &crate::Vars::new()).unwrap();
            rx.update(|d| d.push("act1-completed".to_string()));
        }
        if e.is_key("tmo") { rx.update(|d| d.push("TIMEOUT-FIRED".to_string())); }
    });
    scher.launch(&proc);
    tokio::spawn(async move { tokio::time::sleep(std::time::Duration::from_millis(3500)).await; rx2.close(); });
    let log = tx.recv().await;
    let st = proc.task_by_nid("step1").first().map(|t| t.state());
    let fired = log.iter().any(|l| l == "TIMEOUT-FIRED");
    if fired { println!("REPLAY-FAIL timeout rule 1s of step1 fired although step1 was already {:?} (act answered at once); log={:?}", st, log); }
    assert!(!fired);
}
