// replay / bounded stand-in driver (appended to acts/src/scheduler/tests/step/timeout.rs of a scratch copy): property C19.
// 5 histories on the real engine (test tick = 0.9 s): (1) a rule must not fire for a task that reached a terminal state before the limit;
// (2) a 1s rule of an open act fires exactly once, not before 1 s, within the limit plus two ticks, and the act stays open;
// (3) two tasks with rules, one of them unparsable ("2w"): the well-formed rule of the other task still fires once;
// (4) two rules on ONE task, the first unparsable: the well-formed second rule still fires once;
// (5) a step that is run again (Back) is a new task instance with its own timer: the rule fires once for each instance, never early.
#[tokio::test]
async fn verif_replay_hist_timeout() {
    let mut bad: Vec<String> = Vec::new();
    // ---- history 1
    {
        let mut workflow = Workflow::new()
            .with_step(|step| {
                step.with_id("step1")
                    .with_timeout(|t| t.with_on("1s").with_step(|step| step.with_id("step_t").with_act(Act::msg(|msg| msg.with_key("tmo")))))
                    .with_act(Act::irq(|act| act.with_key("act1")))
            })
            .with_step(|step| step.with_id("step2").with_act(Act::irq(|act| act.with_key("act2"))));
        let (proc, scher, emitter, tx, rx) = create_proc_signal::<Vec<String>>(&mut workflow, &utils::longid());
        let rx2 = rx.clone();
        emitter.on_message(move |e| {
            if e.is_key("act1") && e.is_state(crate::MessageState::Created) {
                e.do_action(&e.pid, &e.tid, crate::event::EventAction::Next, &crate::Vars::new()).unwrap();
                rx.update(|d| d.push("act1-completed".to_string()));
            }
            if e.is_key("tmo") { rx.update(|d| d.push("TIMEOUT-FIRED".to_string())); }
        });
        scher.launch(&proc);
        tokio::spawn(async move { tokio::time::sleep(std::time::Duration::from_millis(3500)).await; rx2.close(); });
        let log = tx.recv().await;
        let st = proc.task_by_nid("step1").first().map(|t| t.state());
        if log.iter().any(|l| l == "TIMEOUT-FIRED") { bad.push(format!("REPLAY-FAIL timeout rule 1s of step1 fired although step1 was already {:?} (act answered at once); log={:?}", st, log)); }
    }
    // ---- histories 2-4: count the firings of the well-formed 1s rule (`fired`) and of the unparsable one (`never`)
    for h in 2..=4 {
        let mut workflow = match h {
            2 => Workflow::new().with_step(|step| step.with_id("step1").with_act(Act::irq(|a| a.with_key("act1")).with_id("act1")
                    .with_timeout(|t| t.with_on("1s").with_step(|s| s.with_act(Act::msg(|m| m.with_key("fired"))))))),
            3 => Workflow::new().with_step(|step| step.with_id("step1")
                    .with_timeout(|t| t.with_on("2w").with_step(|s| s.with_act(Act::msg(|m| m.with_key("never")))))
                    .with_act(Act::irq(|a| a.with_key("act1")).with_id("act1")
                        .with_timeout(|t| t.with_on("1s").with_step(|s| s.with_act(Act::msg(|m| m.with_key("fired"))))))),
            _ => Workflow::new().with_step(|step| step.with_id("step1").with_act(Act::irq(|a| a.with_key("act1")).with_id("act1")
                    .with_timeout(|t| t.with_on("2w").with_step(|s| s.with_act(Act::msg(|m| m.with_key("never")))))
                    .with_timeout(|t| t.with_on("1s").with_step(|s| s.with_act(Act::msg(|m| m.with_key("fired"))))))),
        };
        let (proc, scher, emitter, tx, rx) = create_proc_signal::<Vec<String>>(&mut workflow, &utils::longid());
        let rx2 = rx.clone();
        let t0 = std::time::Instant::now();
        emitter.on_message(move |e| {
            if e.is_key("fired") { rx.update(|d| d.push(format!("fired@{}", t0.elapsed().as_millis()))); }
            if e.is_key("never") { rx.update(|d| d.push("never".to_string())); }
        });
        scher.launch(&proc);
        tokio::spawn(async move { tokio::time::sleep(std::time::Duration::from_millis(4500)).await; rx2.close(); });
        let log = tx.recv().await;
        let fired: Vec<u128> = log.iter().filter_map(|l| l.strip_prefix("fired@").and_then(|x| x.parse().ok())).collect();
        let act = proc.task_by_nid("act1").first().map(|t| t.state());
        let what = match h { 2 => "1s rule on an open act", 3 => "1s rule on act1 beside an unparsable rule (2w) on step1", _ => "1s rule declared after an unparsable rule (2w) on the same act" };
        if fired.len() != 1 { bad.push(format!("REPLAY-FAIL {what}: fired {} time(s) in 4.5 s (expected exactly once); log={log:?}", fired.len())); }
        if let Some(ms) = fired.first() {
            if *ms < 1000 { bad.push(format!("REPLAY-FAIL {what}: fired after {ms} ms, before the 1 s limit")); }
            if *ms > 1000 + 2 * 900 + 300 { bad.push(format!("REPLAY-FAIL {what}: fired after {ms} ms, later than the limit plus two ticks")); }
        }
        if log.iter().any(|l| l == "never") { bad.push(format!("REPLAY-FAIL {what}: the unparsable rule fired")); }
        if act != Some(crate::TaskState::Interrupt) { bad.push(format!("REPLAY-FAIL {what}: the timed act is {act:?}, firing must not close it")); }
    }
    // ---- history 5: "at most once PER TASK INSTANCE": the rule of step1 fires for the first run; the client sends act1 back to step1, which runs
    // again as a new task instance and stays open: its rule fires too -- once, and not before that instance was open for the limit
    {
        use std::sync::{Arc, Mutex};
        let mut workflow = Workflow::new().with_step(|step| {
            step.with_id("step1")
                .with_timeout(|t| t.with_on("1s").with_step(|step| step.with_id("step_t").with_act(Act::msg(|msg| msg.with_key("tmo")))))
                .with_act(Act::irq(|act| act.with_key("act1")))
        });
        let (proc, scher, emitter, _tx, _rx) = create_proc_signal::<()>(&mut workflow, &utils::longid());
        let act1 = Arc::new(Mutex::new(None::<(String, String)>));
        let (a,) = (act1.clone(),);
        emitter.on_message(move |e| { if e.is_key("act1") && e.is_state(crate::MessageState::Created) { *a.lock().unwrap() = Some((e.pid.clone(), e.tid.clone())); } });
        scher.launch(&proc);
        let what = "1s rule on a step that is run again (Back)";
        let fired_for = |step: &Arc<crate::scheduler::Task>| proc.task_by_nid("step_t").iter().filter(|t| t.prev() == Some(step.id.clone())).cloned().collect::<Vec<_>>();
        let mut waited = 0;
        while waited < 4000 && proc.task_by_nid("step_t").is_empty() { tokio::time::sleep(std::time::Duration::from_millis(50)).await; waited += 50; }
        if proc.task_by_nid("step_t").is_empty() { bad.push(format!("REPLAY-FAIL {what}: the rule of the first run did not fire within 4 s")); }
        else {
            tokio::time::sleep(std::time::Duration::from_millis(100)).await;
            let (pid, tid) = act1.lock().unwrap().clone().unwrap();
            let mut options = crate::Vars::new(); options.insert("to".to_string(), serde_json::json!("step1"));
            let r = scher.do_action(&crate::event::Action::new(&pid, &tid, crate::event::EventAction::Back, &options));
            let mut waited = 0;
            while waited < 2000 && proc.task_by_nid("step1").len() < 2 { tokio::time::sleep(std::time::Duration::from_millis(50)).await; waited += 50; }
            let mut steps = proc.task_by_nid("step1");
            if r.is_err() || steps.len() != 2 { bad.push(format!("REPLAY-FAIL {what}: back to step1 -> {r:?}, {} instance(s) of step1", steps.len())); }
            else {
                // limit (1 s) + two ticks (0.9 s each) + slack, then two more ticks to see that it does not fire again
                tokio::time::sleep(std::time::Duration::from_millis(1000 + 2 * 900 + 300 + 1800)).await;
                steps.sort_by_key(|t| t.start_time());      // the instance that was sent back first, the new one last
                for (n, step) in steps.iter().enumerate() {
                    let started = fired_for(step);
                    if n == 1 && !step.state().is_running() { bad.push(format!("REPLAY-FAIL {what}: the second instance of step1 is {}, firing must not close it", step.state())); }
                    if started.len() != 1 { bad.push(format!("REPLAY-FAIL {what}: the rule started its steps {} time(s) for instance #{} of step1 ({}), which was open for more than the limit plus two ticks (expected exactly once)", started.len(), n + 1, step.id)); continue; }
                    let ms = started[0].start_time() - step.start_time();
                    if ms < 1000 { bad.push(format!("REPLAY-FAIL {what}: fired {ms} ms after instance #{} of step1 started, before the 1 s limit", n + 1)); }
                    if ms > 1000 + 2 * 900 + 300 { bad.push(format!("REPLAY-FAIL {what}: fired {ms} ms after instance #{} of step1 started, later than the limit plus two ticks", n + 1)); }
                }
            }
        }
    }
    for b in bad.iter() { println!("{b}"); }
    assert!(bad.is_empty());
}
