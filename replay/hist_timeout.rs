// replay / bounded stand-in driver (appended to acts/src/scheduler/tests/step/timeout.rs of a scratch copy): property C19.
// 4 histories on the real engine (test tick = 0.9 s): (1) a rule must not fire for a task that reached a terminal state before the limit;
// (2) a 1s rule of an open act fires exactly once, not before 1 s, within the limit plus two ticks, and the act stays open;
// (3) two tasks with rules, one of them unparsable ("2w"): the well-formed rule of the other task still fires once;
// (4) two rules on ONE task, the first unparsable: the well-formed second rule still fires once.
#[tokio::test]
async fn verif_replay_hist_timeout() {
    let mut bad: Vec<String> = Vec::new();
    // ---- history 1
    {
        let mut workflow = Workflow::new()
            .with_step(|step| {
                step.with_id("step1")
                    .with_timeout(|t| t.with_on("1s").with_step(|step| step.with_id("step_t").with_act(Act::msg(|msg| msg.with_key("tmo")))))
                    .with_act(Act::irq(|act| act.with_key("act1")))
            })
            .with_step(|step| step.with_id("step2").with_act(Act::irq(|act| act.with_key("act2"))));
        let (proc, scher, emitter, tx, rx) = create_proc_signal::<Vec<String>>(&mut workflow, &utils::longid());
        let rx2 = rx.clone();
        emitter.on_message(move |e| {
            if e.is_key("act1") && e.is_state(crate::MessageState::Created) {
                e.do_action(&e.pid, &e.tid, crate::event::EventAction::Next, &crate::Vars::new()).unwrap();
                rx.update(|d| d.push("act1-completed".to_string()));
            }
            if e.is_key("tmo") { rx.update(|d| d.push("TIMEOUT-FIRED".to_string())); }
        });
        scher.launch(&proc);
        tokio::spawn(async move { tokio::time::sleep(std::time::Duration::from_millis(3500)).await; rx2.close(); });
        let log = tx.recv().await;
        let st = proc.task_by_nid("step1").first().map(|t| t.state());
        if log.iter().any(|l| l == "TIMEOUT-FIRED") { bad.push(format!("REPLAY-FAIL timeout rule 1s of step1 fired although step1 was already {:?} (act answered at once); log={:?}", st, log)); }
    }
    // ---- histories 2-4: count the firings of the well-formed 1s rule (`fired`) and of the unparsable one (`never`)
    for h in 2..=4 {
        let mut workflow = match h {
            2 => Workflow::new().with_step(|step| step.with_id("step1").with_act(Act::irq(|a| a.with_key("act1")).with_id("act1")
                    .with_timeout(|t| t.with_on("1s").with_step(|s| s.with_act(Act::msg(|m| m.with_key("fired"))))))),
            3 => Workflow::new().with_step(|step| step.with_id("step1")
                    .with_timeout(|t| t.with_on("2w").with_step(|s| s.with_act(Act::msg(|m| m.with_key("never")))))
                    .with_act(Act::irq(|a| a.with_key("act1")).with_id("act1")
                        .with_timeout(|t| t.with_on("1s").with_step(|s| s.with_act(Act::msg(|m| m.with_key("fired"))))))),
            _ => Workflow::new().with_step(|step| step.with_id("step1").with_act(Act::irq(|a| a.with_key("act1")).with_id("act1")
                    .with_timeout(|t| t.with_on("2w").with_step(|s| s.with_act(Act::msg(|m| m.with_key("never")))))
                    .with_timeout(|t| t.with_on("1s").with_step(|s| s.with_act(Act::msg(|m| m.with_key("fired"))))))),
        };
        let (proc, scher, emitter, tx, rx) = create_proc_signal::<Vec<String>>(&mut workflow, &utils::longid());
        let rx2 = rx.clone();
        let t0 = std::time::Instant::now();
        emitter.on_message(move |e| {
            if e.is_key("fired") { rx.update(|d| d.push(format!("fired@{}", t0.elapsed().as_millis()))); }
            if e.is_key("never") { rx.update(|d| d.push("never".to_string())); }
        });
        scher.launch(&proc);
        tokio::spawn(async move { tokio::time::sleep(std::time::Duration::from_millis(4500)).await; rx2.close(); });
        let log = tx.recv().await;
        let fired: Vec<u128> = log.iter().filter_map(|l| l.strip_prefix("fired@").and_then(|x| x.parse().ok())).collect();
        let act = proc.task_by_nid("act1").first().map(|t| t.state());
        let what = match h { 2 => "1s rule on an open act", 3 => "1s rule on act1 beside an unparsable rule (2w) on step1", _ => "1s rule declared after an unparsable rule (2w) on the same act" };
        if fired.len() != 1 { bad.push(format!("REPLAY-FAIL {what}: fired {} time(s) in 4.5 s (expected exactly once); log={log:?}", fired.len())); }
        if let Some(ms) = fired.first() {
            if *ms < 1000 { bad.push(format!("REPLAY-FAIL {what}: fired after {ms} ms, before the 1 s limit")); }
            if *ms > 1000 + 2 * 900 + 300 { bad.push(format!("REPLAY-FAIL {what}: fired after {ms} ms, later than the limit plus two ticks")); }
        }
        if log.iter().any(|l| l == "never") { bad.push(format!("REPLAY-FAIL {what}: the unparsable rule fired")); }
        if act != Some(crate::TaskState::Interrupt) { bad.push(format!("REPLAY-FAIL {what}: the timed act is {act:?}, firing must not close it")); }
    }
    for b in bad.iter() { println!("{b}"); }
    assert!(bad.is_empty());
}
