// replay / bounded stand-in driver (appended to acts/src/env/tests.rs of a scratch copy): property C14, templates.
// "A parameter string containing one or several {{expr}} templates has each expression evaluated and substituted independently, a string that
// is exactly one template yields the typed value, and strings without templates are passed through verbatim."  utils::fill_params and
// utils::fill_inputs are run in the scope of a real task whose variables are a = 1, b = "two", c = true, o = {k: 5}.
#[tokio::test]
async fn verif_replay_template_subst() {
    let engine = Engine::new().start();
    let sig = engine.signal(());
    let s1 = sig.clone();
    let workflow = Workflow::new().with_input("a", json!(1)).with_input("b", json!("two")).with_input("c", json!(true)).with_input("o", json!({"k": 5}))
        .with_step(|step| step.with_id("step1"));
    let proc = engine.runtime().start(&workflow, &Vars::new()).unwrap();
    engine.channel().on_complete(move |_| s1.close());
    sig.recv().await;
    let task = proc.root().unwrap();
    let ctx = task.create_context();
    let mut bad: Vec<String> = Vec::new();
    // (parameter, expected)
    let cases: Vec<(serde_json::Value, serde_json::Value)> = vec![
        // exactly one template: the typed value
        (json!("{{ a }}"), json!(1)), (json!("{{a}}"), json!(1)), (json!("{{ b }}"), json!("two")), (json!("{{ c }}"), json!(true)), (json!("{{ o }}"), json!({"k": 5})),
        (json!("{{ a + 1 }}"), json!(2)), (json!("{{ o.k }}"), json!(5)),
        // one template whose expression contains `}}` itself (a nested object literal)
        (json!("{{ ({u:{id:a,l:o.k}}) }}"), json!({"u": {"id": 1, "l": 5}})), (json!("{{ JSON.stringify({x:{y:a}}) }}"), json!("{\"x\":{\"y\":1}}")),
        // no template: verbatim
        (json!("plain text"), json!("plain text")), (json!(""), json!("")), (json!("{ a }"), json!("{ a }")), (json!("a }} b {{"), json!("a }} b {{")), (json!(7), json!(7)), (json!(null), json!(null)),
        // one template inside text
        (json!("x={{ a }}"), json!("x=1")), (json!("{{ b }}!"), json!("two!")), (json!("is {{ c }} ok"), json!("is true ok")),
        // several templates: each one evaluated and substituted independently
        (json!("{{ a }}-{{ b }}"), json!("1-two")), (json!("{{ a }}{{ a }}"), json!("11")), (json!("[{{ a }}] [{{ b }}] [{{ c }}]"), json!("[1] [two] [true]")),
        (json!("{{ a }} and {{ o.k }}"), json!("1 and 5")),
        // nested structures: every member
        (json!({"p": "{{ a }}", "q": ["{{ b }}", "n={{ a }}", 3], "r": {"s": "{{ c }}"}}), json!({"p": 1, "q": ["two", "n=1", 3], "r": {"s": true}})),
    ];
    for (param, want) in cases.iter() {
        let got = crate::utils::fill_params(param, &ctx);
        if got != *want { bad.push(format!("REPLAY-FAIL fill_params({param}) = {got}, the statement asks for {want}")); }
    }
    // fill_inputs: a value that is exactly one template yields the typed value, everything else is passed through
    let inputs = Vars::new().with("x", "{{ a }}").with("y", "{{ b }}").with("z", "text").with("n", 9).with("m", json!({"i": "{{ c }}", "j": "v"}));
    let got = crate::utils::fill_inputs(&inputs, &ctx);
    let want = Vars::new().with("x", 1).with("y", "two").with("z", "text").with("n", 9).with("m", json!({"i": true, "j": "v"}));
    if serde_json::to_value(&got).unwrap() != serde_json::to_value(&want).unwrap() { bad.push(format!("REPLAY-FAIL fill_inputs({inputs}) = {got}, the statement asks for {want}")); }
    for b in bad.iter().take(12) { println!("{b}"); }
    assert!(bad.is_empty(), "{} difference(s)", bad.len());
}
