// replay / bounded stand-in driver (appended to acts/src/scheduler/tests/tree.rs of a scratch copy): property C20 (tree clause).
// The execution tree built from a model contains every declared step with the declared nesting: the steps of every catch / timeout
// rule hang under THEIR OWN rule (`on` key) of the step or act that declares it, in declared order.
// Models: a step (and an act) with 1, 2 and 3 catches and timeout rules of 1-2 steps each.
#[test]
fn verif_replay_tree_hooks() {
    use crate::scheduler::tree::NodeOutputKind;
    use crate::Step;
    let mut bad: Vec<String> = Vec::new();
    for n_rules in 1..=3usize {
        for steps_per_rule in 1..=2usize {
            for on_act in [false, true] {
                let mut step = Step::new().with_id("step1");
                let mut act = Act::irq(|a| a.with_key("k")).with_id("act1");
                for r in 0..n_rules {
                    let mut c = crate::Catch::default().with_on(&format!("err{r}"));
                    let mut t = crate::Timeout::default().with_on(&format!("{}s", r + 1));
                    for s in 0..steps_per_rule {
                        c.steps.push(Step::new().with_id(&format!("c{r}_{s}")));
                        t.steps.push(Step::new().with_id(&format!("t{r}_{s}")));
                    }
                    if on_act { act.catches.push(c); act.timeout.push(t); } else { step.catches.push(c); step.timeout.push(t); }
                }
                step.acts.push(act);
                let mut workflow = Workflow::new();
                workflow.steps.push(step);
                let mut tree = NodeTree::new();
                tree.load(&mut workflow).unwrap();
                let owner = tree.node(if on_act { "act1" } else { "step1" }).unwrap();
                for r in 0..n_rules {
                    for (kind, kname, on, prefix) in [(NodeOutputKind::Catch, "catch", format!("err{r}"), "c"), (NodeOutputKind::Timeout, "timeout", format!("{}s", r + 1), "t")] {
                        // declared: the rule's steps in order; built: first step under the rule's key, the others chained by `next`
                        let declared: Vec<String> = (0..steps_per_rule).map(|s| format!("{prefix}{r}_{s}")).collect();
                        let heads = owner.children_in(kind.clone(), Some(on.clone()));
                        let mut built: Vec<String> = Vec::new();
                        if let Some(h) = heads.first() {
                            let mut cur = Some(h.clone());
                            while let Some(n) = cur { built.push(n.id().to_string()); cur = n.next().upgrade(); if built.len() > 10 { break; } }
                        }
                        if heads.len() != 1 || built != declared {
                            bad.push(format!("REPLAY-FAIL {} `{}` with {n_rules} {kname} rule(s) of {steps_per_rule} step(s): rule `{on}` declares {declared:?}, the tree holds {} head(s) and the chain {built:?}",
                                if on_act { "act" } else { "step" }, owner.id(), heads.len()));
                        }
                    }
                }
            }
        }
    }
    for b in bad.iter().take(8) { println!("{b}"); }
    assert!(bad.is_empty(), "{} rules misplaced", bad.len());
}
