// bounded stand-in / replay driver (appended to acts/src/scheduler/tests/vars.rs of a scratch copy): property C07.
// "A value ... written by a transform act, a script or a client action to a name that an enclosing scope declares, updates that scope and
// is seen by every later condition, script and message of the process (read-your-writes along the flow) ... The terminal event's outputs
// contain ... the last value written."  Two workflows on the REAL engine; `a` is declared by the workflow (input 1, output), written
// first by a `set` act in the setup of the step (5; absent in workflow 2) and then by the client completing the act `writer` (7).
// Every read that comes later in the flow is recorded and must be 7: the input template `{{ a }}` of the next act's message, the `if`
// condition `a == 7` of the act after it, a script reading the bare name, a script reading `$get("a")`, the declaring scope (root data)
// and the outputs of the terminal event.
#[tokio::test]
async fn verif_replay_hist_read_writes() {
    use crate::{Signal, StmtBuild};
    let mut bad: Vec<String> = Vec::new();
    for with_setup in [true, false] {
        let base = Workflow::new()
            .with_input("a", json!(1)).with_input("bare", json!(null)).with_input("got", json!(null))
            .with_output("a", json!(null)).with_output("bare", json!(null)).with_output("got", json!(null));
        fn acts_of(step: crate::Step) -> crate::Step {
            step.with_act(Act::irq(|act| act.with_key("writer")).with_id("writer"))
                .with_act(Act::irq(|act| act.with_key("reader").with_input("seen", json!("{{ a }}"))).with_id("reader"))
                .with_act(Act::irq(|act| act.with_key("gate").with_if("a == 7")).with_id("gate"))
                .with_act(Act::code(r#"$set("bare", a); $set("got", $get("a"));"#).with_id("script"))
        }
        let mut workflow = if with_setup {
            base.with_step(|step| acts_of(step.with_id("step1").with_setup(|setup| setup.add(Act::set(Vars::new().with("a", 5))))))
        } else {
            base.with_step(|step| acts_of(step.with_id("step1")))
        };
        let (proc, scher, emitter, tx, rx) = create_proc_signal::<Vec<serde_json::Value>>(&mut workflow, &utils::longid());
        let writer = Signal::new(String::new());
        let asked = writer.clone();
        let done = rx.clone();
        let s = scher.clone();
        emitter.on_message(move |e| {
            if !e.inner().is_state(MessageState::Created) { return; }
            if e.is_key("writer") { asked.send(e.inner().tid.clone()); }
            if e.is_key("reader") { rx.update(|data| data.push(e.inner().inputs.get_value("seen").cloned().unwrap_or(json!("<no input seen>")))); }
            if e.is_key("reader") || e.is_key("gate") {
                let _ = s.do_action(&Action::new(&e.inner().pid, &e.inner().tid, EventAction::Next, &Vars::new()));
            }
        });
        let outputs = std::sync::Arc::new(std::sync::Mutex::new(None::<Vars>));
        let o = outputs.clone();
        emitter.on_complete(move |e| { *o.lock().unwrap() = Some(e.outputs.clone()); done.close(); });
        scher.launch(&proc);
        let tid = writer.recv().await;
        let what = if with_setup { "set act in the step setup (5), then client write (7)" } else { "client write (7)" };
        if with_setup {
            // first write: the setup act ran and the declaring scope took it
            let step = proc.task_by_nid("step1").first().unwrap().clone();
            for _ in 0..500 { if step.data().contains_key("a") { break; } tokio::time::sleep(std::time::Duration::from_millis(10)).await; }
            if proc.data().get_value("a") != Some(&json!(5)) { bad.push(format!("REPLAY-FAIL [{what}] after the set act the declaring scope holds a = {:?}, not 5", proc.data().get_value("a"))); }
        }
        // second write: the client
        scher.do_action(&Action::new(proc.id(), &tid, EventAction::Next, &Vars::new().with("a", 7))).unwrap();
        let seen = tokio::time::timeout(std::time::Duration::from_secs(20), tx.recv()).await;
        let Ok(seen) = seen else { bad.push(format!("REPLAY-FAIL [{what}] the process did not end (state {})", proc.state())); continue; };
        let out = outputs.lock().unwrap().clone().unwrap_or_default();
        if proc.data().get_value("a") != Some(&json!(7)) { bad.push(format!("REPLAY-FAIL [{what}] the declaring scope holds a = {:?} after the last write, not 7", proc.data().get_value("a"))); }
        if out.get_value("a") != Some(&json!(7)) { bad.push(format!("REPLAY-FAIL [{what}] terminal outputs a = {:?}, not the last value written (7)", out.get_value("a"))); }
        if seen != vec![json!(7)] { bad.push(format!("REPLAY-FAIL [{what}] the input template {{{{ a }}}} of the later act's message read {:?}, not 7", seen)); }
        let gate = proc.task_by_nid("gate").first().map(|t| t.state());
        if !gate.as_ref().map(|s| s.is_success()).unwrap_or(false) { bad.push(format!("REPLAY-FAIL [{what}] the later condition `a == 7` was false: act gate is {:?}", gate)); }
        if out.get_value("bare") != Some(&json!(7)) { bad.push(format!("REPLAY-FAIL [{what}] the later script read the bare name a = {:?}, not 7", out.get_value("bare"))); }
        if out.get_value("got") != Some(&json!(7)) { bad.push(format!("REPLAY-FAIL [{what}] the later script read $get(\"a\") = {:?}, not 7", out.get_value("got"))); }
    }
    // the default output key `data` (a name that is NOT pushed into enclosing scopes): the workflow starts with data = 10, the client completes the act with
    // data = 99 -- "the terminal event's outputs contain ... the default 'data' key with the last value written"
    {
        let mut workflow = Workflow::new().with_input("data", json!(10))
            .with_step(|step| step.with_id("step1").with_act(Act::irq(|act| act.with_key("writer")).with_id("writer")));
        let (proc, scher, emitter, tx, rx) = create_proc_signal::<()>(&mut workflow, &utils::longid());
        let s = scher.clone();
        emitter.on_message(move |e| {
            if e.is_key("writer") && e.inner().is_state(MessageState::Created) {
                let _ = s.do_action(&Action::new(&e.inner().pid, &e.inner().tid, EventAction::Next, &Vars::new().with("data", 99)));
            }
        });
        let outputs = std::sync::Arc::new(std::sync::Mutex::new(None::<Vars>));
        let o = outputs.clone();
        emitter.on_complete(move |e| { *o.lock().unwrap() = Some(e.outputs.clone()); rx.close(); });
        scher.launch(&proc);
        let _ = tokio::time::timeout(std::time::Duration::from_secs(10), tx.recv()).await;
        let out = outputs.lock().unwrap().clone().unwrap_or_default();
        if out.get_value("data") != Some(&json!(99)) { bad.push(format!("REPLAY-FAIL [default key `data`: start value 10, client write 99] terminal outputs data = {:?}, not the last value written (99)", out.get_value("data"))); }
    }
    for b in bad.iter().take(12) { println!("{b}"); }
    assert!(bad.is_empty(), "{} reads did not see the last write", bad.len());
}
