// bounded stand-in / replay driver (appended to acts/src/scheduler/tests/vars.rs of a scratch copy): property C07.
// Task::update_data on the REAL task tree root > step1 > b1 > s1 > act1 (4 ancestors) and an unrelated sibling branch b2:
// for every subset of the ancestors holding the name (16) and three kinds of name (plain `a`, private `__a`, private `data_a`)
// the result is compared with the statement: a non-private name is updated in every enclosing scope that declares it (a later read sees it whether it resolves the name nearest-first or outermost-first), no scope
// gains the name, nothing outside the ancestry changes, private names never leave the task, the writer's own data takes the value.
#[tokio::test]
async fn verif_replay_hist_data_scope() {
    let mut workflow = Workflow::new().with_step(|step| {
        step.with_id("step1")
            .with_branch(|b| b.with_id("b1").with_if("true").with_step(|s| s.with_id("s1").with_act(Act::irq(|a| a.with_key("k1")).with_id("act1"))))
            .with_branch(|b| b.with_id("b2").with_if("true").with_step(|s| s.with_id("s2").with_act(Act::irq(|a| a.with_key("k2")).with_id("act2"))))
    });
    let (proc, scher, emitter, tx, rx) = create_proc_signal::<()>(&mut workflow, &utils::longid());
    let seen = std::sync::Arc::new(std::sync::Mutex::new(0));
    emitter.on_message(move |e| {
        if e.inner().is_type("act") && e.inner().is_state(MessageState::Created) {
            let mut n = seen.lock().unwrap(); *n += 1; if *n == 2 { rx.close(); }
        }
    });
    scher.launch(&proc);
    tx.recv().await;
    let get = |nid: &str| proc.task_by_nid(nid).first().cloned().unwrap();
    let act1 = get("act1");
    let root = proc.root().unwrap();
    // nearest first
    let anc = vec![get("s1"), get("b1"), get("step1"), root.clone()];
    let others = vec![get("b2"), get("s2"), get("act2")];
    let mut bad: Vec<String> = Vec::new();
    for name in ["a", "__a", "data_a"] {
        for mask in 0..16u32 {
            let all = anc.iter().chain(others.iter()).chain(std::iter::once(&act1));
            for t in all { t.set_data_with(|d| { d.pop(name); }); }
            for (i, t) in anc.iter().enumerate() { if mask & (1 << i) != 0 { t.set_data(&Vars::new().with(name, i as i64)); } }
            for t in others.iter() { t.set_data(&Vars::new().with(name, 50)); }
            act1.update_data(&Vars::new().with(name, 99));
            let private = name.starts_with("__") || name.starts_with("data");
            // every enclosing scope that holds the name takes the value (so that nearest-first and outermost-first reads agree)
            let mut diffs: Vec<String> = Vec::new();
            for (i, t) in anc.iter().enumerate() {
                let got = t.data().get::<i64>(name);
                let want = if mask & (1 << i) != 0 { Some(if private { i as i64 } else { 99 }) } else { None };
                if got != want { diffs.push(format!("ancestor #{i} ({}) holds {got:?}, the statement says {want:?}", t.node().id())); }
            }
            for t in others.iter() { let got = t.data().get::<i64>(name); if got != Some(50) { diffs.push(format!("task {} outside the ancestry now holds {got:?}", t.node().id())); } }
            if act1.data().get::<i64>(name) != Some(99) { diffs.push(format!("the writer's own data holds {:?}", act1.data().get::<i64>(name))); }
            if !diffs.is_empty() { bad.push(format!("REPLAY-FAIL name `{name}`, holders (bit i = ancestor #i, nearest first: s1, b1, step1, root) mask {mask:04b}: {}", diffs.join("; "))); }
        }
    }
    for b in bad.iter().take(12) { println!("{b}"); }
    assert!(bad.is_empty(), "{} configurations differ", bad.len());
}
