// replay driver (appended to acts/src/scheduler/tests/message.rs of a scratch copy): lifecycle histories on the REAL engine.
// Each scenario drives a process with keep_processes=true, records the state of every task after every client action and
// reports any task that leaves a terminal state or moves backwards (property C02), and any action that is accepted on a
// terminal act (C05), and any rejected action that changes a task (C05).
fn verif_rank(s: &crate::TaskState) -> i32 {
    use crate::TaskState::*;
    match s { None => 0, Ready | Pending | Interrupt => 1, Running => 2, _ => 3 }
}
fn verif_snapshot(proc: &Arc<crate::scheduler::Process>) -> std::collections::HashMap<String, (String, crate::TaskState)> {
    proc.tasks().iter().map(|t| (t.id.clone(), (t.node().id().to_string(), t.state()))).collect()
}
fn verif_compare(bad: &mut Vec<String>, scenario: &str, what: &str,
    before: &std::collections::HashMap<String, (String, crate::TaskState)>, after: &std::collections::HashMap<String, (String, crate::TaskState)>) {
    for (tid, (nid, s0)) in before.iter() {
        if let Some((_, s1)) = after.get(tid) {
            if s0 != s1 && (s0.is_completed() || verif_rank(s1) < verif_rank(s0)) {
                bad.push(format!("REPLAY-FAIL [{scenario}] after {what}: task {nid} moved {s0} -> {s1}"));
            }
        }
    }
}
async fn verif_two_branch_proc(mid: &str) -> (crate::Engine, Arc<crate::scheduler::Process>, String, Arc<Mutex<std::collections::HashMap<String, String>>>, crate::Signal<Vec<String>>) {
    let workflow = Workflow::new().with_id(mid).with_step(|step| {
        step.with_id("step1")
            .with_branch(|b| b.with_id("b1").with_if("true").with_step(|s| s.with_id("s1").with_act(Act::irq(|a| a.with_key("a1")))))
            .with_branch(|b| b.with_id("b2").with_if("true").with_step(|s| s.with_id("s2").with_act(Act::irq(|a| a.with_key("a2")))))
    });
    let config = ConfigData { keep_processes: Some(true), ..ConfigData::default() };
    let id = utils::longid();
    let (engine, proc, sig) = create_proc_signal_config::<Vec<String>>(&config, &workflow, &id).await;
    let tids = Arc::new(Mutex::new(std::collections::HashMap::<String, String>::new()));
    let t1 = tids.clone();
    engine.channel().on_message(move |e| {
        if e.is_irq() && e.is_state(MessageState::Created) { t1.lock().unwrap().insert(e.key.clone(), e.tid.clone()); }
    });
    engine.runtime().launch(&proc);
    tokio::time::sleep(std::time::Duration::from_millis(700)).await;
    (engine, proc, id, tids, sig)
}
#[tokio::test]
async fn verif_replay_hist_lifecycle() {
    let mut bad: Vec<String> = Vec::new();
    let wait = || tokio::time::sleep(std::time::Duration::from_millis(600));
    // ---- scenario A: error on a1, then abort a2 (ancestors already in error)
    {
        let (engine, proc, id, tids, _sig) = verif_two_branch_proc("verif_a").await;
        let (a1, a2) = { let t = tids.lock().unwrap(); (t.get("a1").cloned().unwrap(), t.get("a2").cloned().unwrap()) };
        let mut vars = Vars::new(); vars.set("ecode", "e1");
        let s0 = verif_snapshot(&proc);
        let _ = engine.executor().act().error(&id, &a1, &vars); wait().await;
        let s1 = verif_snapshot(&proc); verif_compare(&mut bad, "A", "error(a1)", &s0, &s1);
        let _ = engine.executor().act().abort(&id, &a2, &Vars::new()); wait().await;
        let s2 = verif_snapshot(&proc); verif_compare(&mut bad, "A", "abort(a2)", &s1, &s2);
        // C05: terminal actions on the errored act a1 must be rejected and change nothing
        for (name, r) in [("submit", engine.executor().act().submit(&id, &a1, &Vars::new())), ("remove", engine.executor().act().remove(&id, &a1, &Vars::new()))] {
            wait().await;
            let s3 = verif_snapshot(&proc);
            if r.is_ok() { bad.push(format!("REPLAY-FAIL [A] {name}(a1) on an act in a terminal state was accepted")); }
            verif_compare(&mut bad, "A", &format!("{name}(a1 terminal)"), &s2, &s3);
        }
    }
    // ---- scenario B: abort a1 (b2's step and act stay open beneath the aborted branch), then error on a2
    {
        let (engine, proc, id, tids, _sig) = verif_two_branch_proc("verif_b").await;
        let (a1, a2) = { let t = tids.lock().unwrap(); (t.get("a1").cloned().unwrap(), t.get("a2").cloned().unwrap()) };
        let s0 = verif_snapshot(&proc);
        let _ = engine.executor().act().abort(&id, &a1, &Vars::new()); wait().await;
        let s1 = verif_snapshot(&proc); verif_compare(&mut bad, "B", "abort(a1)", &s0, &s1);
        let mut vars = Vars::new(); vars.set("ecode", "e2");
        let _ = engine.executor().act().error(&id, &a2, &vars); wait().await;
        let s2 = verif_snapshot(&proc); verif_compare(&mut bad, "B", "error(a2)", &s1, &s2);
    }
    // ---- scenario C: error on a1, then back from a2 to step1 (its step s2 / branch chain under an errored step1)
    {
        let (engine, proc, id, tids, _sig) = verif_two_branch_proc("verif_c").await;
        let (a1, a2) = { let t = tids.lock().unwrap(); (t.get("a1").cloned().unwrap(), t.get("a2").cloned().unwrap()) };
        let mut vars = Vars::new(); vars.set("ecode", "e1");
        let _ = engine.executor().act().error(&id, &a1, &vars); wait().await;
        let s1 = verif_snapshot(&proc);
        let mut v2 = Vars::new(); v2.set("to", "step1");
        let _ = engine.executor().act().back(&id, &a2, &v2); wait().await;
        let s2 = verif_snapshot(&proc); verif_compare(&mut bad, "C", "back(a2 -> step1)", &s1, &s2);
    }
    // ---- scenario D: a lifecycle-hook act (on: completed) is still open beneath its completed step; `back` from it
    {
        let workflow = Workflow::new().with_id("verif_d")
            .with_step(|s| s.with_id("step1").with_act(Act::irq(|a| a.with_key("a1"))))
            .with_step(|s| s.with_id("step2")
                .with_setup(|setup| { use crate::model::StmtBuild; setup.add(Act::irq(|a| a.with_key("h1")).with_on(crate::ActEvent::Completed)) })
                .with_act(Act::irq(|a| a.with_key("a2"))))
            .with_step(|s| s.with_id("step3").with_act(Act::irq(|a| a.with_key("a3"))));
        let config = ConfigData { keep_processes: Some(true), ..ConfigData::default() };
        let id = utils::longid();
        let (engine, proc, _sig) = create_proc_signal_config::<Vec<String>>(&config, &workflow, &id).await;
        let tids = Arc::new(Mutex::new(std::collections::HashMap::<String, String>::new()));
        let t1 = tids.clone();
        engine.channel().on_message(move |e| {
            if e.is_irq() && e.is_state(MessageState::Created) { t1.lock().unwrap().insert(e.key.clone(), e.tid.clone()); }
        });
        engine.runtime().launch(&proc);
        wait().await;
        let get = |k: &str| tids.lock().unwrap().get(k).cloned();
        let _ = engine.executor().act().complete(&id, &get("a1").unwrap(), &Vars::new()); wait().await;
        let _ = engine.executor().act().complete(&id, &get("a2").unwrap(), &Vars::new()); wait().await;
        match get("h1") {
            Some(h1) => {
                let s1 = verif_snapshot(&proc);
                let mut v = Vars::new(); v.set("to", "step1");
                let r = engine.executor().act().back(&id, &h1, &v); wait().await;
                let s2 = verif_snapshot(&proc); verif_compare(&mut bad, "D", &format!("back(h1 -> step1) = {r:?}"), &s1, &s2);
            }
            None => println!("scenario D: hook act h1 was not created; tree=\n{}", proc.tree_output()),
        }
    }
    // ---- scenario E (C05): a rejected action changes no task (back to an unknown step, back without target, error without code,
    //      complete aimed at a step, action on an unknown task)
    {
        let (engine, proc, id, tids, _sig) = verif_two_branch_proc("verif_e").await;
        let a1 = { let t = tids.lock().unwrap(); t.get("a1").cloned().unwrap() };
        let step_tid = proc.task_by_nid("s1").first().map(|t| t.id.clone()).unwrap_or_default();
        let mut to_nowhere = Vars::new(); to_nowhere.set("to", "no_such_step");
        let attempts: Vec<(&str, Box<dyn Fn() -> crate::Result<()>>)> = vec![
            ("back(a1 -> no_such_step)", Box::new(|| engine.executor().act().back(&id, &a1, &to_nowhere))),
            ("back(a1) without a target", Box::new(|| engine.executor().act().back(&id, &a1, &Vars::new()))),
            ("error(a1) without an error code", Box::new(|| engine.executor().act().error(&id, &a1, &Vars::new()))),
            ("complete aimed at the step s1", Box::new(|| engine.executor().act().complete(&id, &step_tid, &Vars::new()))),
            ("complete aimed at an unknown task", Box::new(|| engine.executor().act().complete(&id, "no_such_task", &Vars::new()))),
        ];
        for (what, f) in attempts.iter() {
            let s0 = verif_snapshot(&proc);
            let r = f(); wait().await;
            let s1 = verif_snapshot(&proc);
            if r.is_ok() { bad.push(format!("REPLAY-FAIL [E] {what} was accepted")); }
            let mut changed: Vec<String> = Vec::new();
            for (tid, (nid, st0)) in s0.iter() { match s1.get(tid) { Some((_, st1)) if st1 == st0 => {}, other => changed.push(format!("{nid}: {st0} -> {:?}", other.map(|o| o.1.clone()))) } }
            for (tid, (nid, st1)) in s1.iter() { if !s0.contains_key(tid) { changed.push(format!("{nid}: new task in state {st1}")); } }
            if r.is_err() && !changed.is_empty() { bad.push(format!("REPLAY-FAIL [E] {what} was rejected but changed tasks: {}", changed.join(", "))); }
        }
    }
    // ---- scenario F: step1's act is completed; in step2 one act is skipped by the client while a further act waits behind it; a cancel aimed at step1's
    //      act undoes step2: whatever it does to the OPEN tasks, a task that already ended (the skipped act) keeps its state
    {
        let workflow = Workflow::new().with_id("verif_f")
            .with_step(|s| s.with_id("step1").with_act(Act::irq(|a| a.with_key("f1"))))
            .with_step(|s| s.with_id("step2").with_act(Act::irq(|a| a.with_key("f2"))).with_act(Act::irq(|a| a.with_key("f3"))));
        let config = ConfigData { keep_processes: Some(true), ..ConfigData::default() };
        let id = utils::longid();
        let (engine, proc, _sig) = create_proc_signal_config::<Vec<String>>(&config, &workflow, &id).await;
        let tids = Arc::new(Mutex::new(std::collections::HashMap::<String, String>::new()));
        let t1 = tids.clone();
        engine.channel().on_message(move |e| { if e.is_irq() && e.is_state(MessageState::Created) { t1.lock().unwrap().insert(e.key.clone(), e.tid.clone()); } });
        engine.runtime().launch(&proc);
        wait().await;
        let f1 = tids.lock().unwrap().get("f1").cloned();
        if let Some(f1) = f1 {
            let _ = engine.executor().act().complete(&id, &f1, &Vars::new()); wait().await;
            let f2 = tids.lock().unwrap().get("f2").cloned();
            if let Some(f2) = f2 {
                let _ = engine.executor().act().skip(&id, &f2, &Vars::new()); wait().await;
                let s0 = verif_snapshot(&proc);
                let _ = engine.executor().act().cancel(&id, &f1, &Vars::new()); wait().await;
                let s1 = verif_snapshot(&proc);
                verif_compare(&mut bad, "F", "cancel(f1) over a step with a skipped act", &s0, &s1);
            } else { bad.push("REPLAY-FAIL [F] setup: act f2 did not open".to_string()); }
        } else { bad.push("REPLAY-FAIL [F] setup: act f1 did not open".to_string()); }
    }
    // ---- scenario G (C03: exactly one terminal event): abort a1 ends the process as aborted; the act a2 of the sibling branch is still open beneath it --
    //      a second abort aimed at a2, whether it is accepted or refused, must not end the process a second time or move a task that has ended
    {
        let (engine, proc, id, tids, _sig) = verif_two_branch_proc("verif_g").await;
        let (a1, a2) = { let t = tids.lock().unwrap(); (t.get("a1").cloned().unwrap(), t.get("a2").cloned().unwrap()) };
        let ends = Arc::new(Mutex::new(Vec::<String>::new()));
        let (e1, e2) = (ends.clone(), ends.clone());
        engine.channel().on_complete(move |e| e1.lock().unwrap().push(format!("complete:{}", e.inner().state)));
        engine.channel().on_error(move |e| e2.lock().unwrap().push(format!("error:{}", e.inner().state)));
        let _ = engine.executor().act().abort(&id, &a1, &Vars::new()); wait().await;
        let s1 = verif_snapshot(&proc);
        let n1 = ends.lock().unwrap().len();
        let _ = engine.executor().act().abort(&id, &a2, &Vars::new()); wait().await;
        let s2 = verif_snapshot(&proc); verif_compare(&mut bad, "G", "second abort (a2) under an aborted process", &s1, &s2);
        let evs = ends.lock().unwrap().clone();
        if n1 != 1 || evs.len() != 1 { bad.push(format!("REPLAY-FAIL [G] terminal process events after abort(a1): {n1}, after the second abort(a2): {} {evs:?}; exactly one expected", evs.len())); }
    }
    for b in bad.iter() { println!("{b}"); }
    assert!(bad.is_empty(), "{} lifecycle violation(s)", bad.len());
}
