// bounded stand-in / replay driver (appended to acts/src/scheduler/tests/message.rs of a scratch copy): property C05, the admission table.
// "A client action is accepted only if it names an existing task of a live process, the task kind fits the action (acts for everything except
// push, steps for push), the act is still open for terminal actions, and all declared outputs are supplied; a rejected complete, submit, skip,
// remove, abort, error or back changes no task, emits no message and returns an error."
// A fresh process per case waits at act `a` that declares the outputs {x: null, y: 5, z: "{{ 1 + 1 }}"} (an open one, one with a value, one with an
// expression).  Cases: 7 actions x every subset of the declared outputs supplied (+ the action's own parameters), each on the OPEN act and on the
// act after it was completed; the same actions aimed at the step, at an unknown task and at an unknown process; push aimed at the act.
// Oracle: accepted => (act open for the action, kind fits, EVERY declared output supplied); rejected => no task changed state, no message.
#[tokio::test]
async fn verif_replay_hist_admission() {
    use crate::{Action, TaskState, event::EventAction};
    use std::sync::{Arc, Mutex};
    let mut bad: Vec<String> = Vec::new();
    let events = [EventAction::Next, EventAction::Submit, EventAction::Skip, EventAction::Remove, EventAction::Abort, EventAction::Error, EventAction::Back];
    let declared = ["x", "y", "z"];
    #[derive(Clone, Copy, Debug, PartialEq)]
    enum Target { OpenAct, ClosedAct, Step, UnknownTask, UnknownProc }
    for target in [Target::OpenAct, Target::ClosedAct, Target::Step, Target::UnknownTask, Target::UnknownProc] {
        for ev in events.iter() {
            for mask in 0..8u32 {
                if target != Target::OpenAct && mask != 7 && mask != 0 { continue; }
                let mut workflow = Workflow::new()
                    .with_step(|s| s.with_id("step0").with_act(Act::irq(|a| a.with_key("first")).with_id("first")))
                    .with_step(|s| s.with_id("step1").with_act(Act::irq(|a| a.with_key("a")).with_id("a").with_output("x", json!(null)).with_output("y", json!(5)).with_output("z", json!("{{ 1 + 1 }}"))))
                    .with_step(|s| s.with_id("step2").with_act(Act::irq(|a| a.with_key("last")).with_id("last")));
                let pid = utils::longid();
                let (proc, rt, emitter, _tx, _rx) = create_proc_signal::<()>(&mut workflow, &pid);
                let msgs: Arc<Mutex<usize>> = Arc::new(Mutex::new(0));
                let m2 = msgs.clone();
                emitter.on_message(move |_| { *m2.lock().unwrap() += 1; });
                rt.launch(&proc);
                let wait_open = |key: &'static str| { let p = proc.clone(); async move { for _ in 0..200 { if p.task_by_nid(key).first().map(|t| t.state() == TaskState::Interrupt).unwrap_or(false) { return true; } tokio::time::sleep(std::time::Duration::from_millis(10)).await; } false } };
                if !wait_open("first").await { bad.push("REPLAY-FAIL setup: act `first` did not open".into()); continue; }
                let first = proc.task_by_nid("first")[0].clone();
                rt.do_action(&Action::new(&pid, &first.id, EventAction::Next, &Vars::new())).unwrap();
                if !wait_open("a").await { bad.push("REPLAY-FAIL setup: act `a` did not open".into()); continue; }
                let a = proc.task_by_nid("a")[0].clone();
                let all = Vars::new().with("x", 1).with("y", 2).with("z", 3);
                if target == Target::ClosedAct {
                    rt.do_action(&Action::new(&pid, &a.id, EventAction::Next, &all)).unwrap();
                    if !wait_open("last").await { bad.push("REPLAY-FAIL setup: act `last` did not open".into()); continue; }
                }
                tokio::time::sleep(std::time::Duration::from_millis(60)).await;
                let mut options = Vars::new();
                for (i, k) in declared.iter().enumerate() { if mask & (1 << i) != 0 { options.set(k, 10 + i as i32); } }
                // the action's own parameters
                if *ev == EventAction::Error { options.set(crate::utils::consts::ACT_ERR_CODE, "e1"); }
                if *ev == EventAction::Back { options.set("to", "step0"); }
                let (tpid, ttid) = match target {
                    Target::OpenAct | Target::ClosedAct => (pid.clone(), a.id.clone()),
                    Target::Step => (pid.clone(), proc.task_by_nid("step1")[0].id.clone()),
                    Target::UnknownTask => (pid.clone(), "no-such-task".to_string()),
                    Target::UnknownProc => ("no-such-process".to_string(), a.id.clone()),
                };
                let before: Vec<(String, TaskState)> = proc.tasks().iter().map(|t| (t.id.clone(), t.state())).collect();
                let msgs_before = *msgs.lock().unwrap();
                let r = rt.do_action(&Action::new(&tpid, &ttid, ev.clone(), &options));
                tokio::time::sleep(std::time::Duration::from_millis(80)).await;
                let what = format!("{} on {target:?} with declared outputs supplied {:?}", ev.as_ref(), declared.iter().enumerate().filter(|(i, _)| mask & (1 << i) != 0).map(|(_, k)| *k).collect::<Vec<_>>());
                let admissible = target == Target::OpenAct && mask == 7;
                if r.is_ok() && !admissible { bad.push(format!("REPLAY-FAIL {what}: accepted, but the action is not admissible")); }
                if r.is_err() && (target == Target::OpenAct) {
                    // C09: "while it is neither acknowledged nor closed by an action on its task it is redelivered": a REFUSED action closes nothing --
                    // the messages of the act that were waiting for an answer are still waiting
                    let closed: Vec<String> = rt.cache().store().messages().query(&crate::store::query::Query::new().push(crate::store::query::Cond::and().push(crate::store::query::Expr::eq("tid", ttid.clone()))).set_limit(100)).map(|p| p.rows).unwrap_or_default()
                        .into_iter().filter(|m| m.pid == tpid && m.status == crate::data::MessageStatus::Completed).map(|m| m.id).collect();
                    if !closed.is_empty() { bad.push(format!("REPLAY-FAIL {what}: rejected, yet {} stored message(s) of the act were closed (they will never be delivered again)", closed.len())); }
                }
                if r.is_err() {
                    let after: Vec<(String, TaskState)> = proc.tasks().iter().map(|t| (t.id.clone(), t.state())).collect();
                    if after != before { bad.push(format!("REPLAY-FAIL {what}: rejected, yet tasks changed: {before:?} -> {after:?}")); }
                    if *msgs.lock().unwrap() != msgs_before { bad.push(format!("REPLAY-FAIL {what}: rejected, yet {} message(s) were emitted", *msgs.lock().unwrap() - msgs_before)); }
                }
            }
        }
    }
    // actions that Task::update itself refuses on an OPEN act (error without a code, back without a target, back to an unknown step): nothing changes,
    // and the stored message of the act stays open (C09: it is redelivered until it is acknowledged or closed by an ACCEPTED action)
    {
        let workflow = Workflow::new().with_step(|s| s.with_id("step1").with_act(Act::irq(|a| a.with_key("a")).with_id("a")));
        let pid = utils::longid();
        // an engine with a channel that asks for acknowledgements (only such a channel stores its messages): the message of the act is never acknowledged
        let engine = crate::Engine::new().start();
        let rt = engine.runtime();
        let chan = engine.channel_with_options(&crate::ChannelOptions { id: "vadm".to_string(), ack: true, ..Default::default() });
        chan.on_message(|_e| {});
        let proc = rt.create_proc(&pid, &workflow);
        rt.launch(&proc);
        for _ in 0..200 { if proc.task_by_nid("a").first().map(|t| t.state() == TaskState::Interrupt).unwrap_or(false) { break; } tokio::time::sleep(std::time::Duration::from_millis(10)).await; }
        tokio::time::sleep(std::time::Duration::from_millis(200)).await;
        if let Some(a) = proc.task_by_nid("a").first() {
            let stored = || rt.cache().store().messages().query(&crate::store::query::Query::new().push(crate::store::query::Cond::and().push(crate::store::query::Expr::eq("tid", a.id.clone()))).set_limit(100)).map(|p| p.rows).unwrap_or_default()
                .into_iter().filter(|m| m.pid == pid).map(|m| format!("{}:{:?}", m.key, m.status)).collect::<Vec<_>>();
            let before_msgs = stored();
            if before_msgs.is_empty() { bad.push("REPLAY-FAIL setup: the message of the open act is not in the store although the channel asks for acknowledgements".into()); }
            for (what, ev, o) in [("error without a code", EventAction::Error, Vars::new()), ("back without a target", EventAction::Back, Vars::new()), ("back to an unknown step", EventAction::Back, Vars::new().with("to", "no-such-step"))] {
                let before: Vec<(String, TaskState)> = proc.tasks().iter().map(|t| (t.id.clone(), t.state())).collect();
                let r = rt.do_action(&Action::new(&pid, &a.id, ev, &o));
                tokio::time::sleep(std::time::Duration::from_millis(80)).await;
                if r.is_ok() { bad.push(format!("REPLAY-FAIL {what} on an open act: accepted")); continue; }
                let after: Vec<(String, TaskState)> = proc.tasks().iter().map(|t| (t.id.clone(), t.state())).collect();
                if after != before { bad.push(format!("REPLAY-FAIL {what} on an open act: rejected, yet tasks changed: {before:?} -> {after:?}")); }
                let now = stored();
                if now != before_msgs { bad.push(format!("REPLAY-FAIL {what} on an open act: rejected, yet the stored messages of the act changed {before_msgs:?} -> {now:?} (a closed message is never delivered again)")); }
            }
        } else { bad.push("REPLAY-FAIL setup: act `a` did not open".into()); }
    }
    // push is for steps: aimed at an act it is refused
    {
        let mut workflow = Workflow::new().with_step(|s| s.with_id("step1").with_act(Act::irq(|a| a.with_key("a")).with_id("a")));
        let pid = utils::longid();
        let (proc, rt, _emitter, _tx, _rx) = create_proc_signal::<()>(&mut workflow, &pid);
        rt.launch(&proc);
        for _ in 0..200 { if !proc.task_by_nid("a").is_empty() { break; } tokio::time::sleep(std::time::Duration::from_millis(10)).await; }
        tokio::time::sleep(std::time::Duration::from_millis(60)).await;
        if let Some(a) = proc.task_by_nid("a").first() {
            let n = proc.tasks().len();
            let r = rt.do_action(&Action::new(&pid, &a.id, EventAction::Push, &Vars::new().with("uses", "acts.core.irq").with("key", "pushed")));
            if r.is_ok() || proc.tasks().len() != n { bad.push("REPLAY-FAIL push aimed at an act was accepted or added a task".into()); }
        }
    }
    for b in bad.iter().take(12) { println!("{b}"); }
    assert!(bad.is_empty(), "{} difference(s)", bad.len());
}
