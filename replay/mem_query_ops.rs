// replay / bounded stand-in driver (appended to acts/src/store/tests/mem.rs of a scratch copy): property C10, comparison operators of the
// in-memory store.  5 models with size 3, 5, 7, 9, 11; every operator (eq, ne, lt, le, gt, ge) against an integer bound (7), a float bound
// (7.5) and a float that is an integer (7.0): the number of records returned must be the number of sizes satisfying the comparison
// numerically (what SQLite answers).
#[tokio::test]
async fn verif_replay_mem_query_ops() {
    let store = MemStore::new();
    let models = store.models();
    let sizes = [3, 5, 7, 9, 11];
    for (i, s) in sizes.iter().enumerate() {
        models.create(&Model { id: format!("m{i}"), name: "n".to_string(), ver: 1, size: *s, create_time: 0, update_time: 0, data: "{}".to_string(), timestamp: 0 }).unwrap();
    }
    let mut bad: Vec<String> = Vec::new();
    for (bname, bound, bjson) in [("7", 7.0f64, json!(7)), ("7.5", 7.5f64, json!(7.5)), ("7.0", 7.0f64, json!(7.0))] {
        for op in ["eq", "ne", "lt", "le", "gt", "ge"] {
            let e = match op { "eq" => Expr::eq("size", bjson.clone()), "ne" => Expr::ne("size", bjson.clone()), "lt" => Expr::lt("size", bjson.clone()),
                "le" => Expr::le("size", bjson.clone()), "gt" => Expr::gt("size", bjson.clone()), _ => Expr::ge("size", bjson.clone()) };
            let want = sizes.iter().filter(|s| { let x = **s as f64; match op { "eq" => x == bound, "ne" => x != bound, "lt" => x < bound, "le" => x <= bound, "gt" => x > bound, _ => x >= bound } }).count();
            match models.query(&Query::new().push(Cond::and().push(e))) {
                Ok(r) => if r.count != want { bad.push(format!("REPLAY-FAIL size {op} {bname} over sizes {sizes:?}: {} record(s) returned, {want} satisfy the comparison", r.count)); },
                Err(err) => bad.push(format!("REPLAY-FAIL size {op} {bname}: query failed: {err}")),
            }
        }
    }
    for b in bad.iter() { println!("{b}"); }
    assert!(bad.is_empty(), "{} comparison(s) wrong", bad.len());
}
