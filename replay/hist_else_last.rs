// replay driver (appended to acts/src/scheduler/tests/task.rs of a scratch copy):
// a branch must not be left pending with nothing able to wake it, whatever the declaration order (properties C01 / C04).
#[tokio::test]
async fn verif_replay_hist_else_last() {
    let mut bad: Vec<String> = Vec::new();
    // (name, builder)
    let shapes: Vec<(&str, Box<dyn Fn() -> Workflow>)> = vec![
        ("else declared first, sibling condition false", Box::new(|| Workflow::new().with_step(|step| step.with_id("step1")
                .with_branch(|b| b.with_id("b2").with_else(true).with_step(|s| s.with_id("s2")))
                .with_branch(|b| b.with_id("b1").with_if("false").with_step(|s| s.with_id("s1")))))),
        ("else declared last, sibling condition false", Box::new(|| Workflow::new().with_step(|step| step.with_id("step1")
                .with_branch(|b| b.with_id("b1").with_if("false").with_step(|s| s.with_id("s1")))
                .with_branch(|b| b.with_id("b2").with_else(true).with_step(|s| s.with_id("s2")))))),
        ("else declared last, sibling condition true and finished at once", Box::new(|| Workflow::new().with_step(|step| step.with_id("step1")
                .with_branch(|b| b.with_id("b1").with_if("true"))
                .with_branch(|b| b.with_id("b2").with_else(true).with_step(|s| s.with_id("s2")))))),
        ("needs-branch declared after the needed sibling, which finished at once", Box::new(|| Workflow::new().with_step(|step| step.with_id("step1")
                .with_branch(|b| b.with_id("b1").with_if("true"))
                .with_branch(|b| b.with_id("b2").with_need("b1").with_step(|s| s.with_id("s2")))))),
        ("needs-branch declared before the needed sibling", Box::new(|| Workflow::new().with_step(|step| step.with_id("step1")
                .with_branch(|b| b.with_id("b2").with_need("b1").with_step(|s| s.with_id("s2")))
                .with_branch(|b| b.with_id("b1").with_if("true"))))),
    ];
    for (name, mk) in shapes.iter() {
        let mut workflow = mk();
        let (proc, scher, _emitter, tx, rx) = crate::scheduler::tests::create_proc_signal::<bool>(&mut workflow, &crate::utils::longid());
        let rx2 = rx.clone();
        scher.launch(&proc);
        tokio::spawn(async move { tokio::time::sleep(std::time::Duration::from_millis(1500)).await; rx2.send(true); });
        let _ = tx.recv().await;
        let b2 = proc.task_by_nid("b2").first().map(|t| t.state());
        if !proc.state().is_completed() {
            bad.push(format!("REPLAY-FAIL {name}: no client action is pending, yet the process is still {} (branch b2 = {:?})", proc.state(), b2));
        }
    }
    for b in bad.iter() { println!("{b}"); }
    assert!(bad.is_empty());
}
