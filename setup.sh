#!/bin/sh
# offline setup: nothing to build for the Verus path (python3 stdlib + verus on PATH); warm Verus once.
set -e
cd "$(dirname "$0")"
mkdir -p build evidence .cache
command -v verus >/dev/null || { echo "verus not on PATH" >&2; exit 1; }
exit 0
