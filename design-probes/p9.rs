use vstd::prelude::*;
verus! {

pub struct Proc {
    pub id: String,
    pub state: String,
    pub mid: String,
    pub name: String,
    pub start_time: i64,
    pub end_time: i64,
    pub timestamp: i64,
    pub model: String,
    pub env: String,
    pub err: Option<String>,
}

#[verifier::external_body]
pub struct Row<'a> { _p: &'a u8 }
pub struct DbError {}
pub type DbResult<T, E> = std::result::Result<T, E>;

pub trait ColType: Sized {}
impl ColType for String {}
impl ColType for i64 {}
impl ColType for Option<String> {}

impl<'a> Row<'a> {
    pub uninterp spec fn col<T>(&self, name: Seq<char>) -> T;

    #[verifier::external_body]
    pub fn get_unwrap<T: ColType>(&self, idx: &str) -> (r: T)
        ensures r == self.col::<T>(idx@)
    { unimplemented!() }
}

pub trait DbRow: Sized {
    spec fn row_spec(row: &Row<'_>) -> Self;
    fn from_row(row: &Row<'_>) -> (ret: DbResult<Self, DbError>)
        ensures ret is Ok, ret->Ok_0 == Self::row_spec(row);
}

impl DbRow for Proc {
    open spec fn row_spec(row: &Row<'_>) -> Self {
        Proc {
            id: row.col("id"@), state: row.col("state"@), mid: row.col("mid"@), name: row.col("name"@),
            start_time: row.col("start_time"@), end_time: row.col("end_time"@), timestamp: row.col("timestamp"@),
            model: row.col("model"@), env: row.col("env"@), err: row.col("err"@),
        }
    }
    fn from_row(row: &Row<'_>) -> (ret: DbResult<Self, DbError>)
    {
        Ok(Self {
            id: row.get_unwrap("id"),
            state: row.get_unwrap("state"),
            mid: row.get_unwrap("mid"),
            name: row.get_unwrap("name"),
            model: row.get_unwrap("model"),
            env: row.get_unwrap("name"),
            err: row.get_unwrap("err"),
            start_time: row.get_unwrap("start_time"),
            end_time: row.get_unwrap("end_time"),
            timestamp: row.get_unwrap("timestamp"),
        })
    }
}
}
fn main() {}
