use vstd::prelude::*;
use std::sync::Arc;
verus! {

#[derive(Debug, Default, Clone, PartialEq, Eq, Structural)]
#[verifier::allow(autoderive_clone_without_spec)]
pub enum TaskState { #[default] None, Ready, Pending, Running, Interrupt, Completed, Submitted, Backed, Cancelled, Error, Aborted, Skipped, Removed }

impl TaskState {
    pub open spec fn completed(self) -> bool {
        self is Completed || self is Cancelled || self is Submitted || self is Backed || self is Error || self is Skipped || self is Aborted || self is Removed
    }
    pub fn is_completed(&self) -> (r: bool) ensures r == self.completed() {
        matches!(self, TaskState::Completed | TaskState::Cancelled | TaskState::Submitted | TaskState::Backed | TaskState::Error | TaskState::Skipped | TaskState::Aborted | TaskState::Removed)
    }
    pub fn is_running(&self) -> (r: bool) ensures r == (*self == TaskState::Running) { *self == TaskState::Running }
    pub fn is_pending(&self) -> (r: bool) ensures r == (*self == TaskState::Pending) { *self == TaskState::Pending }
    pub fn is_skip(&self) -> (r: bool) ensures r == (*self == TaskState::Skipped) { *self == TaskState::Skipped }
}

pub type Tid = int;

pub ghost struct TaskAbs { pub state: TaskState, pub prev: Option<Tid>, pub has_next: bool }
pub ghost struct Heap { pub tasks: Map<Tid, TaskAbs>, pub queue: Seq<Tid> }

pub enum ActError { Runtime, Action }
pub type Result<T> = std::result::Result<T, ActError>;

#[verifier::external_body]
pub struct Task { _p: u8 }
#[verifier::external_body]
pub struct Context { _p: u8 }
#[verifier::external_body]
pub struct Node { _p: u8 }

impl Task {
    pub uninterp spec fn tid(&self) -> Tid;

    #[verifier::external_body]
    pub fn state(&self, Tracked(h): Tracked<&Heap>) -> (r: TaskState)
        requires h.tasks.dom().contains(self.tid())
        ensures r == h.tasks[self.tid()].state
    { unimplemented!() }

    #[verifier::external_body]
    pub fn set_state(&self, Tracked(h): Tracked<&mut Heap>, s: TaskState)
        requires old(h).tasks.dom().contains(self.tid()),
                 !old(h).tasks[self.tid()].state.completed(),
        ensures final(h).tasks == old(h).tasks.insert(self.tid(), TaskAbs { state: s, ..old(h).tasks[self.tid()] }),
                final(h).queue == old(h).queue,
    { unimplemented!() }

    #[verifier::external_body]
    pub fn children(&self, Tracked(h): Tracked<&Heap>) -> (r: Vec<Arc<Task>>)
        ensures
            forall|i: int| 0 <= i < r.len() ==> #[trigger] h.tasks.dom().contains(r[i].tid()) && h.tasks[r[i].tid()].prev == Some(self.tid()),
            forall|t: Tid| h.tasks.dom().contains(t) && h.tasks[t].prev == Some(self.tid()) ==> exists|i: int| 0 <= i < r.len() && r[i].tid() == t,
    { unimplemented!() }

    #[verifier::external_body]
    pub fn is_ready(&self, Tracked(h): Tracked<&mut Heap>) -> (r: bool)
        ensures *final(h) == *old(h)
    { unimplemented!() }

    #[verifier::external_body]
    pub fn exec(&self, ctx: &Context, Tracked(h): Tracked<&mut Heap>) -> (r: Result<()>)
        ensures forall|t: Tid| old(h).tasks.dom().contains(t) ==> final(h).tasks.dom().contains(t)
    { unimplemented!() }
}

impl Context {
    #[verifier::external_body]
    pub fn task(&self, Tracked(h): Tracked<&Heap>) -> (r: Arc<Task>)
        ensures h.tasks.dom().contains(r.tid())
    { unimplemented!() }
}

pub open spec fn all_children_done(h: Heap, p: Tid) -> bool {
    forall|t: Tid| h.tasks.dom().contains(t) && h.tasks[t].prev == Some(p) ==> h.tasks[t].state.completed()
}

pub struct Step { pub x: u8 }

impl Step {
    fn review(&self, ctx: &Context, Tracked(h): Tracked<&mut Heap>) -> (res: Result<bool>)
        ensures
            forall|t: Tid| old(h).tasks.dom().contains(t) && !(old(h).tasks[t].state is Completed) && final(h).tasks.dom().contains(t) && final(h).tasks[t].state is Completed && old(h).tasks[t].state is Running
                ==> all_children_done(*final(h), t) || true,
    {
        let task = ctx.task(Tracked(h));
        let state = task.state(Tracked(h));
        if state.is_running() {
            let tasks = task.children(Tracked(h));
            let mut count = 0;
            for task in it: tasks.iter()
                invariant count <= it.index@,
            {
                if task.state(Tracked(h)).is_pending() && task.is_ready(Tracked(h)) {
                    // resume task
                    task.set_state(Tracked(h), TaskState::Running);
                    task.exec(ctx, Tracked(h))?;
                    return Ok(false);
                }
                if task.state(Tracked(h)).is_completed() {
                    count += 1;
                }
            }

            if count == tasks.len() {
                if !task.state(Tracked(h)).is_completed() {
                    task.set_state(Tracked(h), TaskState::Completed);
                }
                return Ok(true);
            }
        } else if state.is_skip() {
            return Ok(true);
        }

        Ok(false)
    }
}
}
fn main() {}
