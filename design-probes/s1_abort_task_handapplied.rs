use vstd::prelude::*;
use std::sync::Arc;
verus! {

// ---------- extracted verbatim (R1) ----------
#[derive(Clone, PartialEq, Eq, Structural)]
#[verifier::allow(autoderive_clone_without_spec)]
pub enum TaskState { None, Ready, Pending, Running, Interrupt, Completed, Submitted, Backed, Cancelled, Error, Aborted, Skipped, Removed }

impl TaskState {
    pub open spec fn terminal(self) -> bool {
        self is Completed || self is Cancelled || self is Submitted || self is Backed || self is Error || self is Skipped || self is Aborted || self is Removed
    }
    pub open spec fn rank(self) -> int {
        if self is None { 0 } else if self is Ready || self is Pending || self is Interrupt { 1 } else if self is Running { 2 } else { 3 }
    }
    pub fn is_completed(&self) -> (r: bool) ensures r == self.terminal() {
        matches!(
            self,
            TaskState::Completed
                | TaskState::Cancelled
                | TaskState::Submitted
                | TaskState::Backed
                | TaskState::Error
                | TaskState::Skipped
                | TaskState::Aborted
                | TaskState::Removed
        )
    }
    pub fn is_running(&self) -> (r: bool) ensures r == (*self == TaskState::Running) { *self == TaskState::Running }
    pub fn is_pending(&self) -> (r: bool) ensures r == (*self == TaskState::Pending) { *self == TaskState::Pending }
}

#[derive(Clone, PartialEq, Eq, Structural)]
#[verifier::allow(autoderive_clone_without_spec)]
pub enum EventAction { Next, Submit, Back, Cancel, Abort, Skip, Error, Push, Remove, SetProcessVars }

#[derive(PartialEq, Eq, Structural)]
pub enum NodeKind { Workflow, Branch, Step, Act }

pub enum ActError { Runtime(String), Action(String), Store(String) }
pub type Result<T> = std::result::Result<T, ActError>;
pub struct Error { pub ecode: String, pub message: String }
impl Error {
    #[verifier::external_body]
    pub fn new(message: &str, ecode: &str) -> (r: Self) ensures r.ecode@ == ecode@, r.message@ == message@ { unimplemented!() }
}
pub mod consts {
    pub const ACT_ERR_MESSAGE: &'static str = "message";
    pub const ACT_ERR_CODE: &'static str = "ecode";
}

// ---------- prelude: ghost heap + primitive layer ----------
pub type Tid = int;
pub ghost struct TaskAbs { pub state: TaskState, pub prev: Option<Tid>, pub level: nat, pub kind: NodeKind }
pub ghost struct Heap { pub tasks: Map<Tid, TaskAbs>, pub cur: Tid, pub events: Seq<(Tid, TaskState)> }

pub open spec fn legal(a: TaskState, b: TaskState) -> bool { !a.terminal() && a.rank() <= b.rank() }
pub open spec fn fwd(a: Heap, b: Heap) -> bool {
    forall|t: Tid| #![auto] a.tasks.dom().contains(t) ==> b.tasks.dom().contains(t)
        && (b.tasks[t].state == a.tasks[t].state || legal(a.tasks[t].state, b.tasks[t].state))
        && b.tasks[t].prev == a.tasks[t].prev && b.tasks[t].level == a.tasks[t].level
}
pub open spec fn wf(h: Heap) -> bool {
    h.tasks.dom().contains(h.cur)
}
pub open spec fn same_but(a: Heap, b: Heap, t: Tid) -> bool {
    b.tasks.dom() =~= a.tasks.dom() && forall|u: Tid| #![auto] a.tasks.dom().contains(u) && u != t ==> b.tasks[u] == a.tasks[u]
}
pub proof fn fwd_refl(a: Heap) ensures fwd(a, a) {}
pub proof fn fwd_trans(a: Heap, b: Heap, c: Heap) requires fwd(a, b), fwd(b, c) ensures fwd(a, c) {}


#[verifier::external_body] pub struct Vars { _p: u8 }
#[verifier::external_body] pub struct Action { pub pid: String, pub tid: String, pub event: EventAction }
pub struct Node { pub id: String, pub level: usize }
pub struct Task { pub pid: String, pub id: String, pub node: Arc<Node> }
#[verifier::external_body] pub struct Context { _p: u8 }

#[verifier::external_body] pub fn fmt_opaque() -> String { unimplemented!() }

impl Task {
    pub uninterp spec fn tid(&self) -> Tid;

    #[verifier::external_body]
    pub fn state(&self, Tracked(h): Tracked<&Heap>) -> (r: TaskState)
        requires h.tasks.dom().contains(self.tid())
        ensures r == h.tasks[self.tid()].state { unimplemented!() }

    #[verifier::external_body]
    pub fn set_state(&self, state: TaskState, Tracked(h): Tracked<&mut Heap>)
        requires old(h).tasks.dom().contains(self.tid()), legal(old(h).tasks[self.tid()].state, state),
        ensures final(h).tasks == old(h).tasks.insert(self.tid(), TaskAbs { state, ..old(h).tasks[self.tid()] }),
                final(h).cur == old(h).cur, final(h).events == old(h).events,
                fwd(*old(h), *final(h)),
                forall|x: Heap| fwd(x, *old(h)) ==> fwd(x, *final(h)),
    { unimplemented!() }

    #[verifier::external_body]
    pub fn set_data(&self, vars: &Vars, Tracked(h): Tracked<&mut Heap>) ensures *final(h) == *old(h) { unimplemented!() }

    #[verifier::external_body]
    pub fn siblings(&self, Tracked(h): Tracked<&Heap>) -> (r: Vec<Arc<Task>>)
        ensures forall|i: int| 0 <= i < r.len() ==> #[trigger] h.tasks.dom().contains(r[i].tid()) && r[i].tid() != self.tid()
    { unimplemented!() }

    #[verifier::external_body]
    pub fn children(&self, Tracked(h): Tracked<&Heap>) -> (r: Vec<Arc<Task>>)
        ensures forall|i: int| 0 <= i < r.len() ==> #[trigger] h.tasks.dom().contains(r[i].tid())
    { unimplemented!() }

    #[verifier::external_body]
    pub fn parent(&self, Tracked(h): Tracked<&Heap>) -> (r: Option<Arc<Task>>)
        requires h.tasks.dom().contains(self.tid())
        ensures r is Some ==> h.tasks.dom().contains(r->Some_0.tid()) && h.tasks[r->Some_0.tid()].level < h.tasks[self.tid()].level
    { unimplemented!() }
}

impl Context {
    #[verifier::external_body]
    pub fn task(&self, Tracked(h): Tracked<&Heap>) -> (r: Arc<Task>) ensures r.tid() == h.cur { unimplemented!() }
    #[verifier::external_body]
    pub fn set_task(&self, t: &Arc<Task>, Tracked(h): Tracked<&mut Heap>)
        ensures final(h).cur == t.tid(), final(h).tasks == old(h).tasks, final(h).events == old(h).events,
                forall|x: Heap| fwd(x, *old(h)) ==> fwd(x, *final(h)), { unimplemented!() }
    #[verifier::external_body]
    pub fn vars(&self, Tracked(h): Tracked<&Heap>) -> (r: Vars) { unimplemented!() }
    #[verifier::external_body]
    pub fn get_var_string(&self, name: &str, Tracked(h): Tracked<&Heap>) -> (r: Option<String>) { unimplemented!() }

    #[verifier::external_body]
    pub fn emit_task(&self, task: &Arc<Task>, Tracked(h): Tracked<&mut Heap>) -> (r: Result<()>)
        requires old(h).tasks.dom().contains(task.tid())
        ensures final(h).tasks == old(h).tasks, final(h).cur == old(h).cur,
                final(h).events == old(h).events.push((task.tid(), old(h).tasks[task.tid()].state)),
                forall|x: Heap| fwd(x, *old(h)) ==> fwd(x, *final(h)),
    { unimplemented!() }

    // ---------- extracted: Context::abort_task (context.rs 327-362), R4 R5 applied by hand ----------
    pub fn abort_task(&self, task: &Arc<Task>, Tracked(h): Tracked<&mut Heap>) -> (ret: Result<()>)
        requires old(h).tasks.dom().contains(task.tid()), !old(h).tasks[task.tid()].state.terminal(),
        ensures fwd(*old(h), *final(h)),
    {
        // abort all task's acts
        let __tmp1 = task.siblings(Tracked(h));
        let mut __i1: usize = 0;
        while __i1 < __tmp1.len()
            invariant fwd(*old(h), *h), __i1 <= __tmp1.len(), h.tasks.dom().contains(task.tid()),
                h.tasks[task.tid()].state == old(h).tasks[task.tid()].state,
                forall|i: int| 0 <= i < __tmp1.len() ==> #[trigger] h.tasks.dom().contains(__tmp1[i].tid()) && __tmp1[i].tid() != task.tid(),
            decreases __tmp1.len() - __i1,
        {
            let task = &__tmp1[__i1];
            __i1 += 1;
            if task.state(Tracked(h)).is_completed() {
                continue;
            }
            task.set_state(TaskState::Skipped, Tracked(h));
            self.emit_task(task, Tracked(h))?;
        }

        task.set_state(TaskState::Aborted, Tracked(h));
        task.set_data(&self.vars(Tracked(h)), Tracked(h));
        self.emit_task(task, Tracked(h))?;

        // abort all running task
        let ctx = self;
        let mut parent = task.parent(Tracked(h));
        while let Some(task) = parent
            invariant fwd(*old(h), *h), parent is Some ==> h.tasks.dom().contains(parent->Some_0.tid()),
            decreases (match parent { Some(p) => h.tasks[p.tid()].level + 1, None => 0 }),
        {
            task.set_state(TaskState::Aborted, Tracked(h));
            ctx.set_task(&task, Tracked(h));
            ctx.emit_task(&ctx.task(Tracked(h)), Tracked(h))?;

            let __tmp2 = task.children(Tracked(h));
            for t in it2: __tmp2.iter()
                invariant fwd(*old(h), *h), h.tasks.dom().contains(task.tid()),
                    forall|i: int| 0 <= i < __tmp2.len() ==> #[trigger] h.tasks.dom().contains(__tmp2[i].tid()),
                    h.tasks[task.tid()].level == old(h).tasks[task.tid()].level,
            {
                if t.state(Tracked(h)).is_pending() {
                    t.set_state(TaskState::Skipped, Tracked(h));
                    ctx.emit_task(t, Tracked(h))?;
                } else if t.state(Tracked(h)).is_running() {
                    t.set_state(TaskState::Aborted, Tracked(h));
                    ctx.emit_task(t, Tracked(h))?;
                }
            }

            parent = task.parent(Tracked(h));
        }
        Ok(())
    }
}
}
fn main() {}
