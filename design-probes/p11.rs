use vstd::prelude::*;
verus! {
pub struct Catch { pub on: Option<String> }
pub struct Error { pub ecode: String, pub message: String }
pub enum ActError { Action(String) }

fn matches_catch(c: &Catch, err: &Error) -> (r: bool)
    ensures r == (c.on is None || err.ecode@ == c.on->Some_0@)
{
    c.on.is_none() || &err.ecode == c.on.as_ref().unwrap()
}

fn okor(x: Option<String>) -> (r: Result<String, ActError>)
    ensures x is Some ==> r is Ok
{
    let v = x.ok_or(ActError::Action("cannot find".to_string()))?;
    Ok(v)
}

fn cmp_lit(fmt: &str) -> (r: bool) ensures r == (fmt@ == "tree"@) {
    fmt == "tree"
}
}
fn main() {}
