use vstd::prelude::*;
verus! {
#[derive(Clone, Copy, PartialEq, Eq, Structural)]
pub enum MessageStatus { Created, Acked, Completed, Error }

#[derive(Clone)]
pub struct Message { pub id: u64, pub retry_times: i32, pub status: MessageStatus, pub update_time: i64 }

pub ghost struct Tbl { pub rows: Map<u64, Message> }

#[verifier::external_body] pub struct Coll { _p: u8 }
impl Coll {
    #[verifier::external_body]
    pub fn query_stale(&self, now: i64, timeout: i64, Tracked(t): Tracked<&Tbl>) -> (r: Vec<Message>)
        ensures forall|i: int| #![trigger r[i]] 0 <= i < r.len() ==> t.rows.dom().contains(r[i].id) && t.rows[r[i].id] == r[i]
            && r[i].status == MessageStatus::Created && r[i].update_time < now - timeout,
            forall|i: int, j: int| 0 <= i < j < r.len() ==> r[i].id != r[j].id,
    { unimplemented!() }
    #[verifier::external_body]
    pub fn update(&self, m: &Message, Tracked(t): Tracked<&mut Tbl>) -> (r: bool)
        ensures final(t).rows == (if old(t).rows.dom().contains(m.id) { old(t).rows.insert(m.id, *m) } else { old(t).rows })
    { unimplemented!() }
}

pub open spec fn deliverable(t0: Tbl, m: Message, max: i32) -> bool {
    t0.rows.dom().contains(m.id) && t0.rows[m.id].status == MessageStatus::Created
    && m.retry_times == t0.rows[m.id].retry_times + 1 && m.retry_times <= max
}

fn tick<F: Fn(&Message)>(c: &Coll, now: i64, timeout: i64, max: i32, f: F, Tracked(t): Tracked<&mut Tbl>)
    requires
        forall|m: &Message| deliverable(*old(t), *m, max) ==> #[trigger] f.requires((m,)),
        now - timeout >= i64::MIN, now - timeout <= i64::MAX,
    ensures
        final(t).rows.dom() =~= old(t).rows.dom(),
        forall|id: u64| #![auto] old(t).rows.dom().contains(id) && old(t).rows[id].status != MessageStatus::Created ==> final(t).rows[id] == old(t).rows[id],
{
    let rows = c.query_stale(now, timeout, Tracked(t));
    let mut i: usize = 0;
    while i < rows.len()
        invariant
            i <= rows.len(),
            t.rows.dom() =~= old(t).rows.dom(),
            forall|m: &Message| deliverable(*old(t), *m, max) ==> #[trigger] f.requires((m,)),
            forall|k: int| #![trigger rows[k]] 0 <= k < rows.len() ==> old(t).rows.dom().contains(rows[k].id) && old(t).rows[rows[k].id] == rows[k] && rows[k].status == MessageStatus::Created,
            forall|k: int, j: int| 0 <= k < j < rows.len() ==> rows[k].id != rows[j].id,
            forall|id: u64| #![auto] old(t).rows.dom().contains(id) && old(t).rows[id].status != MessageStatus::Created ==> t.rows[id] == old(t).rows[id],
        decreases rows.len() - i,
    {
        let m = &rows[i];
        i += 1;
        let mut message = Message { id: m.id, retry_times: m.retry_times, status: m.status, update_time: now };
        if message.retry_times < max {
            message.retry_times += 1;
            let _ = c.update(&message, Tracked(t));
            f(&message);
        } else {
            message.status = MessageStatus::Error;
            let _ = c.update(&message, Tracked(t));
        }
    }
}
}
fn main() {}
