use vstd::prelude::*;
verus! {

#[derive(Debug, Default, Clone, PartialEq, Eq, Structural)]
pub enum TaskState {
    #[default]
    None,
    Ready,
    Pending,
    Running,
    Interrupt,
    Completed,
    Submitted,
    Backed,
    Cancelled,
    Error,
    Aborted,
    Skipped,
    Removed,
}

impl TaskState {
    pub fn is_none(&self) -> (r: bool)
        ensures r == (*self == TaskState::None)
    {
        *self == TaskState::None
    }

    pub fn is_created(&self) -> (r: bool)
        ensures r == (*self is Ready || *self is Interrupt || *self is Pending)
    {
        matches!(
            self,
            TaskState::Ready | TaskState::Interrupt | TaskState::Pending
        )
    }
    pub fn is_skip(&self) -> bool {
        *self == TaskState::Skipped
    }
    pub fn is_running(&self) -> bool {
        *self == TaskState::Running
    }
    pub fn is_next(&self) -> bool {
        self.is_skip() || self.is_running() 
    }
}
}
fn main() {}
