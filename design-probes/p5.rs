use vstd::prelude::*;
use std::sync::Arc;
verus! {

#[derive(Debug, Default, Clone, PartialEq, Eq, Structural)]
#[verifier::allow(autoderive_clone_without_spec)]
pub enum TaskState { #[default] None, Ready, Pending, Running, Completed, Skipped }

impl TaskState {
    pub open spec fn completed(self) -> bool { self is Completed || self is Skipped }
    pub fn is_completed(&self) -> (r: bool) ensures r == self.completed() {
        matches!(self, TaskState::Completed | TaskState::Skipped)
    }
    pub fn is_none(&self) -> (r: bool) ensures r == (*self == TaskState::None) { *self == TaskState::None }
}

pub type Tid = int;
pub ghost struct TaskAbs { pub state: TaskState }
pub ghost struct Heap { pub tasks: Map<Tid, TaskAbs>, pub cur: Tid }

pub open spec fn fwd(a: Heap, b: Heap) -> bool {
    forall|t: Tid| #[trigger] a.tasks.dom().contains(t) ==> b.tasks.dom().contains(t) && (a.tasks[t].state.completed() ==> b.tasks[t].state == a.tasks[t].state)
}

pub enum ActError { Runtime(String), Action(String) }
pub type Result<T> = std::result::Result<T, ActError>;

pub struct Workflow { pub id: String }
pub struct Step { pub id: String }
pub enum NodeContent { Workflow(Workflow), Step(Step) }
pub struct Node { pub id: String, pub content: NodeContent, pub level: usize }

#[verifier::external_body]
pub struct Task { pub pid: String, pub id: String, node: Arc<Node> }
#[verifier::external_body]
pub struct Context { _p: u8 }

#[verifier::external_body]
pub fn fmt_opaque() -> String { unimplemented!() }

pub trait ActTask {
    fn init(&self, ctx: &Context, Tracked(h): Tracked<&mut Heap>) -> (r: Result<()>)
        ensures fwd(*old(h), *final(h));
}

impl Task {
    pub uninterp spec fn tid(&self) -> Tid;
    pub uninterp spec fn node_spec(&self) -> Arc<Node>;

    #[verifier::external_body]
    pub fn node(&self) -> (r: &Arc<Node>) ensures *r == self.node_spec() { &self.node }

    #[verifier::external_body]
    pub fn state(&self, Tracked(h): Tracked<&Heap>) -> (r: TaskState)
        ensures h.tasks.dom().contains(self.tid()), r == h.tasks[self.tid()].state
    { unimplemented!() }

    #[verifier::external_body]
    pub fn set_state(&self, s: TaskState, Tracked(h): Tracked<&mut Heap>)
        requires !old(h).tasks[self.tid()].state.completed(),
        ensures final(h).tasks == old(h).tasks.insert(self.tid(), TaskAbs { state: s }), final(h).cur == old(h).cur,
                old(h).tasks.dom().contains(self.tid())
    { unimplemented!() }

    pub fn exec(self: &Arc<Self>, ctx: &Context, Tracked(h): Tracked<&mut Heap>) -> (r: Result<()>)
        ensures fwd(*old(h), *final(h))
    {
        if self.state(Tracked(h)).is_completed() {
            return Err(ActError::Runtime(fmt_opaque()));
        }
        self.init(ctx, Tracked(h))?;
        Ok(())
    }
}

impl Context {
    #[verifier::external_body]
    pub fn task(&self, Tracked(h): Tracked<&Heap>) -> (r: Arc<Task>)
        ensures r.tid() == h.cur, h.tasks.dom().contains(h.cur)
    { unimplemented!() }
    #[verifier::external_body]
    pub fn set_task(&self, t: &Arc<Task>, Tracked(h): Tracked<&mut Heap>)
        ensures final(h).cur == t.tid(), final(h).tasks == old(h).tasks
    { unimplemented!() }
}

impl ActTask for Workflow {
    fn init(&self, ctx: &Context, Tracked(h): Tracked<&mut Heap>) -> (r: Result<()>) { Ok(()) }
}
impl ActTask for Step {
    fn init(&self, ctx: &Context, Tracked(h): Tracked<&mut Heap>) -> (r: Result<()>) { Ok(()) }
}

impl ActTask for Arc<Task> {
    fn init(&self, ctx: &Context, Tracked(h): Tracked<&mut Heap>) -> (r: Result<()>) {
        ctx.set_task(self, Tracked(h));
        if ctx.task(Tracked(h)).state(Tracked(h)).is_none() {
            ctx.task(Tracked(h)).set_state(TaskState::Ready, Tracked(h));
            match &self.node().content {
                NodeContent::Workflow(workflow) => workflow.init(ctx, Tracked(h))?,
                NodeContent::Step(step) => step.init(ctx, Tracked(h))?,
            }
        }
        Ok(())
    }
}
}
fn main() {}
