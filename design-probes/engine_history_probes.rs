// Engine-level probes run once during design (round 0) in a scratch copy of /repo,
// appended to acts/src/scheduler/tests/{step/timeout.rs,task.rs,message.rs}; NOT part of the machinery.
// They are the seeds for the hand-built witness histories of known findings (DESIGN 4.6/4.7).
// Observed output is recorded in DESIGN.md section 8.

// ---- appended to acts/src/scheduler/tests/step/timeout.rs
#[tokio::test]
async fn probe_timeout_after_step_completed() {
    // step1 has a 1s timeout and one irq act that is completed immediately;
    // step2 keeps the process running with another irq. Does the timeout step still fire?
    let mut workflow = Workflow::new()
        .with_step(|step| {
            step.with_id("step1")
                .with_timeout(|t| {
                    t.with_on("1s").with_step(|step| {
                        step.with_id("step_t")
                            .with_act(Act::msg(|msg| msg.with_key("tmo")))
                    })
                })
                .with_act(Act::irq(|act| act.with_key("act1")))
        })
        .with_step(|step| step.with_id("step2").with_act(Act::irq(|act| act.with_key("act2"))));
    let (proc, scher, emitter, tx, rx) =
        create_proc_signal::<Vec<String>>(&mut workflow, &utils::longid());
    let rx2 = rx.clone();
    emitter.on_message(move |e| {
        if e.is_key("act1") && e.is_state(crate::MessageState::Created) {
            e.do_action(&e.pid, &e.tid, crate::event::EventAction::Next, &crate::Vars::new()).unwrap();
            rx.update(|d| d.push("act1-completed".to_string()));
        }
        if e.is_key("tmo") {
            rx.update(|d| d.push("TIMEOUT-FIRED".to_string()));
        }
    });
    scher.launch(&proc);
    tokio::spawn(async move {
        tokio::time::sleep(std::time::Duration::from_millis(3500)).await;
        rx2.close();
    });
    let ret = tx.recv().await;
    let st = proc.task_by_nid("step1").first().map(|t| t.state().to_string());
    println!("PROBE-C19 log={:?} step1_state={:?}", ret, st);
}

// ---- appended to acts/src/scheduler/tests/task.rs
#[tokio::test]
async fn probe_else_branch_last() {
    let mut workflow = Workflow::new()
        .with_step(|step| {
            step.with_id("step1")
                .with_branch(|b| b.with_id("b1").with_if("false").with_step(|s| s.with_id("s1")))
                .with_branch(|b| b.with_id("b2").with_else(true).with_step(|s| s.with_id("s2")))
        })
        .with_step(|step| step.with_id("final"));
    let (proc, scher, _emitter, tx, rx) =
        crate::scheduler::tests::create_proc_signal::<bool>(&mut workflow, &crate::utils::longid());
    let rx2 = rx.clone();
    scher.launch(&proc);
    tokio::spawn(async move {
        tokio::time::sleep(std::time::Duration::from_millis(2500)).await;
        rx2.send(true);
    });
    let timed_out = tx.recv().await;
    println!("PROBE-C01 else-last: timed_out={} proc_state={} tree=\n{}", timed_out, proc.state(), proc.tree_output());
}

#[tokio::test]
async fn probe_else_branch_first() {
    let mut workflow = Workflow::new()
        .with_step(|step| {
            step.with_id("step1")
                .with_branch(|b| b.with_id("b2").with_else(true).with_step(|s| s.with_id("s2")))
                .with_branch(|b| b.with_id("b1").with_if("false").with_step(|s| s.with_id("s1")))
        })
        .with_step(|step| step.with_id("final"));
    let (proc, scher, _emitter, tx, rx) =
        crate::scheduler::tests::create_proc_signal::<bool>(&mut workflow, &crate::utils::longid());
    let rx2 = rx.clone();
    scher.launch(&proc);
    tokio::spawn(async move {
        tokio::time::sleep(std::time::Duration::from_millis(2500)).await;
        rx2.send(true);
    });
    let timed_out = tx.recv().await;
    println!("PROBE-C01 else-first: timed_out={} proc_state={} tree=\n{}", timed_out, proc.state(), proc.tree_output());
}

// ---- appended to acts/src/scheduler/tests/message.rs
#[tokio::test]
async fn probe_abort_after_sibling_error_keep_processes() {
    use crate::event::EventAction;
    let workflow = Workflow::new().with_id("m_abort").with_step(|step| {
        step.with_id("step1")
            .with_branch(|b| {
                b.with_id("b1").with_if("true").with_step(|s| {
                    s.with_id("s1").with_act(Act::irq(|a| a.with_key("a1")))
                })
            })
            .with_branch(|b| {
                b.with_id("b2").with_if("true").with_step(|s| {
                    s.with_id("s2").with_act(Act::irq(|a| a.with_key("a2")))
                })
            })
    });
    let config = ConfigData { keep_processes: Some(true), ..ConfigData::default() };
    let id = utils::longid();
    let (engine, proc, sig) = create_proc_signal_config::<Vec<String>>(&config, &workflow, &id).await;
    let log = std::sync::Arc::new(std::sync::Mutex::new(Vec::<String>::new()));
    let tids = std::sync::Arc::new(std::sync::Mutex::new(std::collections::HashMap::<String, String>::new()));
    let (l1, l2, l3) = (log.clone(), log.clone(), log.clone());
    let t1 = tids.clone();
    engine.channel().on_message(move |e| {
        if e.is_irq() && e.is_state(MessageState::Created) {
            t1.lock().unwrap().insert(e.key.clone(), e.tid.clone());
        }
        l1.lock().unwrap().push(format!("msg {} {} {}", e.r#type, e.key, e.state));
    });
    engine.channel().on_error(move |e| l2.lock().unwrap().push(format!("EVENT error state={}", e.state)));
    engine.channel().on_complete(move |e| l3.lock().unwrap().push(format!("EVENT complete state={}", e.state)));
    engine.runtime().launch(&proc);
    tokio::time::sleep(std::time::Duration::from_millis(600)).await;
    let (a1, a2) = { let t = tids.lock().unwrap(); (t.get("a1").cloned(), t.get("a2").cloned()) };
    println!("PROBE-ABORT tids a1={:?} a2={:?}", a1, a2);
    let mut vars = Vars::new();
    vars.set("ecode", "e1");
    let r1 = engine.executor().act().error(&id, &a1.clone().unwrap(), &vars);
    tokio::time::sleep(std::time::Duration::from_millis(600)).await;
    println!("PROBE-ABORT after error: r={:?} proc_state={}\n{}", r1, proc.state(), proc.tree_output());
    let r2 = engine.executor().act().abort(&id, &a2.clone().unwrap(), &Vars::new());
    tokio::time::sleep(std::time::Duration::from_millis(600)).await;
    println!("PROBE-ABORT after abort: r={:?} proc_state={}\n{}", r2, proc.state(), proc.tree_output());
    // submit / remove after complete on a fresh simple check: act a1 is terminal(error) now
    let r3 = engine.executor().act().submit(&id, &a1.clone().unwrap(), &Vars::new());
    tokio::time::sleep(std::time::Duration::from_millis(300)).await;
    println!("PROBE-SUBMIT on terminal act: r={:?} a1_state={:?}", r3, proc.task(&a1.unwrap()).map(|t| t.state().to_string()));
    println!("PROBE-ABORT log={:#?}", log.lock().unwrap());
    drop(sig);
}

