use vstd::prelude::*;
use std::sync::Arc;
verus! {
#[derive(Debug, Clone, PartialEq, Eq, Structural)]
#[verifier::allow(autoderive_clone_without_spec)]
pub enum TaskState { None, Running, Skipped, Completed }
impl TaskState {
    pub fn is_skip(&self) -> (r: bool) ensures r == (*self == TaskState::Skipped) { *self == TaskState::Skipped }
}
pub type Tid = int;
pub ghost struct Heap { pub st: Map<Tid, TaskState> }
#[verifier::external_body]
pub struct Task { _p: u8 }
impl Task {
    pub uninterp spec fn tid(&self) -> Tid;
    #[verifier::external_body]
    pub fn state(&self, Tracked(h): Tracked<&Heap>) -> (r: TaskState) ensures r == h.st[self.tid()] { unimplemented!() }
}

fn any_skip(siblings: &Vec<Arc<Task>>, Tracked(h): Tracked<&mut Heap>) -> (r: bool)
{
    let a = siblings.iter().any(|iter: &Arc<Task>| iter.state(Tracked(h)).is_skip());
    let n = siblings.iter().filter(|iter: &&Arc<Task>| iter.state(Tracked(h)).is_skip()).count();
    a && n > 0
}
}
fn main() {}
