use vstd::prelude::*;
use std::sync::Arc;
use std::collections::HashMap;
verus! {
#[derive(Debug, Clone, PartialEq, Eq, Structural)]
#[verifier::allow(autoderive_clone_without_spec)]
pub enum TaskState { None, Running, Skipped, Completed }
impl TaskState {
    pub fn is_skip(&self) -> (r: bool) ensures r == (*self == TaskState::Skipped) { *self == TaskState::Skipped }
    pub fn is_completed(&self) -> (r: bool) ensures r == (*self == TaskState::Completed || *self == TaskState::Skipped) { matches!(self, TaskState::Completed | TaskState::Skipped) }
}
pub type Tid = int;
pub ghost struct Heap { pub st: Map<Tid, TaskState>, pub level: Map<Tid, nat> }
#[verifier::external_body]
pub struct Task { _p: u8 }
impl Task {
    pub uninterp spec fn tid(&self) -> Tid;
    #[verifier::external_body]
    pub fn state(&self, Tracked(h): Tracked<&Heap>) -> (r: TaskState) ensures r == h.st[self.tid()] { unimplemented!() }
    #[verifier::external_body]
    pub fn set_state(&self, s: TaskState, Tracked(h): Tracked<&mut Heap>)
        requires !(old(h).st[self.tid()] == TaskState::Completed || old(h).st[self.tid()] == TaskState::Skipped)
        ensures final(h).st == old(h).st.insert(self.tid(), s), final(h).level == old(h).level
    { unimplemented!() }
    #[verifier::external_body]
    pub fn parent(&self, Tracked(h): Tracked<&Heap>) -> (r: Option<Arc<Task>>)
        ensures r is Some ==> h.level[r->Some_0.tid()] < h.level[self.tid()]
    { unimplemented!() }
}

// while-let loop walking parents (abort_task shape)
fn walk(task: &Arc<Task>, Tracked(h): Tracked<&mut Heap>)
{
    let mut parent = task.parent(Tracked(h));
    while let Some(task) = parent
        invariant true,
        decreases (match parent { Some(p) => h.level[p.tid()] + 1, None => 0 }),
    {
        if !task.state(Tracked(h)).is_completed() {
            task.set_state(TaskState::Skipped, Tracked(h));
        }
        parent = task.parent(Tracked(h));
    }
}


fn enumer(v: &Vec<u64>) -> (r: Vec<u64>)
    ensures r.len() == v.len()
{
    let mut acts: Vec<u64> = Vec::new();
    for index in 0..v.len()
        invariant acts.len() == index
    {
        let value = &v[index];
        acts.push(*value);
    }
    acts
}
}
fn main() {}
