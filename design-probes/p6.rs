use vstd::prelude::*;
use std::collections::HashSet;
verus! {

pub enum CondType { And, Or }

pub struct Cond {
    pub r#type: CondType,
    pub result: HashSet<u64>,
}

#[verifier::external_body]
pub fn hs_intersection(a: &HashSet<u64>, b: &HashSet<u64>) -> (r: HashSet<u64>)
    ensures r@ == a@.intersect(b@)
{ a.intersection(b).cloned().collect::<HashSet<_>>() }

#[verifier::external_body]
pub fn hs_union(a: &HashSet<u64>, b: &HashSet<u64>) -> (r: HashSet<u64>)
    ensures r@ == a@.union(b@)
{ a.union(b).cloned().collect::<HashSet<_>>() }

impl Cond {
    pub fn calc(&mut self, v: &HashSet<u64>)
        ensures
            old(self).r#type is And ==> final(self).result@ == (if old(self).result@.len() == 0 { v@ } else { old(self).result@.intersect(v@) }),
    {
        match self.r#type {
            CondType::And => {
                if self.result.is_empty() {
                    self.result = v.clone();
                } else {
                    self.result = hs_intersection(&self.result, v)
                }
            }
            CondType::Or => {
                if self.result.is_empty() {
                    self.result = v.clone();
                } else {
                    self.result = hs_union(&self.result, v)
                }
            }
        }
    }
}
}
fn main() {}
