// U-start: how a process comes into being -- C20 "starting an unknown model fails", C13's sequential sub-claim "a second start with a
// live id is refused", C15 call side "the child starts with exactly the inputs given in the call ... a missing target model fails the
// calling act instead of hanging it" (SubflowPackage::execute), C07 "a value given at start" reaches the workflow inputs.
// Ghost state `StartAbs`: the deployed models, the set of live process ids, the log of launched processes (id, model id, inputs).
// TRUSTED: the model collection lookup (DbCollection contract), serde_yaml parsing of the stored model text, Process::new / load,
// utils::longid() returns an id no live process has, Vars as a map.
//@@ unit U-start
//@@ default props=C20 rewrites=R1,R2,R3,R5,R13,R15 ghost="Tracked(sa): Tracked<&mut StartAbs>" ghostarg="Tracked(sa)"
//@@ heapmethods push_proc find_model longid proc_lookup new_process load launch start set_auto_complete_flag set_auto_complete fill_inputs
use vstd::prelude::*;
use std::sync::Arc;
verus! {
#[verifier::external_body]
pub struct JsonValue { _p: u8 }
impl Clone for JsonValue { #[verifier::external_body] fn clone(&self) -> (r: Self) ensures r == *self { unimplemented!() } }
pub uninterp spec fn jstr(s: Seq<char>) -> JsonValue;
pub uninterp spec fn as_jstr(v: JsonValue) -> Option<Seq<char>>;       // serde_json::from_value::<String>(v).ok()
#[verifier::external_body]
pub broadcast proof fn axiom_jstr(s: Seq<char>) ensures #[trigger] as_jstr(jstr(s)) == Some(s) {}
pub trait StrVal: Sized { spec fn sv(&self) -> Seq<char>; }
impl<'a> StrVal for &'a String { open spec fn sv(&self) -> Seq<char> { (**self)@ } }
impl<'a> StrVal for &'a str { open spec fn sv(&self) -> Seq<char> { (*self)@ } }
impl StrVal for String { open spec fn sv(&self) -> Seq<char> { self@ } }
#[verifier::external_body]
pub struct Vars { _p: u8 }
impl Clone for Vars { #[verifier::external_body] fn clone(&self) -> (r: Self) ensures r@ == self@ { unimplemented!() } }
impl Vars {
    pub uninterp spec fn view(&self) -> Map<Seq<char>, JsonValue>;
    // model/vars.rs: get::<String>(name) = the value under name when it is a JSON string
    #[verifier::external_body]
    pub fn get_string(&self, name: &str) -> (r: Option<String>)
        ensures r is Some <==> (self@.dom().contains(name@) && as_jstr(self@[name@]) is Some), r is Some ==> r->Some_0@ == as_jstr(self@[name@])->Some_0 { unimplemented!() }
    #[verifier::external_body]
    pub fn get_value(&self, name: &str) -> (r: Option<&JsonValue>)
        ensures r is Some <==> self@.dom().contains(name@), r is Some ==> *r->Some_0 == self@[name@] { unimplemented!() }
    #[verifier::external_body]
    pub fn insert(&mut self, name: String, v: JsonValue) ensures final(self)@ == old(self)@.insert(name@, v) { unimplemented!() }
    // model/vars.rs: set(name, value) = the JSON image of value under name (replacing)
    #[verifier::external_body]
    pub fn set<V: StrVal>(&mut self, name: &str, v: V) ensures final(self)@ == old(self)@.insert(name@, jstr(v.sv())) { unimplemented!() }
    #[verifier::external_body]
    pub fn contains_key(&self, name: &str) -> (r: bool) ensures r == self@.dom().contains(name@) { unimplemented!() }
    // R12: `for (name, value) in vars` lowered to iteration over the entry vector
    #[verifier::external_body]
    pub fn entries(&self) -> (r: Vec<(String, JsonValue)>)
        ensures forall|i: int| 0 <= i < r@.len() ==> self@.dom().contains((#[trigger] r@[i]).0@) && self@[r@[i].0@] == r@[i].1,
            forall|i: int, j: int| 0 <= i < j < r@.len() ==> (#[trigger] r@[i]).0@ != (#[trigger] r@[j]).0@,
            forall|k: Seq<char>| self@.dom().contains(k) ==> exists|i: int| 0 <= i < r@.len() && (#[trigger] r@[i]).0@ == k { unimplemented!() }
    // R7: `M.entry(k.clone()).and_modify(|v| *v = x.clone()).or_insert(x.clone())`
    #[verifier::external_body]
    pub fn upsert(&mut self, k: &String, v: &JsonValue) ensures final(self)@ == old(self)@.insert(k@, *v) { unimplemented!() }
}
pub mod consts {
    use vstd::prelude::*;
    verus! {
    //@@ extract file=acts/src/utils/consts.rs item="const INITIATOR" name=INITIATOR
    //@@ end
    //@@ extract file=acts/src/utils/consts.rs item="const FOR_ACT_KEY_UID" name=FOR_ACT_KEY_UID
    //@@ end
    //@@ extract file=acts/src/utils/consts.rs item="const PROCESS_ID" name=PROCESS_ID
    //@@ end
    //@@ extract file=acts/src/utils/consts.rs item="const ACT_USE_PARENT_PROC_ID" name=ACT_USE_PARENT_PROC_ID
    //@@ end
    //@@ extract file=acts/src/utils/consts.rs item="const ACT_USE_PARENT_TASK_ID" name=ACT_USE_PARENT_TASK_ID
    //@@ end
    }
}
#[derive(Debug)]
pub enum ActError { Action(String), Store(String), Convert(String), Other }
pub type Result<T> = std::result::Result<T, ActError>;
#[verifier::external_body]
pub fn fmt_opaque() -> String { unimplemented!() }

// the workflow model as far as start looks at it
pub struct Workflow { pub id: String, pub inputs: Vars }
impl Clone for Workflow { #[verifier::external_body] fn clone(&self) -> (r: Self) ensures r.id@ == self.id@, r.inputs@ == self.inputs@ { unimplemented!() } }
pub struct ModelInfo { pub id: String, pub data: String }
pub uninterp spec fn parse_ok(data: Seq<char>) -> bool;
pub uninterp spec fn parsed_id(data: Seq<char>) -> Seq<char>;
pub uninterp spec fn parsed_inputs(data: Seq<char>) -> Map<Seq<char>, JsonValue>;
impl ModelInfo {
    // model/info.rs: workflow() = serde_yaml::from_str(&self.data) (+ version); TRUSTED parser, a function of the stored text
    #[verifier::external_body]
    pub fn workflow(&self) -> (r: Result<Workflow>)
        ensures r is Ok <==> parse_ok(self.data@), r is Ok ==> r->Ok_0.id@ == parsed_id(self.data@) && r->Ok_0.inputs@ == parsed_inputs(self.data@) { unimplemented!() }
}
pub ghost struct Launch { pub pid: Seq<char>, pub mid: Seq<char>, pub inputs: Map<Seq<char>, JsonValue>, pub flags_before: nat }   // flags_before: how many `$auto_complete` writes preceded the launch
pub tracked struct StartAbs {
    pub ghost models: Map<Seq<char>, Seq<char>>,     // model id -> stored model text
    pub ghost live: Set<Seq<char>>,                  // ids of the processes the cache / store know
    pub ghost launched: Seq<Launch>,
    pub ghost waiting: Seq<bool>,                    // SubflowPackage: `$auto_complete` written to the calling act (false = waits for the return)
    pub ghost stored_unstarted: Seq<Seq<char>>,      // processes written to the cache / store BEFORE their launch (state none: Cache::restore starts every such process it finds)
}
#[verifier::external_body]
pub struct Process { _p: u8 }
impl Process {
    pub uninterp spec fn s_id(&self) -> Seq<char>;
    pub uninterp spec fn s_mid(&self) -> Seq<char>;
    pub uninterp spec fn s_inputs(&self) -> Map<Seq<char>, JsonValue>;
    #[verifier::external_body]
    pub fn id(&self) -> (r: &str) ensures r@ == self.s_id() { unimplemented!() }
    // scheduler/process/process.rs: Process::new(pid, rt) -- an empty process with that id
    #[verifier::external_body]
    pub fn new_process(pid: &String, rt: &Arc<Runtime>, Tracked(sa): Tracked<&mut StartAbs>) -> (r: Arc<Process>)
        ensures r.s_id() == pid@, *final(sa) == *old(sa) { unimplemented!() }
    // Process::load(&workflow): builds the node tree of THAT workflow (U-tree); Err for a model the tree builder refuses (duplicate ids)
    pub uninterp spec fn loaded(&self) -> Option<(Seq<char>, Map<Seq<char>, JsonValue>)>;
    #[verifier::external_body]
    pub fn load(&self, w: &Workflow, Tracked(sa): Tracked<&mut StartAbs>) -> (r: Result<()>)
        ensures r is Ok ==> self.loaded() == Some((w.id@, w.inputs@)), *final(sa) == *old(sa) { unimplemented!() }
}
// the cache as far as a start could use it besides the lookup (Cache::push_proc is under contract in U-cache: it writes the process to the store)
#[verifier::external_body]
pub struct CacheS { _p: u8 }
impl CacheS {
    #[verifier::external_body]
    pub fn push_proc(&self, proc: &Arc<Process>, Tracked(sa): Tracked<&mut StartAbs>)
        ensures *final(sa) == (StartAbs { stored_unstarted: old(sa).stored_unstarted.push(proc.s_id()), live: old(sa).live.insert(proc.s_id()), ..*old(sa) }) { unimplemented!() }
}
pub struct Runtime { pub cache: Arc<CacheS> }
impl Runtime {
    // R7: `self.cache.proc(&proc_id, self)` -- cache lookup with lazy load from the store
    #[verifier::external_body]
    pub fn proc_lookup(self: &Arc<Self>, pid: &String, Tracked(sa): Tracked<&mut StartAbs>) -> (r: Option<Arc<Process>>)
        ensures r is Some <==> old(sa).live.contains(pid@), *final(sa) == *old(sa) { unimplemented!() }
    // runtime.rs: launch(proc) = tokio::spawn(proc.start()): the process is handed to the scheduler (logged)
    #[verifier::external_body]
    pub fn launch(self: &Arc<Self>, proc: &Arc<Process>, Tracked(sa): Tracked<&mut StartAbs>)
        requires proc.loaded() is Some
        ensures *final(sa) == (StartAbs { launched: old(sa).launched.push(Launch { pid: proc.s_id(), mid: proc.loaded()->Some_0.0, inputs: proc.loaded()->Some_0.1, flags_before: old(sa).waiting.len() }),
            live: old(sa).live.insert(proc.s_id()), ..*old(sa) }) { unimplemented!() }
    // R7: `self.runtime.cache().store().models().find(mid)?.into()`: the model record (DbCollection contract)
    #[verifier::external_body]
    pub fn find_model(&self, mid: &str, Tracked(sa): Tracked<&mut StartAbs>) -> (r: Result<ModelInfo>)
        ensures r is Ok <==> old(sa).models.dom().contains(mid@), r is Ok ==> r->Ok_0.id@ == mid@ && r->Ok_0.data@ == old(sa).models[mid@], *final(sa) == *old(sa) { unimplemented!() }
}
pub mod utils {
    use vstd::prelude::*;
    use super::StartAbs;
    verus! {
    // TRUSTED: utils::longid() -- a new id (nanoid): no live process has it
    #[verifier::external_body]
    pub fn longid(Tracked(sa): Tracked<&mut StartAbs>) -> (r: String) ensures !old(sa).live.contains(r@), *final(sa) == *old(sa) { unimplemented!() }
    }
}
#[verifier::external_body]
pub fn string_of(s: &String) -> (r: String) ensures r@ == s@ { unimplemented!() }
#[verifier::external_body]
pub fn str_to_string(s: &str) -> (r: String) ensures r@ == s@ { unimplemented!() }

impl Workflow {
//@@ extract file=acts/src/model/workflow.rs in="impl Workflow" item="fn set_inputs" name=Workflow::set_inputs props=C07,C20
//@@ opt noghost
//@@ rw R12 `for ( name , value ) in vars $B:block` => `for (name, value) in vars.entries().iter() $B`
//@@ rw R7 `self . inputs . entry ( name . clone ( ) ) . and_modify ( | v | * v = value . clone ( ) ) . or_insert ( value . clone ( ) ) ;` => `self.inputs.upsert(name, value);`
//@@ spec
    ensures
        //# I1-the-start-values-overlay-the-declared-inputs
        final(self).inputs@ == old(self).inputs@.union_prefer_right(vars@) && final(self).id == old(self).id,
//@@ loop 1
        invariant
            //# overlaid-so-far
            self.id == old(self).id && (forall|k: Seq<char>| #[trigger] self.inputs@.dom().contains(k) <==> (old(self).inputs@.dom().contains(k) || exists|j: int| 0 <= j < __i1 && (#[trigger] __v1@[j]).0@ == k))
                && (forall|k: Seq<char>| #[trigger] self.inputs@.dom().contains(k) ==> self.inputs@[k] == (if exists|j: int| 0 <= j < __i1 && (#[trigger] __v1@[j]).0@ == k { vars@[k] } else { old(self).inputs@[k] }))
                && (forall|i: int| 0 <= i < __v1@.len() ==> vars@.dom().contains((#[trigger] __v1@[i]).0@) && vars@[__v1@[i].0@] == __v1@[i].1)
                && (forall|k: Seq<char>| vars@.dom().contains(k) ==> exists|i: int| 0 <= i < __v1@.len() && (#[trigger] __v1@[i]).0@ == k),
//@@ proof at=afterloop1
        proof { assert(self.inputs@ =~= old(self).inputs@.union_prefer_right(vars@)); }
//@@ end
}

impl Runtime {
//@@ extract file=acts/src/scheduler/runtime.rs in="impl Runtime" item="fn start" name=Runtime::start props=C20,C13,C07
//@@ rw R7 `& options . get :: < String > ( consts :: PROCESS_ID )` => `&options.get_string(consts::PROCESS_ID)`
//@@ rw R7 `pid . to_string ( )` => `string_of(pid)`
//@@ rw R7 `self . cache . proc ( & proc_id , self )` => `self.proc_lookup(&proc_id)`
//@@ rw R7 `Process :: new ( & proc_id , self )` => `Process::new_process(&proc_id, self)`
//@@ spec
    ensures
        //# Y4-a-second-start-with-a-live-id-is-refused
        options@.dom().contains(consts::PROCESS_ID@) && as_jstr(options@[consts::PROCESS_ID@]) is Some && old(sa).live.contains(as_jstr(options@[consts::PROCESS_ID@])->Some_0)
            ==> ret is Err && *final(sa) == *old(sa),
        //# Y4-a-refused-start-launches-nothing
        ret is Err ==> *final(sa) == *old(sa),
        //# Y4-a-start-launches-one-process-of-that-model-with-the-given-values
        ret is Ok ==> !old(sa).live.contains(ret->Ok_0.s_id()) && *final(sa) == (StartAbs {
            launched: old(sa).launched.push(Launch { pid: ret->Ok_0.s_id(), mid: model.id@, inputs: model.inputs@.union_prefer_right(options@), flags_before: old(sa).waiting.len() }),
            live: old(sa).live.insert(ret->Ok_0.s_id()), ..*old(sa) }),
        //# Y4-the-given-process-id-is-used
        ret is Ok && options@.dom().contains(consts::PROCESS_ID@) && as_jstr(options@[consts::PROCESS_ID@]) is Some ==> ret->Ok_0.s_id() == as_jstr(options@[consts::PROCESS_ID@])->Some_0,
//@@ end
}

pub struct ProcessExecutor { pub runtime: Arc<Runtime> }
impl ProcessExecutor {
//@@ extract file=acts/src/export/executor/process_executor.rs in="impl ProcessExecutor" item="fn start" name=ProcessExecutor::start props=C20,C15,C07
//@@ rw R7 `let model : ModelInfo = self . runtime . cache ( ) . store ( ) . models ( ) . find ( mid ) ? . into ( ) ;` => `let model: ModelInfo = self.runtime.find_model(mid)?;`
//@@ rw R7 `consts :: INITIATOR . to_string ( )` => `str_to_string(consts::INITIATOR)`
//@@ rw R7 `proc . id ( ) . to_string ( )` => `str_to_string(proc.id())`
//@@ spec
    ensures
        //# Y4-starting-an-unknown-model-fails
        !old(sa).models.dom().contains(mid@) ==> ret is Err && *final(sa) == *old(sa),
        //# Y4-a-refused-start-launches-nothing
        ret is Err ==> *final(sa) == *old(sa),
        //# Y4-the-stored-model-is-started-with-exactly-the-given-values
        ret is Ok ==> old(sa).models.dom().contains(mid@) && final(sa).launched.len() == old(sa).launched.len() + 1 && final(sa).waiting == old(sa).waiting && final(sa).models == old(sa).models
            && final(sa).launched.last().pid == ret->Ok_0@ && final(sa).launched.last().mid == parsed_id(old(sa).models[mid@]) && final(sa).launched.last().flags_before == old(sa).waiting.len()
            && final(sa).launched.last().inputs == parsed_inputs(old(sa).models[mid@]).union_prefer_right(
                if options@.dom().contains(consts::FOR_ACT_KEY_UID@) { options@.insert(consts::INITIATOR@, options@[consts::FOR_ACT_KEY_UID@]) } else { options@ }),
//@@ end
}

// ---- the call side of a sub-process (package/core/subflow.rs)
#[verifier::external_body]
pub struct Task { _p: u8 }
impl Task {
    pub uninterp spec fn s_id(&self) -> Seq<char>;
    // task.rs: set_auto_complete(v) writes `$auto_complete` into the task data (logged)
    #[verifier::external_body]
    pub fn set_auto_complete_flag(&self, v: bool, Tracked(sa): Tracked<&mut StartAbs>)
        ensures *final(sa) == (StartAbs { waiting: old(sa).waiting.push(v), ..*old(sa) }) { unimplemented!() }
}
pub struct TaskRef { pub t: Arc<Task>, pub id: String }
#[verifier::external_body]
pub struct ProcRef { _p: u8 }
impl ProcRef {
    pub uninterp spec fn s_id(&self) -> Seq<char>;
    #[verifier::external_body]
    pub fn id(&self) -> (r: String) ensures r@ == self.s_id() { unimplemented!() }
}
pub struct Context { pub runtime: Arc<Runtime>, pub proc: ProcRef, pub cur: TaskRef }
impl Context {
    pub fn task(&self) -> (r: &TaskRef) ensures *r == self.cur { &self.cur }
}
impl TaskRef {
    pub fn set_auto_complete(&self, v: bool, Tracked(sa): Tracked<&mut StartAbs>)
        ensures *final(sa) == (StartAbs { waiting: old(sa).waiting.push(v), ..*old(sa) }) { self.t.set_auto_complete_flag(v, Tracked(sa)); }
}
pub uninterp spec fn filled(options: Map<Seq<char>, JsonValue>, ctx: Context) -> Map<Seq<char>, JsonValue>;
// utils::fill_inputs(&options, ctx): evaluates the `{{expr}}` templates of the call options in the caller's scope (C14; TRUSTED here)
#[verifier::external_body]
pub fn fill_inputs(options: &Vars, ctx: &Context, Tracked(sa): Tracked<&mut StartAbs>) -> (r: Vars)
    ensures r@ == filled(options@, *ctx), *final(sa) == *old(sa) { unimplemented!() }
pub struct Executor { pub p: ProcessExecutor }
impl Executor {
    pub fn new(rt: &Arc<Runtime>) -> (r: Self) ensures r.p.runtime == *rt { Executor { p: ProcessExecutor { runtime: rt.clone() } } }
    pub fn proc(&self) -> (r: &ProcessExecutor) ensures *r == self.p { &self.p }
}
pub struct SubflowPackage { pub to: String, pub options: Vars }
impl SubflowPackage {
//@@ extract file=acts/src/package/core/subflow.rs in="impl ActPackageFn for SubflowPackage" item="fn execute" name=SubflowPackage::execute props=C15
//@@ rw R7 `utils :: fill_inputs ( & self . options , ctx )` => `fill_inputs(&self.options, ctx)`
//@@ spec
    ensures
        //# B1-the-calling-act-waits-before-the-child-is-started
        final(sa).waiting == old(sa).waiting.push(false) && (ret is Ok ==> final(sa).launched.last().flags_before == old(sa).waiting.len() + 1),
        //# B1-the-call-writes-nothing-into-the-callers-scopes (a package's returned values are written by Act::run into every enclosing scope that holds the name: the link to the calling act must not travel upwards)
        ret is Ok ==> ret->Ok_0 is None,
        //# B1-a-missing-target-model-fails-the-call
        !old(sa).models.dom().contains(self.to@) ==> ret is Err && final(sa).launched == old(sa).launched,
        //# B1-the-child-starts-with-exactly-the-inputs-of-the-call-and-the-link-to-the-calling-act
        ret is Ok ==> final(sa).launched.len() == old(sa).launched.len() + 1 && final(sa).launched.last().mid == parsed_id(old(sa).models[self.to@])
            && ({ let given = filled(self.options@, *ctx).insert(consts::ACT_USE_PARENT_PROC_ID@, jstr(ctx.proc.s_id())).insert(consts::ACT_USE_PARENT_TASK_ID@, jstr(ctx.cur.id@));
                  final(sa).launched.last().inputs == parsed_inputs(old(sa).models[self.to@]).union_prefer_right(
                      if given.dom().contains(consts::FOR_ACT_KEY_UID@) { given.insert(consts::INITIATOR@, given[consts::FOR_ACT_KEY_UID@]) } else { given }) }),
//@@ end
}

} // verus!
fn main() {}
