// U-emit: the handler registry of the event emitter (acts/src/event/emitter.rs) and the channel's use of it -- C18: "Closing or
// unsubscribing a channel stops deliveries to it and to no other channel, and re-registering a channel id replaces the previous handler
// instead of duplicating deliveries"; C09/C19 rely on every registered tick handler being called on a tick.
// The four keyed registries (starts, completes, messages, errors) and the tick list are a ghost state `EmAbs`; the functions are cut
// out of /repo; invocations of the two local dispatch macros are expanded textually from their macro_rules! definitions (R24).
// Asynchrony: `Handle::current().spawn(async move BLOCK)` becomes `{ interleave(); BLOCK }` (R10'): BLOCK runs LATER, after arbitrary
// other registry operations (interleave() havocs the registries), so the contract of an emit speaks about the registry AT DISPATCH TIME:
// a handler removed (closed / unsubscribed / replaced) before the dispatch runs is not invoked, one registered before it runs is.
// TRUSTED: std HashMap / Vec behind the RwLock as exact keyed tables (reg_* primitives), Arc<dyn Fn> called once per call expression.
//@@ unit U-emit
//@@ default props=C18 rewrites=R1,R2,R3,R5,R13,R15 ghost="Tracked(em): Tracked<&mut EmAbs>" ghostarg="Tracked(em)"
//@@ heapmethods hook_push hook_entries emit_task_event_with_extra reg_upsert tick_push entries tick_entries call call_tick interleave contains_key remove on_message on_start on_complete on_error emitter_remove
use vstd::prelude::*;
use std::sync::Arc;
verus! {
pub type HId = int;
pub ghost struct Registry {
    pub starts: Map<Seq<char>, HId>,
    pub completes: Map<Seq<char>, HId>,
    pub messages: Map<Seq<char>, HId>,
    pub errors: Map<Seq<char>, HId>,
    pub ticks: Seq<HId>,
    pub procs: Seq<HId>,      // Emitter::on_proc handlers (engine-internal: the runtime's process-event handler), in registration order
    pub tasks: Seq<HId>,      // Emitter::on_task handlers (engine-internal: the runtime's task-event handler, user hooks), in registration order
}
pub tracked struct EmAbs {
    pub ghost reg: Registry,
    pub ghost calls: Seq<(HId, int)>,              // handler invocations (handler, event / tick value), in order
    pub ghost at_dispatch: Registry,               // the registry as the last deferred dispatch block found it
    pub ghost seen: Seq<(String, HandlerFn)>,      // ghost result of the last keyed emit: the entries its dispatch iterated
    pub ghost seen_ticks: Seq<HandlerFn>,
}
pub open spec fn keyed(r: Registry, which: int) -> Map<Seq<char>, HId> {
    if which == 0 { r.starts } else if which == 1 { r.completes } else if which == 2 { r.messages } else { r.errors }
}
pub open spec fn with_keyed(r: Registry, which: int, m: Map<Seq<char>, HId>) -> Registry {
    if which == 0 { Registry { starts: m, ..r } } else if which == 1 { Registry { completes: m, ..r } } else if which == 2 { Registry { messages: m, ..r } } else { Registry { errors: m, ..r } }
}
// a registered handler: Arc<dyn Fn(&Event<Message>) + Send + Sync> (identity = ghost id)
#[verifier::external_body]
pub struct HandlerFn { _p: u8 }
impl HandlerFn {
    pub uninterp spec fn hid(&self) -> HId;
    // R20: `(handle)(&e)`: one invocation, recorded
    #[verifier::external_body]
    pub fn call(&self, e: &Ev, Tracked(em): Tracked<&mut EmAbs>)
        ensures *final(em) == (EmAbs { calls: old(em).calls.push((self.hid(), e.id)), ..*old(em) }) { unimplemented!() }
    #[verifier::external_body]
    pub fn call_tick(&self, t: &i64, Tracked(em): Tracked<&mut EmAbs>)
        ensures *final(em) == (EmAbs { calls: old(em).calls.push((self.hid(), *t as int)), ..*old(em) }) { unimplemented!() }
}
impl Clone for HandlerFn { #[verifier::external_body] fn clone(&self) -> (r: Self) ensures r.hid() == self.hid() { unimplemented!() } }
// the closure a caller hands over (`impl Fn(..) + Send + Sync + 'static`), before it is wrapped in an Arc
#[verifier::external_body]
pub struct RawFn { _p: u8 }
impl RawFn { pub uninterp spec fn fid(&self) -> HId; }
// R7: `Arc::new(f)`
#[verifier::external_body]
pub fn arc_handler(f: RawFn) -> (r: HandlerFn) ensures r.hid() == f.fid() { unimplemented!() }

#[verifier::external_body]
pub struct Message { _p: u8 }
impl Message { pub uninterp spec fn mid(&self) -> int; }
pub struct Ev { pub id: int }
// R7: `Event::new(&self.runtime.read().unwrap(), msg)`: the event wraps that message
#[verifier::external_body]
pub fn mk_event(m: &Message) -> (r: Ev) ensures r.id == m.mid() { unimplemented!() }

// ---- one keyed registry cell: ShareLock<HashMap<String, ActWorkflowMessageHandle>>
#[verifier::external_body]
pub struct Reg { _p: u8 }
pub open spec fn entries_of(m: Map<Seq<char>, HId>, es: Seq<(String, HandlerFn)>) -> bool {
    &&& forall|i: int| 0 <= i < es.len() ==> m.dom().contains((#[trigger] es[i]).0@) && m[es[i].0@] == es[i].1.hid()
    &&& forall|i: int, j: int| 0 <= i < j < es.len() ==> (#[trigger] es[i]).0@ != (#[trigger] es[j]).0@
    &&& forall|k: Seq<char>| m.dom().contains(k) ==> exists|i: int| 0 <= i < es.len() && (#[trigger] es[i]).0@ == k
}
impl Reg {
    pub uninterp spec fn which(&self) -> int;
    // R11: `X.write().unwrap().entry(key.to_string()).and_modify(|v| *v = f.clone()).or_insert(f)`: the key now maps to f (one entry per key)
    #[verifier::external_body]
    pub fn reg_upsert(&self, key: &str, f: HandlerFn, Tracked(em): Tracked<&mut EmAbs>)
        ensures *final(em) == (EmAbs { reg: with_keyed(old(em).reg, self.which(), keyed(old(em).reg, self.which()).insert(key@, f.hid())), ..*old(em) }) { unimplemented!() }
    // R11: `X.write().unwrap()` held in a local: the guard of that cell
    #[verifier::external_body]
    pub fn write_guard(&self) -> (r: RegGuard) ensures r.which() == self.which() { unimplemented!() }
    // R11: `X.read().unwrap()` iterated: the entries of the table as they are NOW
    #[verifier::external_body]
    pub fn entries(&self, Tracked(em): Tracked<&mut EmAbs>) -> (r: Vec<(String, HandlerFn)>)
        ensures entries_of(keyed(old(em).reg, self.which()), r@), *final(em) == *old(em) { unimplemented!() }
}
impl Clone for Reg { #[verifier::external_body] fn clone(&self) -> (r: Self) ensures r.which() == self.which() { unimplemented!() } }
#[verifier::external_body]
pub struct RegGuard { _p: u8 }
impl RegGuard {
    pub uninterp spec fn which(&self) -> int;
    #[verifier::external_body]
    pub fn contains_key(&self, key: &str, Tracked(em): Tracked<&mut EmAbs>) -> (r: bool)
        ensures r == keyed(old(em).reg, self.which()).dom().contains(key@), *final(em) == *old(em) { unimplemented!() }
    // HashMap::remove: the removed handler when the key was there
    #[verifier::external_body]
    pub fn remove(&mut self, key: &str, Tracked(em): Tracked<&mut EmAbs>) -> (r: Option<HandlerFn>)
        ensures final(self).which() == old(self).which(), r is Some <==> keyed(old(em).reg, old(self).which()).dom().contains(key@),
            *final(em) == (EmAbs { reg: with_keyed(old(em).reg, old(self).which(), keyed(old(em).reg, old(self).which()).remove(key@)), ..*old(em) }) { unimplemented!() }
}
// ---- the tick list: ShareLock<Vec<TickHandle>>
#[verifier::external_body]
pub struct TickReg { _p: u8 }
impl TickReg {
    // R11: `X.write().unwrap().push(Arc::new(f))`
    #[verifier::external_body]
    pub fn tick_push(&self, f: HandlerFn, Tracked(em): Tracked<&mut EmAbs>)
        ensures *final(em) == (EmAbs { reg: Registry { ticks: old(em).reg.ticks.push(f.hid()), ..old(em).reg }, ..*old(em) }) { unimplemented!() }
    #[verifier::external_body]
    pub fn tick_entries(&self, Tracked(em): Tracked<&mut EmAbs>) -> (r: Vec<HandlerFn>)
        ensures r@.len() == old(em).reg.ticks.len(), forall|i: int| 0 <= i < r@.len() ==> (#[trigger] r@[i]).hid() == old(em).reg.ticks[i], *final(em) == *old(em) { unimplemented!() }
}
impl Clone for TickReg { #[verifier::external_body] fn clone(&self) -> (r: Self) { unimplemented!() } }
// ---- the two engine-internal hook lists: ShareLock<Vec<ActProcHandle>> / ShareLock<Vec<ActTaskHandle>> (which() = 0 procs, 1 tasks)
#[verifier::external_body]
pub struct HookReg { _p: u8 }
pub open spec fn hooks_of(r: Registry, which: int) -> Seq<HId> { if which == 0 { r.procs } else { r.tasks } }
impl HookReg {
    pub uninterp spec fn which(&self) -> int;
    // R11: `X.write().unwrap().push(Arc::new(f))`
    #[verifier::external_body]
    pub fn hook_push(&self, f: HandlerFn, Tracked(em): Tracked<&mut EmAbs>)
        ensures *final(em) == (EmAbs { reg: if self.which() == 0 { Registry { procs: old(em).reg.procs.push(f.hid()), ..old(em).reg } } else { Registry { tasks: old(em).reg.tasks.push(f.hid()), ..old(em).reg } }, ..*old(em) }) { unimplemented!() }
    // R11: `X.read().unwrap()` (the guard derefs to the Vec; iterated with .iter())
    #[verifier::external_body]
    pub fn hook_entries(&self, Tracked(em): Tracked<&mut EmAbs>) -> (r: Vec<HandlerFn>)
        ensures r@.len() == hooks_of(old(em).reg, self.which()).len(), forall|i: int| 0 <= i < r@.len() ==> (#[trigger] r@[i]).hid() == hooks_of(old(em).reg, self.which())[i], *final(em) == *old(em) { unimplemented!() }
}
// R7: `Event::new(&self.runtime.read().unwrap(), proc)` / `Event::new_with_extra(&.., task, &TaskExtra { emit_message })`: the event wraps that object
#[verifier::external_body]
pub struct ProcessX { _p: u8 }
#[verifier::external_body]
pub struct TaskX { _p: u8 }
impl ProcessX { pub uninterp spec fn pev(&self) -> int; }
impl TaskX { pub uninterp spec fn tev(&self, emit_message: bool) -> int; }
#[verifier::external_body]
pub fn mk_proc_event(p: &Arc<ProcessX>) -> (r: Ev) ensures r.id == p.pev() { unimplemented!() }
#[verifier::external_body]
pub fn mk_task_event(t: &Arc<TaskX>, emit_message: bool) -> (r: Ev) ensures r.id == t.tev(emit_message) { unimplemented!() }
pub open spec fn hook_calls_of(hs: Seq<HId>, ev: int) -> Seq<(HId, int)> { hs.map_values(|h: HId| (h, ev)) }
// R10': the deferred block runs later -- anything may have happened to the registries in between; the registry the block finds is recorded
#[verifier::external_body]
pub fn interleave(Tracked(em): Tracked<&mut EmAbs>)
    ensures final(em).calls == old(em).calls, final(em).at_dispatch == final(em).reg, final(em).seen == old(em).seen, final(em).seen_ticks == old(em).seen_ticks { unimplemented!() }
// R7: the clock
#[verifier::external_body]
pub fn clock_millis() -> i64 { unimplemented!() }

pub struct Emitter { pub starts: Reg, pub completes: Reg, pub messages: Reg, pub errors: Reg, pub ticks: TickReg, pub procs: HookReg, pub tasks: HookReg }
impl Emitter {
    pub open spec fn wf(&self) -> bool { self.starts.which() == 0 && self.completes.which() == 1 && self.messages.which() == 2 && self.errors.which() == 3 && self.procs.which() == 0 && self.tasks.which() == 1 }
}
pub open spec fn calls_of(es: Seq<(String, HandlerFn)>, ev: int) -> Seq<(HId, int)> { es.map_values(|e: (String, HandlerFn)| (e.1.hid(), ev)) }
pub open spec fn tick_calls_of(hs: Seq<HandlerFn>, t: int) -> Seq<(HId, int)> { hs.map_values(|h: HandlerFn| (h.hid(), t)) }

impl Emitter {
//@@ extract file=acts/src/event/emitter.rs in="impl Emitter" item="fn on_message" name=Emitter::on_message
//@@ rw R20 `f : impl Fn ( & Event < Message > ) + Send + Sync + 'static` => `f: RawFn`
//@@ rw R7 `Arc :: new ( f )` => `arc_handler(f)`
//@@ rw R11 `self . messages . write ( ) . unwrap ( ) . entry ( key . to_string ( ) ) . and_modify ( | v | * v = f . clone ( ) ) . or_insert ( f ) ;` => `self.messages.reg_upsert(key, f);`
//@@ spec
    requires self.wf()
    ensures
        //# N4-registering-an-id-replaces-its-handler
        final(em).reg.messages == old(em).reg.messages.insert(key@, f.fid()),
        //# N4-registering-touches-nothing-else
        *final(em) == (EmAbs { reg: Registry { messages: final(em).reg.messages, ..old(em).reg }, ..*old(em) }),
//@@ end
//@@ extract file=acts/src/event/emitter.rs in="impl Emitter" item="fn on_start" name=Emitter::on_start
//@@ rw R20 `f : impl Fn ( & Event < Message > ) + Send + Sync + 'static` => `f: RawFn`
//@@ rw R7 `Arc :: new ( f )` => `arc_handler(f)`
//@@ rw R11 `self . starts . write ( ) . unwrap ( ) . entry ( key . to_string ( ) ) . and_modify ( | v | * v = f . clone ( ) ) . or_insert ( f ) ;` => `self.starts.reg_upsert(key, f);`
//@@ spec
    requires self.wf()
    ensures
        //# N4-registering-an-id-replaces-its-handler
        final(em).reg.starts == old(em).reg.starts.insert(key@, f.fid()),
        //# N4-registering-touches-nothing-else
        *final(em) == (EmAbs { reg: Registry { starts: final(em).reg.starts, ..old(em).reg }, ..*old(em) }),
//@@ end
//@@ extract file=acts/src/event/emitter.rs in="impl Emitter" item="fn on_complete" name=Emitter::on_complete
//@@ rw R20 `f : impl Fn ( & Event < Message > ) + Send + Sync + 'static` => `f: RawFn`
//@@ rw R7 `Arc :: new ( f )` => `arc_handler(f)`
//@@ rw R11 `self . completes . write ( ) . unwrap ( ) . entry ( key . to_string ( ) ) . and_modify ( | v | * v = f . clone ( ) ) . or_insert ( f ) ;` => `self.completes.reg_upsert(key, f);`
//@@ spec
    requires self.wf()
    ensures
        //# N4-registering-an-id-replaces-its-handler
        final(em).reg.completes == old(em).reg.completes.insert(key@, f.fid()),
        //# N4-registering-touches-nothing-else
        *final(em) == (EmAbs { reg: Registry { completes: final(em).reg.completes, ..old(em).reg }, ..*old(em) }),
//@@ end
//@@ extract file=acts/src/event/emitter.rs in="impl Emitter" item="fn on_error" name=Emitter::on_error
//@@ rw R20 `f : impl Fn ( & Event < Message > ) + Send + Sync + 'static` => `f: RawFn`
//@@ rw R7 `Arc :: new ( f )` => `arc_handler(f)`
//@@ rw R11 `self . errors . write ( ) . unwrap ( ) . entry ( key . to_string ( ) ) . and_modify ( | v | * v = f . clone ( ) ) . or_insert ( f ) ;` => `self.errors.reg_upsert(key, f);`
//@@ spec
    requires self.wf()
    ensures
        //# N4-registering-an-id-replaces-its-handler
        final(em).reg.errors == old(em).reg.errors.insert(key@, f.fid()),
        //# N4-registering-touches-nothing-else
        *final(em) == (EmAbs { reg: Registry { errors: final(em).reg.errors, ..old(em).reg }, ..*old(em) }),
//@@ end
//@@ extract file=acts/src/event/emitter.rs in="impl Emitter" item="fn on_tick" name=Emitter::on_tick props=C09,C19
//@@ rw R20 `f : impl Fn ( & i64 ) + Send + Sync + 'static` => `f: RawFn`
//@@ rw R11 `self . ticks . write ( ) . unwrap ( ) . push ( Arc :: new ( f ) ) ;` => `self.ticks.tick_push(arc_handler(f));`
//@@ spec
    ensures
        //# N4-a-tick-handler-is-added-once
        *final(em) == (EmAbs { reg: Registry { ticks: old(em).reg.ticks.push(f.fid()), ..old(em).reg }, ..*old(em) }),
//@@ end
//@@ extract file=acts/src/event/emitter.rs in="impl Emitter" item="fn remove" name=Emitter::remove
//@@ rw R11 `self . $F:id . write ( ) . unwrap ( )` => `self.$F.write_guard()`
//@@ spec
    requires self.wf()
    ensures
        //# N4-remove-drops-that-id-from-all-four-registries
        final(em).reg.starts == old(em).reg.starts.remove(key@) && final(em).reg.completes == old(em).reg.completes.remove(key@)
            && final(em).reg.messages == old(em).reg.messages.remove(key@) && final(em).reg.errors == old(em).reg.errors.remove(key@),
        //# N4-remove-keeps-every-other-handler
        forall|k: Seq<char>| k != key@ ==> (old(em).reg.messages.dom().contains(k) ==> final(em).reg.messages.dom().contains(k) && final(em).reg.messages[k] == old(em).reg.messages[k])
            && (old(em).reg.starts.dom().contains(k) ==> final(em).reg.starts.dom().contains(k) && final(em).reg.starts[k] == old(em).reg.starts[k])
            && (old(em).reg.completes.dom().contains(k) ==> final(em).reg.completes.dom().contains(k) && final(em).reg.completes[k] == old(em).reg.completes[k])
            && (old(em).reg.errors.dom().contains(k) ==> final(em).reg.errors.dom().contains(k) && final(em).reg.errors[k] == old(em).reg.errors[k]),
        //# N4-remove-touches-nothing-else
        final(em).reg.ticks == old(em).reg.ticks && final(em).calls == old(em).calls,
//@@ end

//@@ extract file=acts/src/event/emitter.rs in="impl Emitter" item="fn emit_message" name=Emitter::emit_message props=C18,C08
//@@ expand dispatch_key_event
//@@ rw R7 `Event :: new ( & self . runtime . read ( ) . unwrap ( ) , msg )` => `mk_event(msg)`
//@@ rw R10 `Handle :: current ( ) . spawn ( async move $B:block ) ;` => `{ interleave(); $B }`
//@@ rw R11 `handles . read ( ) . unwrap ( )` => `handles.entries()`
//@@ rw R20 `( handle ) ( & e ) ;` => `handle.call(&e);`
//@@ proof after=entries#1
            proof { em.seen = handlers@; }
//@@ spec
    requires self.wf()
    ensures
        //# N5-an-emit-calls-exactly-the-handlers-registered-when-its-dispatch-runs-each-once
        entries_of(final(em).at_dispatch.messages, final(em).seen) && final(em).calls == old(em).calls + calls_of(final(em).seen, msg.mid()),
        //# N5-an-emit-changes-no-registration
        final(em).reg == final(em).at_dispatch,
//@@ loop 1
        invariant
            //# called-so-far
            __v1@ == em.seen && e.id == msg.mid() && em.reg == em.at_dispatch && entries_of(em.at_dispatch.messages, em.seen)
                && em.calls == old(em).calls + calls_of(em.seen.take(__i1 as int), msg.mid()),
//@@ proof at=loop1
                proof { assert(em.seen.take(__i1 as int + 1) =~= em.seen.take(__i1 as int).push(em.seen[__i1 as int])); }
//@@ proof at=afterloop1
            proof { assert(em.seen.take(em.seen.len() as int) =~= em.seen); }
//@@ end
//@@ extract file=acts/src/event/emitter.rs in="impl Emitter" item="fn emit_start_event" name=Emitter::emit_start_event
//@@ expand dispatch_key_event
//@@ rw R7 `Event :: new ( & self . runtime . read ( ) . unwrap ( ) , state )` => `mk_event(state)`
//@@ rw R10 `Handle :: current ( ) . spawn ( async move $B:block ) ;` => `{ interleave(); $B }`
//@@ rw R11 `handles . read ( ) . unwrap ( )` => `handles.entries()`
//@@ rw R20 `( handle ) ( & e ) ;` => `handle.call(&e);`
//@@ proof after=entries#1
            proof { em.seen = handlers@; }
//@@ spec
    requires self.wf()
    ensures
        //# N5-an-emit-calls-exactly-the-handlers-registered-when-its-dispatch-runs-each-once
        entries_of(final(em).at_dispatch.starts, final(em).seen) && final(em).calls == old(em).calls + calls_of(final(em).seen, state.mid()),
        //# N5-an-emit-changes-no-registration
        final(em).reg == final(em).at_dispatch,
//@@ loop 1
        invariant
            //# called-so-far
            __v1@ == em.seen && e.id == state.mid() && em.reg == em.at_dispatch && entries_of(em.at_dispatch.starts, em.seen)
                && em.calls == old(em).calls + calls_of(em.seen.take(__i1 as int), state.mid()),
//@@ proof at=loop1
                proof { assert(em.seen.take(__i1 as int + 1) =~= em.seen.take(__i1 as int).push(em.seen[__i1 as int])); }
//@@ proof at=afterloop1
            proof { assert(em.seen.take(em.seen.len() as int) =~= em.seen); }
//@@ end
//@@ extract file=acts/src/event/emitter.rs in="impl Emitter" item="fn emit_complete_event" name=Emitter::emit_complete_event
//@@ expand dispatch_key_event
//@@ rw R7 `Event :: new ( & self . runtime . read ( ) . unwrap ( ) , state )` => `mk_event(state)`
//@@ rw R10 `Handle :: current ( ) . spawn ( async move $B:block ) ;` => `{ interleave(); $B }`
//@@ rw R11 `handles . read ( ) . unwrap ( )` => `handles.entries()`
//@@ rw R20 `( handle ) ( & e ) ;` => `handle.call(&e);`
//@@ proof after=entries#1
            proof { em.seen = handlers@; }
//@@ spec
    requires self.wf()
    ensures
        //# N5-an-emit-calls-exactly-the-handlers-registered-when-its-dispatch-runs-each-once
        entries_of(final(em).at_dispatch.completes, final(em).seen) && final(em).calls == old(em).calls + calls_of(final(em).seen, state.mid()),
        //# N5-an-emit-changes-no-registration
        final(em).reg == final(em).at_dispatch,
//@@ loop 1
        invariant
            //# called-so-far
            __v1@ == em.seen && e.id == state.mid() && em.reg == em.at_dispatch && entries_of(em.at_dispatch.completes, em.seen)
                && em.calls == old(em).calls + calls_of(em.seen.take(__i1 as int), state.mid()),
//@@ proof at=loop1
                proof { assert(em.seen.take(__i1 as int + 1) =~= em.seen.take(__i1 as int).push(em.seen[__i1 as int])); }
//@@ proof at=afterloop1
            proof { assert(em.seen.take(em.seen.len() as int) =~= em.seen); }
//@@ end
//@@ extract file=acts/src/event/emitter.rs in="impl Emitter" item="fn emit_error" name=Emitter::emit_error
//@@ expand dispatch_key_event
//@@ rw R7 `Event :: new ( & self . runtime . read ( ) . unwrap ( ) , state )` => `mk_event(state)`
//@@ rw R10 `Handle :: current ( ) . spawn ( async move $B:block ) ;` => `{ interleave(); $B }`
//@@ rw R11 `handles . read ( ) . unwrap ( )` => `handles.entries()`
//@@ rw R20 `( handle ) ( & e ) ;` => `handle.call(&e);`
//@@ proof after=entries#1
            proof { em.seen = handlers@; }
//@@ spec
    requires self.wf()
    ensures
        //# N5-an-emit-calls-exactly-the-handlers-registered-when-its-dispatch-runs-each-once
        entries_of(final(em).at_dispatch.errors, final(em).seen) && final(em).calls == old(em).calls + calls_of(final(em).seen, state.mid()),
        //# N5-an-emit-changes-no-registration
        final(em).reg == final(em).at_dispatch,
//@@ loop 1
        invariant
            //# called-so-far
            __v1@ == em.seen && e.id == state.mid() && em.reg == em.at_dispatch && entries_of(em.at_dispatch.errors, em.seen)
                && em.calls == old(em).calls + calls_of(em.seen.take(__i1 as int), state.mid()),
//@@ proof at=loop1
                proof { assert(em.seen.take(__i1 as int + 1) =~= em.seen.take(__i1 as int).push(em.seen[__i1 as int])); }
//@@ proof at=afterloop1
            proof { assert(em.seen.take(em.seen.len() as int) =~= em.seen); }
//@@ end
//@@ extract file=acts/src/event/emitter.rs in="impl Emitter" item="fn emit_tick" name=Emitter::emit_tick props=C09,C19
//@@ expand dispatch_event
//@@ rw R7 `utils :: time :: time_millis ( )` => `clock_millis()`
//@@ rw R10 `Handle :: current ( ) . spawn ( async move $B:block ) ;` => `{ interleave(); $B }`
//@@ rw R11 `handles . read ( ) . unwrap ( )` => `handles.tick_entries()`
//@@ rw R20 `( handle ) ( & time_millis ) ;` => `handle.call_tick(&time_millis);`
//@@ proof after=tick_entries#1
            proof { em.seen_ticks = handlers@; }
//@@ spec
    ensures
        //# N5-a-tick-calls-every-registered-tick-handler-once
        final(em).seen_ticks.len() == final(em).at_dispatch.ticks.len()
            && (forall|i: int| 0 <= i < final(em).seen_ticks.len() ==> (#[trigger] final(em).seen_ticks[i]).hid() == final(em).at_dispatch.ticks[i])
            && exists|t: int| final(em).calls == old(em).calls + tick_calls_of(final(em).seen_ticks, t),
//@@ loop 1
        invariant
            //# ticked-so-far
            __v1@ == em.seen_ticks && em.reg == em.at_dispatch && em.seen_ticks.len() == em.at_dispatch.ticks.len()
                && (forall|i: int| 0 <= i < em.seen_ticks.len() ==> (#[trigger] em.seen_ticks[i]).hid() == em.at_dispatch.ticks[i])
                && em.calls == old(em).calls + tick_calls_of(em.seen_ticks.take(__i1 as int), time_millis as int),
//@@ proof at=loop1
                proof { assert(em.seen_ticks.take(__i1 as int + 1) =~= em.seen_ticks.take(__i1 as int).push(em.seen_ticks[__i1 as int])); }
//@@ proof at=afterloop1
            proof { assert(em.seen_ticks.take(em.seen_ticks.len() as int) =~= em.seen_ticks); }
//@@ end
//@@ extract file=acts/src/event/emitter.rs in="impl Emitter" item="fn on_proc" name=Emitter::on_proc props=C08,C03
//@@ rw R20 `f : impl Fn ( & Event < Arc < Process > > ) + Send + Sync + 'static` => `f: RawFn`
//@@ rw R11 `self . procs . write ( ) . unwrap ( ) . push ( Arc :: new ( f ) ) ;` => `self.procs.hook_push(arc_handler(f));`
//@@ spec
    requires self.wf()
    ensures
        //# N6-a-process-event-handler-is-added-once-at-the-end
        *final(em) == (EmAbs { reg: Registry { procs: old(em).reg.procs.push(f.fid()), ..old(em).reg }, ..*old(em) }),
//@@ end
//@@ extract file=acts/src/event/emitter.rs in="impl Emitter" item="fn on_task" name=Emitter::on_task props=C08,C11
//@@ rw R20 `f : impl Fn ( & Event < Arc < Task > , TaskExtra > ) + Send + Sync + 'static` => `f: RawFn`
//@@ rw R11 `self . tasks . write ( ) . unwrap ( ) . push ( Arc :: new ( f ) ) ;` => `self.tasks.hook_push(arc_handler(f));`
//@@ spec
    requires self.wf()
    ensures
        //# N6-a-task-event-handler-is-added-once-at-the-end
        *final(em) == (EmAbs { reg: Registry { tasks: old(em).reg.tasks.push(f.fid()), ..old(em).reg }, ..*old(em) }),
//@@ end
//@@ extract file=acts/src/event/emitter.rs in="impl Emitter" item="fn emit_proc_event" name=Emitter::emit_proc_event props=C08,C03
//@@ rw R20 `proc : & Arc < Process >` => `proc: &Arc<ProcessX>`
//@@ rw R11 `self . procs . read ( ) . unwrap ( )` => `self.procs.hook_entries()`
//@@ rw R7 `Event :: new ( & self . runtime . read ( ) . unwrap ( ) , proc )` => `mk_proc_event(proc)`
//@@ rw R20 `( handle ) ( e ) ;` => `handle.call(e);`
//@@ spec
    requires self.wf()
    ensures
        //# N6-a-process-event-reaches-every-registered-handler-once-in-order-before-the-emit-returns
        final(em).reg == old(em).reg && final(em).calls == old(em).calls + hook_calls_of(old(em).reg.procs, proc.pev()),
//@@ loop 1
        invariant
            //# handled-so-far
            em.reg == old(em).reg && __v1@.len() == old(em).reg.procs.len() && (forall|i: int| 0 <= i < __v1@.len() ==> (#[trigger] __v1@[i]).hid() == old(em).reg.procs[i]) && e.id == proc.pev()
                && em.calls == old(em).calls + hook_calls_of(old(em).reg.procs.take(__i1 as int), proc.pev()),
//@@ proof at=loop1
            proof { assert(old(em).reg.procs.take(__i1 as int + 1) =~= old(em).reg.procs.take(__i1 as int).push(old(em).reg.procs[__i1 as int])); }
//@@ proof at=afterloop1
        proof { assert(old(em).reg.procs.take(old(em).reg.procs.len() as int) =~= old(em).reg.procs); }
//@@ end
//@@ extract file=acts/src/event/emitter.rs in="impl Emitter" item="fn emit_task_event" name=Emitter::emit_task_event props=C08,C11
//@@ rw R20 `task : & Arc < Task >` => `task: &Arc<TaskX>`
//@@ spec
    requires self.wf()
    ensures
        //# N6-a-task-event-reaches-every-registered-handler-once-in-order-with-messages-enabled
        ret is Ok && final(em).reg == old(em).reg && final(em).calls == old(em).calls + hook_calls_of(old(em).reg.tasks, task.tev(true)),
//@@ end
//@@ extract file=acts/src/event/emitter.rs in="impl Emitter" item="fn emit_task_event_with_extra" name=Emitter::emit_task_event_with_extra props=C08,C11
//@@ rw R20 `task : & Arc < Task >` => `task: &Arc<TaskX>`
//@@ rw R11 `self . tasks . read ( ) . unwrap ( )` => `self.tasks.hook_entries()`
//@@ rw R7 `Event :: new_with_extra ( & self . runtime . read ( ) . unwrap ( ) , task , & TaskExtra { emit_message } , )` => `mk_task_event(task, emit_message)`
//@@ rw R20 `( handle ) ( e ) ;` => `handle.call(e);`
//@@ spec
    requires self.wf()
    ensures
        //# N6-a-task-event-reaches-every-registered-handler-once-in-order-before-the-emit-returns
        ret is Ok && final(em).reg == old(em).reg && final(em).calls == old(em).calls + hook_calls_of(old(em).reg.tasks, task.tev(emit_message)),
//@@ loop 1
        invariant
            //# handled-so-far
            em.reg == old(em).reg && __v1@.len() == old(em).reg.tasks.len() && (forall|i: int| 0 <= i < __v1@.len() ==> (#[trigger] __v1@[i]).hid() == old(em).reg.tasks[i]) && e.id == task.tev(emit_message)
                && em.calls == old(em).calls + hook_calls_of(old(em).reg.tasks.take(__i1 as int), task.tev(emit_message)),
//@@ proof at=loop1
            proof { assert(old(em).reg.tasks.take(__i1 as int + 1) =~= old(em).reg.tasks.take(__i1 as int).push(old(em).reg.tasks[__i1 as int])); }
//@@ proof at=afterloop1
        proof { assert(old(em).reg.tasks.take(old(em).reg.tasks.len() as int) =~= old(em).reg.tasks); }
//@@ end
}

// ---- the channel's and the message executor's use of the registry
#[verifier::external_body]
pub struct Runtime { _p: u8 }
impl Runtime {
    pub uninterp spec fn em(&self) -> Emitter;
    #[verifier::external_body]
    pub fn emitter(&self) -> (r: &Emitter) ensures *r == self.em() { unimplemented!() }
}
#[verifier::external_body]
pub struct Globs { _p: u8 }
impl Clone for Globs { #[verifier::external_body] fn clone(&self) -> (r: Self) { unimplemented!() } }
pub struct Channel { pub runtime: std::sync::Arc<Runtime>, pub chan_id: String, pub ack: bool, pub pattern: String, pub glob: Globs }
// R9: the handler closure `move |e| { if is_match(..) { store_if(..); f(e); } }` (its body is under contract in U-chan as a lifted function)
#[verifier::external_body]
pub fn channel_handler(f: RawFn) -> (r: RawFn) { unimplemented!() }
#[verifier::external_body]
pub fn arc_rt_clone(r: &std::sync::Arc<Runtime>) -> (c: std::sync::Arc<Runtime>) ensures c == *r { unimplemented!() }
#[verifier::external_body]
pub fn string_clone(s: &String) -> (c: String) ensures c@ == s@ { unimplemented!() }
pub struct MessageExecutor { pub runtime: std::sync::Arc<Runtime> }

impl Channel {
//@@ extract file=acts/src/export/channel.rs in="impl Channel" item="fn on_message" name=Channel::on_message
//@@ rw R20 `f : impl Fn ( & Event < Message > ) + Send + Sync + 'static` => `f: RawFn`
//@@ rw R7 `self : & Arc < Self >` => `&self`
//@@ rw R7 `self . runtime . clone ( )` => `arc_rt_clone(&self.runtime)`
//@@ rw R7 `self . chan_id . clone ( )` => `string_clone(&self.chan_id)`
//@@ rw R7 `self . pattern . clone ( )` => `string_clone(&self.pattern)`
//@@ rw R9 `move | e | $B:block` => `channel_handler(f)`
//@@ spec
    requires self.runtime.em().wf()
    ensures
        //# N4-a-channel-registers-its-handler-under-its-own-id-and-nowhere-else
        final(em).reg.messages.dom() == old(em).reg.messages.dom().insert(self.chan_id@)
            && (forall|k: Seq<char>| k != self.chan_id@ && old(em).reg.messages.dom().contains(k) ==> final(em).reg.messages[k] == old(em).reg.messages[k])
            && *final(em) == (EmAbs { reg: Registry { messages: final(em).reg.messages, ..old(em).reg }, ..*old(em) }),
//@@ end
//@@ extract file=acts/src/export/channel.rs in="impl Channel" item="fn on_start" name=Channel::on_start
//@@ rw R20 `f : impl Fn ( & Event < Message > ) + Send + Sync + 'static` => `f: RawFn`
//@@ rw R7 `self : & Arc < Self >` => `&self`
//@@ rw R7 `self . runtime . clone ( )` => `arc_rt_clone(&self.runtime)`
//@@ rw R7 `self . chan_id . clone ( )` => `string_clone(&self.chan_id)`
//@@ rw R7 `self . pattern . clone ( )` => `string_clone(&self.pattern)`
//@@ rw R9 `move | e | $B:block` => `channel_handler(f)`
//@@ spec
    requires self.runtime.em().wf()
    ensures
        //# N4-a-channel-registers-its-handler-under-its-own-id-and-nowhere-else
        final(em).reg.starts.dom() == old(em).reg.starts.dom().insert(self.chan_id@)
            && (forall|k: Seq<char>| k != self.chan_id@ && old(em).reg.starts.dom().contains(k) ==> final(em).reg.starts[k] == old(em).reg.starts[k])
            && *final(em) == (EmAbs { reg: Registry { starts: final(em).reg.starts, ..old(em).reg }, ..*old(em) }),
//@@ end
//@@ extract file=acts/src/export/channel.rs in="impl Channel" item="fn on_complete" name=Channel::on_complete
//@@ rw R20 `f : impl Fn ( & Event < Message > ) + Send + Sync + 'static` => `f: RawFn`
//@@ rw R7 `self : & Arc < Self >` => `&self`
//@@ rw R7 `self . runtime . clone ( )` => `arc_rt_clone(&self.runtime)`
//@@ rw R7 `self . chan_id . clone ( )` => `string_clone(&self.chan_id)`
//@@ rw R7 `self . pattern . clone ( )` => `string_clone(&self.pattern)`
//@@ rw R9 `move | e | $B:block` => `channel_handler(f)`
//@@ spec
    requires self.runtime.em().wf()
    ensures
        //# N4-a-channel-registers-its-handler-under-its-own-id-and-nowhere-else
        final(em).reg.completes.dom() == old(em).reg.completes.dom().insert(self.chan_id@)
            && (forall|k: Seq<char>| k != self.chan_id@ && old(em).reg.completes.dom().contains(k) ==> final(em).reg.completes[k] == old(em).reg.completes[k])
            && *final(em) == (EmAbs { reg: Registry { completes: final(em).reg.completes, ..old(em).reg }, ..*old(em) }),
//@@ end
//@@ extract file=acts/src/export/channel.rs in="impl Channel" item="fn on_error" name=Channel::on_error
//@@ rw R20 `f : impl Fn ( & Event < Message > ) + Send + Sync + 'static` => `f: RawFn`
//@@ rw R7 `self : & Arc < Self >` => `&self`
//@@ rw R7 `self . runtime . clone ( )` => `arc_rt_clone(&self.runtime)`
//@@ rw R7 `self . chan_id . clone ( )` => `string_clone(&self.chan_id)`
//@@ rw R7 `self . pattern . clone ( )` => `string_clone(&self.pattern)`
//@@ rw R9 `move | e | $B:block` => `channel_handler(f)`
//@@ spec
    requires self.runtime.em().wf()
    ensures
        //# N4-a-channel-registers-its-handler-under-its-own-id-and-nowhere-else
        final(em).reg.errors.dom() == old(em).reg.errors.dom().insert(self.chan_id@)
            && (forall|k: Seq<char>| k != self.chan_id@ && old(em).reg.errors.dom().contains(k) ==> final(em).reg.errors[k] == old(em).reg.errors[k])
            && *final(em) == (EmAbs { reg: Registry { errors: final(em).reg.errors, ..old(em).reg }, ..*old(em) }),
//@@ end
}
impl Channel {
//@@ extract file=acts/src/export/channel.rs in="impl Channel" item="fn close" name=Channel::close
//@@ spec
    requires self.runtime.em().wf()
    ensures
        //# N4-closing-a-channel-removes-its-own-id-only
        final(em).reg.messages == old(em).reg.messages.remove(self.chan_id@) && final(em).reg.starts == old(em).reg.starts.remove(self.chan_id@)
            && final(em).reg.completes == old(em).reg.completes.remove(self.chan_id@) && final(em).reg.errors == old(em).reg.errors.remove(self.chan_id@),
//@@ end
}
impl MessageExecutor {
//@@ extract file=acts/src/export/executor/message_executor.rs in="impl MessageExecutor" item="fn unsub" name=MessageExecutor::unsub
//@@ spec
    requires self.runtime.em().wf()
    ensures
        //# N4-unsubscribing-removes-that-id-only
        ret is Ok && final(em).reg.messages == old(em).reg.messages.remove(chan_id@) && final(em).reg.starts == old(em).reg.starts.remove(chan_id@)
            && final(em).reg.completes == old(em).reg.completes.remove(chan_id@) && final(em).reg.errors == old(em).reg.errors.remove(chan_id@),
//@@ end
}
pub struct ActError {}
pub type Result<T> = std::result::Result<T, ActError>;

} // verus!
fn main() {}
