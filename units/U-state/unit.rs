// U-state: task / message state classification (C02-P4, C08-M3).  No assumptions beyond derived PartialEq.
//@@ unit U-state
//@@ default props=C02 rewrites=R1,R2,R3,R5,R13
use vstd::prelude::*;
verus! {

//@@ include prelude/state.rs
} // verus!
fn main() {}
