// ---- shared by U-sqlq and U-sqlread: serde_json scalars, the real query types, the ghost SQL condition tree of sea_query and the translation oracle
// ---- serde_json as far as the translation looks at it
pub enum NumV { I(int), U(int), F(int) }
#[verifier::external_body]
pub struct Number { _p: u8 }
impl Number {
    pub uninterp spec fn view(&self) -> NumV;
    #[verifier::external_body]
    pub fn as_i64(&self) -> (r: Option<i64>) ensures match self@ { NumV::I(i) => r == Some(i as i64) && i64::MIN <= i <= i64::MAX, _ => r is None } { unimplemented!() }
    #[verifier::external_body]
    pub fn as_f64(&self) -> (r: Option<f64>) ensures r is Some, fid(r->Some_0) == num_real(self@) { unimplemented!() }
}
pub uninterp spec fn fid(x: f64) -> int;
pub uninterp spec fn num_real(n: NumV) -> int;
#[verifier::external_body]
pub struct Opaque { _p: u8 }
pub mod serde_json {
    use vstd::prelude::*;
    use super::{Number, Opaque};
    verus! {
    pub enum Value { Null, Bool(bool), Number(Number), String(String), Array(Opaque), Object(Opaque) }
    impl Value {
        pub fn is_null(&self) -> (r: bool) ensures r == (*self is Null) { matches!(self, Value::Null) }
    }
    // TRUSTED: derived Clone is a deep copy
    impl Clone for Value { #[verifier::external_body] fn clone(&self) -> (r: Self) ensures r == *self { unimplemented!() } }
    }
}
// ---- the real query types and their accessors (acts/src/store/query.rs)
pub struct HashSet<K> { pub _k: std::marker::PhantomData<K> }
//@@ extract file=acts/src/store/query.rs item="enum CondType" name=CondType
//@@ opt structural dropderive=Clone
//@@ end
//@@ extract file=acts/src/store/query.rs item="enum ExprOp" name=ExprOp
//@@ opt structural dropderive=Clone
//@@ end
pub use serde_json::Value as JValue;
pub struct Expr { pub op: ExprOp, pub key: String, pub value: JValue }
pub struct Cond { pub r#type: CondType, pub conds: Vec<Expr> }
pub struct Query { pub offset: usize, pub limit: usize, pub conds: Vec<Cond>, pub order_by: Vec<(String, bool)> }
impl Clone for Query { #[verifier::external_body] fn clone(&self) -> (r: Self) ensures r == *self { unimplemented!() } }
impl Cond {
//@@ extract file=acts/src/store/query.rs in="impl Cond" item="fn conds" name=Cond::conds
//@@ spec
    ensures *ret == self.conds
//@@ end
}
impl Query {
//@@ extract file=acts/src/store/query.rs in="impl Query" item="fn is_cond" name=Query::is_cond
//@@ spec
    ensures ret == (self.conds@.len() > 0)
//@@ end
//@@ extract file=acts/src/store/query.rs in="impl Query" item="fn queries" name=Query::queries
//@@ spec
    ensures *ret == old(self).conds && *final(self) == *old(self)
//@@ end
}
pub mod acts { pub mod query { pub use super::super::Query; } }

// ---- sea_query: a ghost condition tree
pub enum SqlVal { Bool(bool), BigInt(int), Double(int), Int(int), Text(Seq<char>) }
pub enum SqlOp { Eq, Ne, Lt, Lte, Gt, Gte }
pub enum SqlCond {
    All(Seq<SqlCond>), Any(Seq<SqlCond>),
    Cmp(Seq<char>, SqlOp, SqlVal), IsNull(Seq<char>), IsNotNull(Seq<char>),
}
pub enum Value { Bool(Option<bool>), BigInt(Option<i64>), Double(Option<f64>), Int(Option<i32>), String(Option<Box<String>>) }
pub open spec fn val_view(v: Value) -> SqlVal {
    match v {
        Value::Bool(Some(b)) => SqlVal::Bool(b), Value::BigInt(Some(i)) => SqlVal::BigInt(i as int), Value::Double(Some(f)) => SqlVal::Double(fid(f)),
        Value::Int(Some(i)) => SqlVal::Int(i as int), Value::String(Some(s)) => SqlVal::Text((*s)@), _ => SqlVal::Int(0),
    }
}
#[verifier::external_body]
pub struct Condition { _p: u8 }
pub type SeaCond = Condition;
impl Condition {
    pub uninterp spec fn view(&self) -> SqlCond;
    #[verifier::external_body] pub fn all() -> (r: Condition) ensures r@ == SqlCond::All(Seq::empty()) { unimplemented!() }
    #[verifier::external_body] pub fn any() -> (r: Condition) ensures r@ == SqlCond::Any(Seq::empty()) { unimplemented!() }
    #[verifier::external_body]
    pub fn add(self, c: Condition) -> (r: Condition)
        ensures r@ == (match self@ { SqlCond::All(s) => SqlCond::All(s.push(c@)), SqlCond::Any(s) => SqlCond::Any(s.push(c@)), other => other }) { unimplemented!() }
}
pub struct SeaAlias { pub name: Ghost<Seq<char>> }
pub trait AliasKey: Sized { spec fn ak(&self) -> Seq<char>; }
impl<'a> AliasKey for &'a String { open spec fn ak(&self) -> Seq<char> { (**self)@ } }
impl<'a> AliasKey for &'a str { open spec fn ak(&self) -> Seq<char> { (*self)@ } }
impl SeaAlias { #[verifier::external_body] pub fn new<K: AliasKey>(k: K) -> (r: SeaAlias) ensures r.name@ == k.ak() { unimplemented!() } }
pub struct SeaExpr { pub col: Ghost<Seq<char>> }
pub struct SimpleExpr { pub c: Ghost<SqlCond> }
impl SeaExpr {
    #[verifier::external_body] pub fn col(a: SeaAlias) -> (r: SeaExpr) ensures r.col@ == a.name@ { unimplemented!() }
    #[verifier::external_body] pub fn is_null(self) -> (r: SimpleExpr) ensures r.c@ == SqlCond::IsNull(self.col@) { unimplemented!() }
    #[verifier::external_body] pub fn is_not_null(self) -> (r: SimpleExpr) ensures r.c@ == SqlCond::IsNotNull(self.col@) { unimplemented!() }
    #[verifier::external_body] pub fn eq(self, v: Value) -> (r: SimpleExpr) ensures r.c@ == SqlCond::Cmp(self.col@, SqlOp::Eq, val_view(v)) { unimplemented!() }
    #[verifier::external_body] pub fn ne(self, v: Value) -> (r: SimpleExpr) ensures r.c@ == SqlCond::Cmp(self.col@, SqlOp::Ne, val_view(v)) { unimplemented!() }
    #[verifier::external_body] pub fn lt(self, v: Value) -> (r: SimpleExpr) ensures r.c@ == SqlCond::Cmp(self.col@, SqlOp::Lt, val_view(v)) { unimplemented!() }
    #[verifier::external_body] pub fn lte(self, v: Value) -> (r: SimpleExpr) ensures r.c@ == SqlCond::Cmp(self.col@, SqlOp::Lte, val_view(v)) { unimplemented!() }
    #[verifier::external_body] pub fn gt(self, v: Value) -> (r: SimpleExpr) ensures r.c@ == SqlCond::Cmp(self.col@, SqlOp::Gt, val_view(v)) { unimplemented!() }
    #[verifier::external_body] pub fn gte(self, v: Value) -> (r: SimpleExpr) ensures r.c@ == SqlCond::Cmp(self.col@, SqlOp::Gte, val_view(v)) { unimplemented!() }
}
impl SimpleExpr { #[verifier::external_body] pub fn into_condition(self) -> (r: Condition) ensures r@ == self.c@ { unimplemented!() } }

// ---- oracle: the translation, written from the statement
pub open spec fn tr_value(v: JValue) -> Option<SqlVal> {
    match v {
        JValue::Bool(b) => Some(SqlVal::Bool(b)),
        JValue::Number(n) => Some(match n@ { NumV::I(i) => SqlVal::BigInt(i), _ => SqlVal::Double(num_real(n@)) }),
        JValue::String(s) => Some(SqlVal::Text(s@)),
        _ => None,
    }
}
pub open spec fn tr_op(op: ExprOp) -> SqlOp {
    match op { ExprOp::EQ => SqlOp::Eq, ExprOp::NE => SqlOp::Ne, ExprOp::LT => SqlOp::Lt, ExprOp::LE => SqlOp::Lte, ExprOp::GT => SqlOp::Gt, ExprOp::GE => SqlOp::Gte }
}
// a comparison whose value is a scalar; `== null` / `!= null` test the column for NULL
pub open spec fn tr_expr(e: Expr) -> SqlCond {
    if e.value is Null && e.op is EQ { SqlCond::IsNull(e.key@) }
    else if e.value is Null && e.op is NE { SqlCond::IsNotNull(e.key@) }
    else { SqlCond::Cmp(e.key@, tr_op(e.op), tr_value(e.value)->Some_0) }
}
pub open spec fn translatable(e: Expr) -> bool { tr_value(e.value) is Some || (e.value is Null && (e.op is EQ || e.op is NE)) }
pub open spec fn tr_cond(c: Cond) -> SqlCond {
    match c.r#type { CondType::And => SqlCond::All(c.conds@.map_values(|e: Expr| tr_expr(e))), CondType::Or => SqlCond::Any(c.conds@.map_values(|e: Expr| tr_expr(e))) }
}
pub open spec fn tr_query(q: Query) -> SqlCond { SqlCond::All(q.conds@.map_values(|c: Cond| tr_cond(c))) }

