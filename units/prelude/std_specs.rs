// ---- ASSUMED std specs that vstd lacks
pub assume_specification[ String::len ](s: &String) -> (r: usize);
