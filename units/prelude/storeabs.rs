// ---- ghost store: six keyed tables
pub ghost struct StoreAbs {
    pub tasks: Table<data::Task>,
    pub procs: Table<data::Proc>,
    pub messages: Table<data::Message>,
    pub models: Table<data::Model>,
    pub events: Table<data::Event>,
    pub now: int,           // clock reading (chrono): see time_millis
    pub query_ok: bool,
    pub write_ok: bool,     // the back end accepts writes (when false create/update/delete may return Err)     // the back end answers queries (when false a query may return Err)
}
impl StoreAbs {
    pub open spec fn wf(&self) -> bool {
        table_wf(self.tasks) && table_wf(self.procs) && table_wf(self.messages) && table_wf(self.models) && table_wf(self.events)
    }
}
//@@ include prelude/coll.rs.in NAME=TaskColl T=Task FIELD=tasks
//@@ include prelude/coll.rs.in NAME=ProcColl T=Proc FIELD=procs
//@@ include prelude/coll.rs.in NAME=MsgColl T=Message FIELD=messages
//@@ include prelude/coll.rs.in NAME=ModelColl T=Model FIELD=models
//@@ include prelude/coll.rs.in NAME=EventColl T=Event FIELD=events

#[verifier::external_body]
pub struct Store { _p: u8 }
impl Store {
    #[verifier::external_body] pub fn tasks(&self) -> (r: TaskColl) { unimplemented!() }
    #[verifier::external_body] pub fn procs(&self) -> (r: ProcColl) { unimplemented!() }
    #[verifier::external_body] pub fn messages(&self) -> (r: MsgColl) { unimplemented!() }
    #[verifier::external_body] pub fn models(&self) -> (r: ModelColl) { unimplemented!() }
    #[verifier::external_body] pub fn events(&self) -> (r: EventColl) { unimplemented!() }
}
pub mod utils { pub mod time {
    use vstd::prelude::*;
    use super::super::StoreAbs;
    verus! {
    // TRUSTED: the clock; one reading per call, values within i64 and monotone inside one verified call
    #[verifier::external_body]
    pub fn time_millis(Tracked(st): Tracked<&mut StoreAbs>) -> (r: i64)
        ensures r as int == old(st).now, final(st).now >= old(st).now,
                *final(st) == (StoreAbs { now: final(st).now, ..*old(st) }),
    { unimplemented!() }
    }
} }
