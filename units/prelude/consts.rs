// ---- the real constants (acts/src/utils/consts.rs), R13 only
pub mod consts {
use vstd::prelude::*;
verus! {
//@@ extract file=acts/src/utils/consts.rs item="const INITIATOR" name=consts::INITIATOR
//@@ end
//@@ extract file=acts/src/utils/consts.rs item="const ACT_USE_PARENT_PROC_ID" name=consts::ACT_USE_PARENT_PROC_ID
//@@ end
//@@ extract file=acts/src/utils/consts.rs item="const ACT_USE_PARENT_TASK_ID" name=consts::ACT_USE_PARENT_TASK_ID
//@@ end
//@@ extract file=acts/src/utils/consts.rs item="const FOR_ACT_KEY_UID" name=consts::FOR_ACT_KEY_UID
//@@ end
//@@ extract file=acts/src/utils/consts.rs item="const STEP_NODE_ID" name=consts::STEP_NODE_ID
//@@ end
//@@ extract file=acts/src/utils/consts.rs item="const STEP_NODE_NAME" name=consts::STEP_NODE_NAME
//@@ end
//@@ extract file=acts/src/utils/consts.rs item="const STEP_TASK_ID" name=consts::STEP_TASK_ID
//@@ end
//@@ extract file=acts/src/utils/consts.rs item="const STEP_KEY" name=consts::STEP_KEY
//@@ end
//@@ extract file=acts/src/utils/consts.rs item="const ACT_OPTIONS_KEY" name=consts::ACT_OPTIONS_KEY
//@@ end
//@@ extract file=acts/src/utils/consts.rs item="const ACT_PARAMS_KEY" name=consts::ACT_PARAMS_KEY
//@@ end
//@@ extract file=acts/src/utils/consts.rs item="const ACT_ERR_MESSAGE" name=consts::ACT_ERR_MESSAGE
//@@ end
//@@ extract file=acts/src/utils/consts.rs item="const ACT_ERR_CODE" name=consts::ACT_ERR_CODE
//@@ end
//@@ extract file=acts/src/utils/consts.rs item="const ACT_INDEX" name=consts::ACT_INDEX
//@@ end
//@@ extract file=acts/src/utils/consts.rs item="const ACT_VALUE" name=consts::ACT_VALUE
//@@ end
//@@ extract file=acts/src/utils/consts.rs item="const TASK_EMIT_DISABLED" name=consts::TASK_EMIT_DISABLED
//@@ end
//@@ extract file=acts/src/utils/consts.rs item="const TASK_AUOT_COMPLETE" name=consts::TASK_AUOT_COMPLETE
//@@ end
//@@ extract file=acts/src/utils/consts.rs item="const IS_CATCH_PROCESSED" name=consts::IS_CATCH_PROCESSED
//@@ end
//@@ extract file=acts/src/utils/consts.rs item="const IS_EVENT_PROCESSED" name=consts::IS_EVENT_PROCESSED
//@@ end
//@@ extract file=acts/src/utils/consts.rs item="const IS_TIMEOUT_PROCESSED_PREFIX" name=consts::IS_TIMEOUT_PROCESSED_PREFIX
//@@ end
//@@ extract file=acts/src/utils/consts.rs item="const ACT_OUTPUTS" name=consts::ACT_OUTPUTS
//@@ end
//@@ extract file=acts/src/utils/consts.rs item="const ACT_PARAMS_CACHE" name=consts::ACT_PARAMS_CACHE
//@@ end
//@@ extract file=acts/src/utils/consts.rs item="const ACT_SUBFLOW_TO" name=consts::ACT_SUBFLOW_TO
//@@ end
//@@ extract file=acts/src/utils/consts.rs item="const ACT_GLOBAL_EXPOSE" name=consts::ACT_GLOBAL_EXPOSE
//@@ end
//@@ extract file=acts/src/utils/consts.rs item="const TASK_ROOT_TID" name=consts::TASK_ROOT_TID
//@@ end
//@@ extract file=acts/src/utils/consts.rs item="const PROCESS_ID" name=consts::PROCESS_ID
//@@ end
//@@ extract file=acts/src/utils/consts.rs item="const MODEL_ID" name=consts::MODEL_ID
//@@ end
//@@ extract file=acts/src/utils/consts.rs item="const ACT_DATA" name=consts::ACT_DATA
//@@ end
//@@ extract file=acts/src/utils/consts.rs item="const ACT_PRI_KEYS_REGEX" name=consts::ACT_PRI_KEYS_REGEX
//@@ end
}
}
