// ======================================================================================
// shared prelude for units that use the store ABSTRACTLY (C09, C17, C20, C11/12).
// What is real (extracted from /repo): the query builder (Expr/Cond/Query constructors), the row types.
// What is assumed (TRUSTED): DbCollection behaves as an exact keyed table with exact filters (the
// contract C10 checks for the two real back ends), serde_json::json! of scalars, the clock.
// ======================================================================================

// ---- JSON scalars as seen by filters
pub enum JsonV { Null, Bool(bool), Int(int), Str(Seq<char>), Other(int) }

#[verifier::external_body]
pub struct Value { _p: u8 }
impl Value { pub uninterp spec fn view(&self) -> JsonV; }
impl Clone for Value {
    #[verifier::external_body]
    fn clone(&self) -> (r: Self) ensures r@ == self@ { unimplemented!() }
}

// `T: Serialize` in the extracted builder text resolves to this trait
pub trait Serialize: Sized { spec fn to_json(&self) -> JsonV; }
impl Serialize for String { open spec fn to_json(&self) -> JsonV { JsonV::Str(self@) } }
impl<'a> Serialize for &'a String { open spec fn to_json(&self) -> JsonV { JsonV::Str((**self)@) } }
impl<'a> Serialize for &'a str { open spec fn to_json(&self) -> JsonV { JsonV::Str((*self)@) } }
impl Serialize for i64 { open spec fn to_json(&self) -> JsonV { JsonV::Int(*self as int) } }
impl Serialize for i32 { open spec fn to_json(&self) -> JsonV { JsonV::Int(*self as int) } }
impl<'a> Serialize for &'a Value { open spec fn to_json(&self) -> JsonV { (**self)@ } }
// TRUSTED: serde_json::json!(scalar) is the JSON scalar (R7: json!(E) -> json_of(E))
#[verifier::external_body]
pub fn json_of<T: Serialize>(v: T) -> (r: Value) ensures r@ == v.to_json() { unimplemented!() }

// TRUSTED: std HashSet (only carried inside Cond; never inspected by these units)
#[verifier::external_body]
#[verifier::reject_recursive_types(K)]
pub struct HashSet<K> { _k: std::marker::PhantomData<K> }
impl<K> HashSet<K> {
    #[verifier::external_body]
    pub fn new() -> (r: Self) { unimplemented!() }
}
impl<K> Clone for HashSet<K> {
    #[verifier::external_body]
    fn clone(&self) -> (r: Self) { unimplemented!() }
}

// ---- the real query builder ----------------------------------------------------------
//@@ extract file=acts/src/store/query.rs item="enum CondType"
//@@ opt structural
//@@ end
//@@ extract file=acts/src/store/query.rs item="enum ExprOp"
//@@ opt structural
//@@ end
//@@ extract file=acts/src/store/query.rs item="struct Expr"
//@@ end
//@@ extract file=acts/src/store/query.rs item="struct Cond"
//@@ end
//@@ extract file=acts/src/store/query.rs item="struct Query"
//@@ end

impl Expr {
//@@ extract file=acts/src/store/query.rs in="impl Expr" item="fn eq" name=Expr::eq
//@@ opt noghost
//@@ rw R7 `json ! ( $A:args )` => `json_of($A)`
//@@ spec
    ensures
        //# B-eq
        ret.op == ExprOp::EQ && ret.key@ == key@ && ret.value@ == v.to_json(),
//@@ end
//@@ extract file=acts/src/store/query.rs in="impl Expr" item="fn ne" name=Expr::ne
//@@ opt noghost
//@@ rw R7 `json ! ( $A:args )` => `json_of($A)`
//@@ spec
    ensures
        //# B-ne
        ret.op == ExprOp::NE && ret.key@ == key@ && ret.value@ == v.to_json(),
//@@ end
//@@ extract file=acts/src/store/query.rs in="impl Expr" item="fn lt" name=Expr::lt
//@@ opt noghost
//@@ rw R7 `json ! ( $A:args )` => `json_of($A)`
//@@ spec
    ensures
        //# B-lt
        ret.op == ExprOp::LT && ret.key@ == key@ && ret.value@ == v.to_json(),
//@@ end
//@@ extract file=acts/src/store/query.rs in="impl Expr" item="fn le" name=Expr::le
//@@ opt noghost
//@@ rw R7 `json ! ( $A:args )` => `json_of($A)`
//@@ spec
    ensures
        //# B-le
        ret.op == ExprOp::LE && ret.key@ == key@ && ret.value@ == v.to_json(),
//@@ end
//@@ extract file=acts/src/store/query.rs in="impl Expr" item="fn gt" name=Expr::gt
//@@ opt noghost
//@@ rw R7 `json ! ( $A:args )` => `json_of($A)`
//@@ spec
    ensures
        //# B-gt
        ret.op == ExprOp::GT && ret.key@ == key@ && ret.value@ == v.to_json(),
//@@ end
//@@ extract file=acts/src/store/query.rs in="impl Expr" item="fn ge" name=Expr::ge
//@@ opt noghost
//@@ rw R7 `json ! ( $A:args )` => `json_of($A)`
//@@ spec
    ensures
        //# B-ge
        ret.op == ExprOp::GE && ret.key@ == key@ && ret.value@ == v.to_json(),
//@@ end
}

impl Cond {
//@@ extract file=acts/src/store/query.rs in="impl Cond" item="fn or" name=Cond::or
//@@ opt noghost
//@@ spec
    ensures
        //# B-or
        ret.r#type == CondType::Or && ret.conds@.len() == 0,
//@@ end
//@@ extract file=acts/src/store/query.rs in="impl Cond" item="fn and" name=Cond::and
//@@ opt noghost
//@@ spec
    ensures
        //# B-and
        ret.r#type == CondType::And && ret.conds@.len() == 0,
//@@ end
//@@ extract file=acts/src/store/query.rs in="impl Cond" item="fn push" name=Cond::push
//@@ opt noghost
//@@ spec
    ensures
        //# B-cond-push
        ret.r#type == self.r#type && ret.conds@ == self.conds@.push(expr),
//@@ end
}

impl Query {
//@@ extract file=acts/src/store/query.rs in="impl Query" item="fn new" name=Query::new
//@@ opt noghost
//@@ spec
    ensures
        //# B-query-new
        ret.conds@.len() == 0 && ret.limit == 100000 && ret.offset == 0 && ret.order_by@.len() == 0,
//@@ end
//@@ extract file=acts/src/store/query.rs in="impl Query" item="fn push" name=Query::push
//@@ opt noghost
//@@ spec
    ensures
        //# B-query-push
        ret.conds@ == self.conds@.push(cond) && ret.limit == self.limit && ret.offset == self.offset && ret.order_by == self.order_by,
//@@ end
//@@ extract file=acts/src/store/query.rs in="impl Query" item="fn set_limit" name=Query::set_limit
//@@ opt noghost
//@@ spec
    ensures
        //# B-query-limit
        ret.conds == self.conds && ret.limit == limit && ret.offset == self.offset && ret.order_by == self.order_by,
//@@ end
}

// ---- filter semantics (oracle for the ASSUMED collection contract; C10 states it: "exactly the
//      records satisfying its AND/OR filter")
pub open spec fn expr_holds(op: ExprOp, l: JsonV, r: JsonV) -> bool {
    match op {
        ExprOp::EQ => l == r,
        ExprOp::NE => l != r,
        ExprOp::LT => l is Int && r is Int && l->Int_0 < r->Int_0,
        ExprOp::LE => l is Int && r is Int && l->Int_0 <= r->Int_0,
        ExprOp::GT => l is Int && r is Int && l->Int_0 > r->Int_0,
        ExprOp::GE => l is Int && r is Int && l->Int_0 >= r->Int_0,
    }
}
pub trait Row: Sized {
    spec fn rid(&self) -> Seq<char>;
    spec fn field(&self, key: Seq<char>) -> JsonV;
}
#[verifier::opaque]
pub open spec fn cond_holds<T: Row>(c: Cond, row: T) -> bool {
    match c.r#type {
        CondType::And => forall|i: int| 0 <= i < c.conds@.len() ==> expr_holds(#[trigger] c.conds@[i].op, row.field(c.conds@[i].key@), c.conds@[i].value@),
        CondType::Or => exists|i: int| 0 <= i < c.conds@.len() && expr_holds(#[trigger] c.conds@[i].op, row.field(c.conds@[i].key@), c.conds@[i].value@),
    }
}
#[verifier::opaque]
pub open spec fn query_holds<T: Row>(q: Query, row: T) -> bool {
    forall|i: int| 0 <= i < q.conds@.len() ==> cond_holds(#[trigger] q.conds@[i], row)
}
pub open spec fn q_limit(q: Query) -> int { if q.limit == 0 { 50 } else { q.limit as int } }

pub type Table<T> = Map<Seq<char>, T>;
pub open spec fn table_wf<T: Row>(t: Table<T>) -> bool {
    forall|id: Seq<char>| t.dom().contains(id) ==> (#[trigger] t[id]).rid() == id
}

//@@ extract file=acts/src/store/mod.rs item="struct PageData"
//@@ end

// rows selected by a predicate p out of table t
pub open spec fn sel_sound<T: Row>(t: Table<T>, rows: Seq<T>, p: spec_fn(T) -> bool) -> bool {
    forall|j: int| 0 <= j < rows.len() ==> t.dom().contains((#[trigger] rows[j]).rid()) && t[rows[j].rid()] == rows[j] && p(rows[j])
}
pub open spec fn sel_distinct<T: Row>(rows: Seq<T>) -> bool {
    forall|i: int, j: int| 0 <= i < j < rows.len() ==> (#[trigger] rows[i]).rid() != (#[trigger] rows[j]).rid()
}
pub open spec fn sel_complete<T: Row>(t: Table<T>, rows: Seq<T>, p: spec_fn(T) -> bool) -> bool {
    forall|k: Seq<char>| t.dom().contains(k) && p(#[trigger] t[k]) ==> exists|j: int| 0 <= j < rows.len() && (#[trigger] rows[j]).rid() == k
}
pub open spec fn sel_count<T: Row>(t: Table<T>, p: spec_fn(T) -> bool) -> nat { t.dom().filter(|k: Seq<char>| p(t[k])).len() }

// ASSUMED result of `query` (stated from C10: "exactly the records satisfying its AND/OR filter ... paged by offset/limit"):
// rows are distinct records of the table that satisfy the filter, at most `limit`, and all of them when they fit the limit
#[verifier::opaque]
pub open spec fn query_result_ok<T: Row>(t: Table<T>, q: Query, rows: Seq<T>) -> bool {
    &&& sel_sound(t, rows, |m: T| query_holds(q, m))
    &&& sel_distinct(rows)
    &&& rows.len() <= q_limit(q)
    &&& (sel_count(t, |m: T| query_holds(q, m)) <= q_limit(q) ==> sel_complete(t, rows, |m: T| query_holds(q, m)))
}
// bridge from the filter to a named predicate p
pub proof fn lemma_query_rows<T: Row>(t: Table<T>, q: Query, rows: Seq<T>, p: spec_fn(T) -> bool)
    requires query_result_ok(t, q, rows), forall|m: T| #[trigger] query_holds(q, m) <==> p(m),
    ensures sel_sound(t, rows, p), sel_distinct(rows), rows.len() <= q_limit(q),
            sel_count(t, p) <= q_limit(q) ==> sel_complete(t, rows, p),
{
    reveal(query_result_ok);
    let qh = |m: T| query_holds(q, m);
    assert forall|j: int| 0 <= j < rows.len() implies t.dom().contains((#[trigger] rows[j]).rid()) && t[rows[j].rid()] == rows[j] && p(rows[j]) by {
        assert(qh(rows[j]));
    }
    assert(t.dom().filter(|k: Seq<char>| p(t[k])) =~= t.dom().filter(|k: Seq<char>| qh(t[k]))) by {
        assert forall|k: Seq<char>| #![auto] t.dom().contains(k) implies (p(t[k]) <==> qh(t[k])) by { assert(query_holds(q, t[k]) <==> p(t[k])); }
    }
    if sel_count(t, p) <= q_limit(q) {
        assert forall|k: Seq<char>| t.dom().contains(k) && p(#[trigger] t[k]) implies exists|j: int| 0 <= j < rows.len() && (#[trigger] rows[j]).rid() == k by {
            assert(qh(t[k]));
        }
    }
}

// ---- errors, clock
//@@ extract file=acts/src/error.rs item="enum ActError"
//@@ end
pub type Result<T> = std::result::Result<T, ActError>;
// TRUSTED: format! yields some string (R3)
#[verifier::external_body]
pub fn fmt_opaque() -> String { unimplemented!() }
