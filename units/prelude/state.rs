// ---- task / message state classification (real code) + the stage oracle of C02
//@@ extract file=acts/src/scheduler/state.rs item="enum TaskState" name=TaskState
//@@ opt structural dropderive=Clone
//@@ end
// derive(Clone) on a field-less enum copies the variant (Verus gives derived Clone no spec: stated here, TRUSTED)
impl Clone for TaskState { #[verifier::external_body] fn clone(&self) -> (r: Self) ensures r == *self { unimplemented!() } }
//@@ ifndef HAVE_MESSAGE_STATE
//@@ extract file=acts/src/event/message.rs item="enum MessageState" name=MessageState
//@@ opt structural
//@@ end
//@@ endif

// ---- oracle: the stage partition of property C02, written from the statement
pub open spec fn st_created(s: TaskState) -> bool { s is Ready || s is Pending || s is Interrupt }
// a sibling branch that actually ran to an end (is_error || is_success || is_abort in Task::is_ready)
pub open spec fn st_ran(s: TaskState) -> bool { s is Error || s is Completed || s is Aborted }
pub open spec fn st_terminal(s: TaskState) -> bool {
    s is Completed || s is Submitted || s is Skipped || s is Backed || s is Cancelled || s is Aborted || s is Removed || s is Error
}
pub open spec fn st_rank(s: TaskState) -> int {
    if s is None { 0 } else if st_created(s) { 1 } else if s is Running { 2 } else { 3 }
}
// the four stages partition the 13 states
pub proof fn lemma_partition(s: TaskState)
    ensures
        (s is None) || st_created(s) || (s is Running) || st_terminal(s),
        !((s is None) && st_created(s)), !((s is None) && st_terminal(s)), !(st_created(s) && st_terminal(s)),
        !((s is Running) && (st_created(s) || st_terminal(s) || s is None)),
        st_terminal(s) <==> st_rank(s) == 3,
{}

// ---- oracle for C08: message state of a task state
pub open spec fn msg_state_of(s: TaskState) -> MessageState {
    match s {
        TaskState::None => MessageState::None,
        TaskState::Ready | TaskState::Pending | TaskState::Running | TaskState::Interrupt => MessageState::Created,
        TaskState::Completed => MessageState::Completed,
        TaskState::Submitted => MessageState::Submitted,
        TaskState::Backed => MessageState::Backed,
        TaskState::Cancelled => MessageState::Cancelled,
        TaskState::Error => MessageState::Error,
        TaskState::Aborted => MessageState::Aborted,
        TaskState::Skipped => MessageState::Skipped,
        TaskState::Removed => MessageState::Removed,
    }
}
pub open spec fn msg_terminal(m: MessageState) -> bool {
    m is Completed || m is Cancelled || m is Submitted || m is Backed || m is Error || m is Skipped || m is Aborted || m is Removed
}
// created class (and running) -> Created; each terminal state -> its namesake; terminality commutes
pub proof fn lemma_msg_state(s: TaskState)
    ensures
        (st_created(s) || s is Running) ==> msg_state_of(s) is Created,
        st_terminal(s) <==> msg_terminal(msg_state_of(s)),
        s is None <==> msg_state_of(s) is None,
{}

impl TaskState {
//@@ extract file=acts/src/scheduler/state.rs in="impl TaskState" item="fn is_none"
//@@ opt noghost
//@@ spec
    ensures
        //# P4-none
        ret == (self is None),
//@@ end
//@@ extract file=acts/src/scheduler/state.rs in="impl TaskState" item="fn is_created"
//@@ opt noghost
//@@ spec
    ensures
        //# P4-created
        ret == st_created(*self),
//@@ end
//@@ extract file=acts/src/scheduler/state.rs in="impl TaskState" item="fn is_completed" props=C02,C03,C05
//@@ opt noghost
//@@ spec
    ensures
        //# P4-terminal
        ret == st_terminal(*self),
//@@ end
//@@ extract file=acts/src/scheduler/state.rs in="impl TaskState" item="fn is_abort"
//@@ opt noghost
//@@ spec
    ensures
        //# P4-abort
        ret == (self is Aborted),
//@@ end
//@@ extract file=acts/src/scheduler/state.rs in="impl TaskState" item="fn is_error" props=C02,C06
//@@ opt noghost
//@@ spec
    ensures
        //# P4-error
        ret == (self is Error),
//@@ end
//@@ extract file=acts/src/scheduler/state.rs in="impl TaskState" item="fn is_removed"
//@@ opt noghost
//@@ spec
    ensures
        //# P4-removed
        ret == (self is Removed),
//@@ end
//@@ extract file=acts/src/scheduler/state.rs in="impl TaskState" item="fn is_ready"
//@@ opt noghost
//@@ spec
    ensures
        //# P4-ready
        ret == (self is Ready),
//@@ end
//@@ extract file=acts/src/scheduler/state.rs in="impl TaskState" item="fn is_running"
//@@ opt noghost
//@@ spec
    ensures
        //# P4-running
        ret == (self is Running),
//@@ end
//@@ extract file=acts/src/scheduler/state.rs in="impl TaskState" item="fn is_pending" props=C02,C01
//@@ opt noghost
//@@ spec
    ensures
        //# P4-pending
        ret == (self is Pending),
//@@ end
//@@ extract file=acts/src/scheduler/state.rs in="impl TaskState" item="fn is_success"
//@@ opt noghost
//@@ spec
    ensures
        //# P4-success
        ret == (self is Completed),
//@@ end
//@@ extract file=acts/src/scheduler/state.rs in="impl TaskState" item="fn is_skip"
//@@ opt noghost
//@@ spec
    ensures
        //# P4-skip
        ret == (self is Skipped),
//@@ end
//@@ extract file=acts/src/scheduler/state.rs in="impl TaskState" item="fn is_next" props=C02,C04
//@@ opt noghost
//@@ spec
    ensures
        //# P4-next
        ret == (self is Skipped || self is Running || self is Removed || self is Completed),
//@@ end
//@@ extract file=acts/src/scheduler/state.rs in="impl TaskState" item="fn is_interrupted"
//@@ opt noghost
//@@ spec
    ensures
        //# P4-interrupted
        ret == (self is Interrupt),
//@@ end
}

impl MessageState {
//@@ extract file=acts/src/event/message.rs in="impl MessageState" item="fn is_completed" name=MessageState::is_completed props=C08
//@@ opt noghost
//@@ spec
    ensures
        //# M3-terminal
        ret == msg_terminal(*self),
//@@ end
}

impl vstd::std_specs::convert::FromSpecImpl<TaskState> for MessageState {
    open spec fn obeys_from_spec() -> bool { true }
    open spec fn from_spec(s: TaskState) -> Self { msg_state_of(s) }
}
impl From<TaskState> for MessageState {
//@@ extract file=acts/src/event/message.rs in="impl From<TaskState> for MessageState" item="fn from" name=MessageState::from_task_state props=C08
//@@ opt noghost
//@@ opt traitpost
//@@ end
}

