// ======================================================================================
// scheduler prelude: ghost heap + primitive layer (ASSUMED contracts mirroring 1-5 line bodies)
// Real (extracted): TaskState + classification, model structs, NodeKind/NodeContent/NodeOutputKind, Error, ActError.
// The heap is threaded sequentially: the proofs hold for ONE thread executing one entry without interference.
// ======================================================================================
//@@ include prelude/state.rs
//@@ include prelude/consts.rs

#[verifier::external_body]
pub struct JsonValue { _p: u8 }
impl Clone for JsonValue { #[verifier::external_body] fn clone(&self) -> (r: Self) ensures r == *self { unimplemented!() } }
impl JsonValue {
    pub uninterp spec fn s_is_null(&self) -> bool;
    #[verifier::external_body]
    pub fn is_null(&self) -> (r: bool) ensures r == self.s_is_null() { unimplemented!() }
}
// model/vars.rs: Vars wraps serde_json::Map<String, Value>; ASSUMED map semantics of the operations used by the extracted code
#[verifier::external_body]
pub struct Vars { _p: u8 }
impl Clone for Vars { #[verifier::external_body] fn clone(&self) -> (r: Self) ensures r == *self { unimplemented!() } }
pub trait KeyLike: Sized { spec fn k(&self) -> Seq<char>; }
impl<'a> KeyLike for &'a String { open spec fn k(&self) -> Seq<char> { (**self)@ } }
impl<'a> KeyLike for &'a str { open spec fn k(&self) -> Seq<char> { (*self)@ } }
impl<'a, 'b> KeyLike for &'a &'b String { open spec fn k(&self) -> Seq<char> { (***self)@ } }
impl Vars {
    pub uninterp spec fn view(&self) -> Map<Seq<char>, JsonValue>;
    #[verifier::external_body]
    pub fn new() -> (r: Self) ensures r@ == Map::<Seq<char>, JsonValue>::empty() { unimplemented!() }
    #[verifier::external_body]
    pub fn is_empty(&self) -> (r: bool) ensures r == (self@.dom().len() == 0) { unimplemented!() }
    #[verifier::external_body]
    pub fn contains_key<K: KeyLike>(&self, key: K) -> (r: bool) ensures r == self@.dom().contains(key.k()) { unimplemented!() }
    #[verifier::external_body]
    pub fn get_value<K: KeyLike>(&self, key: K) -> (r: Option<&JsonValue>)
        ensures r is Some <==> self@.dom().contains(key.k()), r is Some ==> *r->Some_0 == self@[key.k()] { unimplemented!() }
    #[verifier::external_body]
    pub fn set<K: KeyLike>(&mut self, key: K, value: JsonValue) ensures final(self)@ == old(self)@.insert(key.k(), value) { unimplemented!() }
    // R12: the value bound by `for (ref key, value) in &vars`
    #[verifier::external_body]
    pub fn value_ref(&self, k: &String) -> (r: &JsonValue) requires self@.dom().contains(k@) ensures *r == self@[k@] { unimplemented!() }
    // R12: `for (ref key, _) in &vars` is lowered to iteration over the key vector
    #[verifier::external_body]
    pub fn keys_vec(&self) -> (r: Vec<String>)
        ensures r@.map_values(|s: String| s@).to_set() == self@.dom(), r@.map_values(|s: String| s@).no_duplicates() { unimplemented!() }
}

// ---- the real model structs (serde attributes erased)
//@@ extract file=acts/src/model/mod.rs item="enum ActEvent" name=ActEvent
//@@ opt structural
//@@ end
//@@ extract file=acts/src/model/act/catch.rs item="struct Catch" name=Catch
//@@ opt dropderive=Clone
//@@ end
//@@ extract file=acts/src/model/act/timeout.rs item="struct Timeout" name=Timeout
//@@ opt dropderive=Clone
//@@ end
//@@ extract file=acts/src/model/act.rs item="struct Act" name=Act
//@@ opt dropderive=Clone
//@@ end
//@@ extract file=acts/src/model/step.rs item="struct Step" name=Step
//@@ opt dropderive=Clone
//@@ end
//@@ extract file=acts/src/model/branch.rs item="struct Branch" name=Branch
//@@ opt dropderive=Clone
//@@ end
//@@ extract file=acts/src/model/workflow.rs item="struct Workflow" name=Workflow
//@@ opt dropderive=Clone
//@@ end
// TRUSTED: derived Clone on the model structs is a deep copy
impl Clone for Catch { #[verifier::external_body] fn clone(&self) -> (r: Self) ensures r == *self { unimplemented!() } }
impl Clone for Timeout { #[verifier::external_body] fn clone(&self) -> (r: Self) ensures r == *self { unimplemented!() } }
impl Clone for Act { #[verifier::external_body] fn clone(&self) -> (r: Self) ensures r == *self { unimplemented!() } }
impl Clone for Step { #[verifier::external_body] fn clone(&self) -> (r: Self) ensures r == *self { unimplemented!() } }
impl Clone for Branch { #[verifier::external_body] fn clone(&self) -> (r: Self) ensures r == *self { unimplemented!() } }
impl Clone for Workflow { #[verifier::external_body] fn clone(&self) -> (r: Self) ensures r == *self { unimplemented!() } }

//@@ extract file=acts/src/scheduler/tree/node.rs item="enum NodeContent" name=NodeContent
//@@ opt dropderive=Clone
//@@ end
//@@ extract file=acts/src/scheduler/tree/node.rs item="enum NodeKind" name=NodeKind
//@@ opt structural
//@@ end
//@@ extract file=acts/src/scheduler/tree/node.rs item="enum NodeOutputKind" name=NodeOutputKind
//@@ opt structural
//@@ end
//@@ extract file=acts/src/error.rs item="enum ActError" name=ActError
//@@ end
//@@ extract file=acts/src/error.rs item="struct Error" name=Error
//@@ opt dropderive=Clone
//@@ end
impl Clone for Error { #[verifier::external_body] fn clone(&self) -> (r: Self) ensures r == *self { unimplemented!() } }
//@@ extract file=acts/src/event/mod.rs item="enum EventAction" name=EventAction
//@@ opt structural
//@@ end
//@@ extract file=acts/src/event/action.rs item="struct Action" name=Action
//@@ opt dropderive=Clone
//@@ end
impl Clone for Action { #[verifier::external_body] fn clone(&self) -> (r: Self) ensures r == *self { unimplemented!() } }
//@@ extract file=acts/src/store/data/message.rs item="enum MessageStatus" name=MessageStatus
//@@ opt structural
//@@ end
//@@ extract file=acts/src/scheduler/process/task/hook.rs item="enum TaskLifeCycle" name=TaskLifeCycle
//@@ opt structural
//@@ end
//@@ extract file=acts/src/scheduler/process/task/hook.rs item="enum StatementBatch" name=StatementBatch
//@@ opt dropderive=Clone
//@@ end
pub type Result<T> = std::result::Result<T, ActError>;
// TRUSTED: format! yields some string (R3)
#[verifier::external_body]
pub fn fmt_opaque() -> String { unimplemented!() }

// ---- node tree: immutable while the scheduler functions run; link accessors are uninterpreted functions of the node
#[verifier::external_body]
pub struct NodeLinks { _p: u8 }
pub struct Node { pub id: String, pub content: NodeContent, pub level: usize, pub links: NodeLinks }
#[verifier::external_body]
pub struct WeakNode { _p: u8 }
impl WeakNode {
    pub uninterp spec fn target(&self) -> Option<Arc<Node>>;
    #[verifier::external_body]
    pub fn upgrade(&self) -> (r: Option<Arc<Node>>) ensures r == self.target() { unimplemented!() }
}
pub open spec fn kind_of(c: NodeContent) -> NodeKind {
    match c { NodeContent::Workflow(_) => NodeKind::Workflow, NodeContent::Branch(_) => NodeKind::Branch, NodeContent::Step(_) => NodeKind::Step, NodeContent::Act(_) => NodeKind::Act }
}
// node links live behind RwLocks and DO change at run time (setup / generated acts are built into the tree):
// they are uninterpreted functions of the node and of a link revision counter kept in the heap
pub uninterp spec fn n_next(rev: int, n: Node) -> Option<Arc<Node>>;
pub uninterp spec fn n_children_in(rev: int, n: Node, typ: NodeOutputKind, on: Option<Seq<char>>) -> Seq<Arc<Node>>;
pub uninterp spec fn n_parent(rev: int, n: Node) -> Option<Arc<Node>>;
pub open spec fn n_children(rev: int, n: Node) -> Seq<Arc<Node>> { n_children_in(rev, n, NodeOutputKind::Normal, None) }
impl Node {
    pub open spec fn s_kind(&self) -> NodeKind { kind_of(self.content) }
    // TRUSTED (each mirrors a 1-5 line body of tree/node.rs over the RwLock'd link fields); tree-shape fact ASSUMED from tree/build.rs:
    // the workflow node is nobody's child or successor
    #[verifier::external_body]
    pub fn next(&self, Tracked(h): Tracked<&Heap>) -> (r: WeakNode) ensures r.target() == n_next(h.links_rev, *self), r.target() is Some ==> r.target()->Some_0.s_kind() != NodeKind::Workflow { unimplemented!() }
    #[verifier::external_body]
    pub fn children(&self, Tracked(h): Tracked<&Heap>) -> (r: Vec<Arc<Node>>) ensures r@ == n_children(h.links_rev, *self), forall|i: int| 0 <= i < r@.len() ==> (#[trigger] r@[i]).s_kind() != NodeKind::Workflow { unimplemented!() }
    #[verifier::external_body]
    pub fn children_in(&self, typ: NodeOutputKind, on: Option<String>, Tracked(h): Tracked<&Heap>) -> (r: Vec<Arc<Node>>) ensures r@ == n_children_in(h.links_rev, *self, typ, opt_str(on)), forall|i: int| 0 <= i < r@.len() ==> (#[trigger] r@[i]).s_kind() != NodeKind::Workflow { unimplemented!() }
    #[verifier::external_body]
    pub fn parent(&self, Tracked(h): Tracked<&Heap>) -> (r: Option<Arc<Node>>) ensures r == n_parent(h.links_rev, *self) { unimplemented!() }
    #[verifier::external_body]
    pub fn kind(&self) -> (r: NodeKind) ensures r == self.s_kind() { unimplemented!() }
    #[verifier::external_body]
    pub fn id(&self) -> (r: &str) ensures r@ == self.id@ { unimplemented!() }
}
pub open spec fn opt_str(o: Option<String>) -> Option<Seq<char>> { match o { Some(s) => Some(s@), None => None } }

// ---- ghost heap ----------------------------------------------------------------------
pub type Tid = Seq<char>;
pub ghost struct TaskAbs {
    pub state: TaskState,
    pub prev: Option<Tid>,
    pub err: Option<Error>,
    pub flags: Map<Seq<char>, bool>,     // boolean `$...` entries of the task data (emit_disabled, auto_complete, once-flags)
    pub data_rev: int,                   // bumped by every other write to the task data (contents are not modelled here)
    pub start_time: int,
    pub end_time: int,
    pub revived: nat,                    // ghost: number of Error -> Running revivals by a catch (C02/C06)
    pub seq: nat,                        // ghost: creation index (a task is created after its prev task: prev links are acyclic)
    pub node: Arc<Node>,
}
pub ghost struct Heap {
    pub tasks: Map<Tid, TaskAbs>,
    pub cur: Tid,                        // Context's current task (RefCell<Arc<Task>>)
    pub proc_state: TaskState,
    pub proc_err: Option<Error>,
    pub queue: Seq<Tid>,                 // tasks pushed to the runtime queue (Runtime::push), in order
    pub links_rev: int,                  // revision of the node links (bumped whenever acts are built into the tree at run time)
    pub hooks: Map<Tid, Map<TaskLifeCycle, Seq<StatementBatch>>>,   // lifecycle hooks per task
    pub task_events: Seq<(Tid, TaskState)>,   // Scheduler::emit_task_event(task) calls: (tid, state at the time)
    pub proc_events: Seq<TaskState>,     // Scheduler::emit_proc_event calls: process state at the time
    pub msg_closed: Seq<(Seq<char>, Seq<char>, MessageStatus)>,   // Store::set_message_with(pid, tid, status) calls
    pub ctx_log: Seq<Tid>,               // Task::create_context calls (entry points: action, tick, task event)
    pub upserts: Seq<Tid>,               // Cache::upsert(task) calls (task row written to the store)
    pub saved: Seq<(Tid, TaskAbs)>,      // ... and what was written: the task as it was at the time of the call
    pub messages: Seq<(Tid, MessageState)>,   // messages handed to Emitter::emit_message for a task: (tid, message state)
    pub now: int,
    pub action: Option<Action>,          // Context.action (RefCell): the client action being processed
    pub next_seq: nat,                   // ghost: creation index of the next task
}
pub const ROOT_TID: &'static str = "$";
// catches are registered under ErrorCatch and timeouts under Timeout only (Step::init / Act::init); every other lifecycle list holds plain statements
pub open spec fn hooks_ok(h: Heap) -> bool {
    forall|t: Tid, k: TaskLifeCycle, i: int| #![trigger h.hooks[t][k][i]] h.hooks.dom().contains(t) && h.hooks[t].dom().contains(k) && 0 <= i < h.hooks[t][k].len()
        && !(k is ErrorCatch) && !(k is Timeout) ==> h.hooks[t][k][i] is Statement
}
// the prev task exists (opaque: revealing it inside a quantifier over tasks would loop along the prev chain)
#[verifier::opaque]
pub open spec fn prev_in(h: Heap, t: Tid) -> bool { h.tasks[t].prev is Some ==> h.tasks.dom().contains(h.tasks[t].prev->Some_0) }

impl Heap {
    // heap invariant kept by every primitive (lemma_stub_consequences):
    //  - the context's current task exists
    //  - the process mirrors its root task: same state once the root is terminal, not terminal before (task.rs set_state / context.rs emit_task);
    //    stated for a root task that was never revived by a catch (workflows declare no catches; a revived root is outside the mirror)
    //  - an error is recorded only on a task in state Error (set_state clears it otherwise); only the root task sits on the workflow node
    #[verifier::opaque]
    pub open spec fn wf(&self) -> bool {
        &&& self.has(self.cur)
        &&& (self.has(ROOT_TID@) && self.tasks[ROOT_TID@].revived == 0 ==> (if st_terminal(self.st(ROOT_TID@)) { self.proc_state == self.st(ROOT_TID@) } else { !st_terminal(self.proc_state) }))
        &&& forall|t: Tid| #[trigger] self.has(t) ==> (self.tasks[t].err is Some ==> self.st(t) is Error) && (self.tasks[t].node.s_kind() == NodeKind::Workflow <==> t == ROOT_TID@)
            && (self.tasks[t].revived > 0 ==> catch_flag(self.tasks[t]))
        // a task is created after its prev task (process.rs create_task): prev links are acyclic
        &&& forall|t: Tid| #[trigger] self.has(t) ==> self.tasks[t].seq < self.next_seq && prev_in(*self, t)
        &&& hooks_ok(*self)
        &&& forall|t: Tid, p: Tid| #[trigger] self.has(t) && #[trigger] self.has(p) && self.tasks[t].prev == Some(p) ==> self.tasks[p].seq < self.tasks[t].seq
    }
    pub open spec fn has(&self, t: Tid) -> bool { self.tasks.dom().contains(t) }
    pub open spec fn st(&self, t: Tid) -> TaskState { self.tasks[t].state }
}

// ---- lifecycle relations (oracle: property C02) -----------------------------------------
pub open spec fn legal(a: TaskState, b: TaskState) -> bool { a == b || (!st_terminal(a) && st_rank(a) <= st_rank(b)) }
// the single exception: an error taken by a matching catch puts the task back to running, once
pub open spec fn catch_flag(t: TaskAbs) -> bool { t.flags.dom().contains(consts::IS_CATCH_PROCESSED@) && t.flags[consts::IS_CATCH_PROCESSED@] }
pub open spec fn catch_revive(t: TaskAbs, s: TaskState) -> bool {
    t.state is Error && s is Running && t.revived == 0 && catch_flag(t)
}
// what may happen to one task over any number of steps (transitive, reflexive)
pub open spec fn task_fwd(a: TaskAbs, b: TaskAbs) -> bool {
    &&& a.prev == b.prev && a.node == b.node && a.seq == b.seq
    &&& ((b.revived == a.revived && legal(a.state, b.state))
        || (b.revived == a.revived + 1 && b.revived <= 1 && (a.state is Error || !st_terminal(a.state)) && st_rank(b.state) >= 2))
}
pub open spec fn fwd(a: Heap, b: Heap) -> bool {
    &&& forall|t: Tid| #[trigger] a.has(t) ==> b.has(t) && task_fwd(a.tasks[t], b.tasks[t])
    &&& forall|t: Tid| #[trigger] b.has(t) && !a.has(t) ==> b.tasks[t].revived <= 1
    &&& a.queue.is_prefix_of(b.queue) && a.task_events.is_prefix_of(b.task_events) && a.proc_events.is_prefix_of(b.proc_events) && a.msg_closed.is_prefix_of(b.msg_closed)
    &&& a.upserts.is_prefix_of(b.upserts) && a.messages.is_prefix_of(b.messages) && a.ctx_log.is_prefix_of(b.ctx_log) && a.saved.is_prefix_of(b.saved)
}
pub proof fn lemma_task_fwd_trans(a: TaskAbs, b: TaskAbs, c: TaskAbs)
    requires task_fwd(a, b), task_fwd(b, c)
    ensures task_fwd(a, c)
{}
pub broadcast proof fn lemma_fwd_refl(a: Heap) ensures #[trigger] fwd(a, a) {}
pub broadcast proof fn lemma_fwd_trans(a: Heap, b: Heap, c: Heap)
    requires #[trigger] fwd(a, b), #[trigger] fwd(b, c)
    ensures fwd(a, c)
{
    assert forall|t: Tid| #[trigger] a.has(t) implies c.has(t) && task_fwd(a.tasks[t], c.tasks[t]) by {
        assert(b.has(t));
        lemma_task_fwd_trans(a.tasks[t], b.tasks[t], c.tasks[t]);
    }
    assert forall|t: Tid| #[trigger] c.has(t) && !a.has(t) implies c.tasks[t].revived <= 1 by {
        if b.has(t) { assert(task_fwd(b.tasks[t], c.tasks[t])); }
    }
}
// ---- engine objects (lock fields replaced by the ghost heap) ---------------------------------
pub struct Task { pub pid: String, pub id: String, pub timestamp: i64, pub node: Arc<Node>, pub proc: Arc<Process> }
#[verifier::external_body]
pub struct Process { _p: u8 }
#[verifier::external_body]
pub struct Runtime { _p: u8 }
#[verifier::external_body]
pub struct Scheduler { _p: u8 }
#[verifier::external_body]
pub struct Executor { _p: u8 }
pub struct Context { pub runtime: Arc<Runtime>, pub executor: Arc<Executor>, pub proc: Arc<Process> }

// parent task: fixed at creation (prev links and node levels never change), hence a function of the tid
pub uninterp spec fn parent_tid(t: Tid) -> Option<Tid>;
pub open spec fn children_of(h: Heap, t: Tid) -> Set<Tid> { h.tasks.dom().filter(|c: Tid| h.tasks[c].prev == Some(t)) }
pub open spec fn tids(v: Seq<Arc<Task>>) -> Seq<Tid> { v.map_values(|t: Arc<Task>| t.id@) }
pub open spec fn tasks_ok(h: Heap, v: Seq<Arc<Task>>) -> bool {
    forall|i: int| 0 <= i < v.len() ==> h.has((#[trigger] v[i]).id@) && h.tasks[v[i].id@].node == v[i].node && v[i].node.level < 0x4000_0000
}
// (listed assumption: the node tree is less than 2^30 levels deep)
pub open spec fn wf_task(h: Heap, t: Task) -> bool { h.has(t.id@) && h.tasks[t.id@].node == t.node && t.node.level < 0x4000_0000 }

impl Task {
    // TRUSTED primitive layer: each contract mirrors a 1-5 line body of scheduler/process/task.rs over the RwLock'd fields
    #[verifier::external_body]
    pub fn node(&self) -> (r: &Arc<Node>) ensures *r == self.node { unimplemented!() }
    #[verifier::external_body]
    pub fn state(&self, Tracked(h): Tracked<&Heap>) -> (r: TaskState)
        requires h.has(self.id@) ensures r == h.st(self.id@) { unimplemented!() }
    #[verifier::external_body]
    pub fn err(&self, Tracked(h): Tracked<&Heap>) -> (r: Option<Error>)
        requires h.has(self.id@) ensures r == h.tasks[self.id@].err { unimplemented!() }
    #[verifier::external_body]
    pub fn start_time(&self, Tracked(h): Tracked<&Heap>) -> (r: i64)
        requires h.has(self.id@) ensures r as int == h.tasks[self.id@].start_time, 0 <= r { unimplemented!() }
    #[verifier::external_body]
    pub fn prev(&self, Tracked(h): Tracked<&Heap>) -> (r: Option<String>)
        requires h.has(self.id@) ensures opt_str(r) == h.tasks[self.id@].prev { unimplemented!() }
    #[verifier::external_body]
    pub fn is_kind(&self, kind: NodeKind) -> (r: bool) ensures r == (self.node.s_kind() == kind) { unimplemented!() }

    // set_state: THE state write.  Its precondition is the lifecycle rule; every call site must establish it (C02-P2)
    #[verifier::external_body]
    pub fn set_state(&self, state: TaskState, Tracked(h): Tracked<&mut Heap>)
        requires
            old(h).has(self.id@),
            legal(old(h).st(self.id@), state) || catch_revive(old(h).tasks[self.id@], state),
        ensures
            *final(h) == set_state_spec(*old(h), self.id@, state),
            // consequences (lemma_set_state_fwd), stated for the callers' benefit
            final(h).cur == old(h).cur, final(h).has(self.id@),
            fwd(*old(h), *final(h)), old(h).wf() ==> final(h).wf(),
    { unimplemented!() }
    #[verifier::external_body]
    pub fn set_err(&self, err: &Error, Tracked(h): Tracked<&mut Heap>)
        requires
            old(h).has(self.id@),
            legal(old(h).st(self.id@), TaskState::Error),
        ensures
            *final(h) == set_state_spec(Heap { tasks: old(h).tasks.insert(self.id@, TaskAbs { err: Some(*err), ..old(h).tasks[self.id@] }), ..*old(h) }, self.id@, TaskState::Error),
            // consequences
            final(h).cur == old(h).cur, final(h).has(self.id@), final(h).st(self.id@) is Error, final(h).tasks[self.id@].err == Some(*err),
            old(h).wf() ==> final(h).wf() && fwd(*old(h), *final(h)),
    { unimplemented!() }
    #[verifier::external_body]
    pub fn set_data(&self, vars: &Vars, Tracked(h): Tracked<&mut Heap>)
        requires old(h).has(self.id@)
        ensures final(h).has(self.id@), data_written(*old(h), *final(h), self.id@),
                fwd(*old(h), *final(h)), old(h).wf() ==> final(h).wf(), final(h).cur == old(h).cur,     // consequences (lemma_data_written_fwd)
    { unimplemented!() }
    #[verifier::external_body]
    pub fn flag(&self, key: &str, Tracked(h): Tracked<&Heap>) -> (r: Option<bool>)
        requires h.has(self.id@)
        ensures r == (if h.tasks[self.id@].flags.dom().contains(key@) { Some(h.tasks[self.id@].flags[key@]) } else { None::<bool> }),
    { unimplemented!() }
    #[verifier::external_body]
    pub fn set_flag(&self, key: &str, v: bool, Tracked(h): Tracked<&mut Heap>)
        requires old(h).has(self.id@)
        ensures *final(h) == (Heap { tasks: old(h).tasks.insert(self.id@, TaskAbs { flags: old(h).tasks[self.id@].flags.insert(key@, v), ..old(h).tasks[self.id@] }), ..*old(h) }),
                fwd(*old(h), *final(h)), old(h).wf() && (key@ != consts::IS_CATCH_PROCESSED@ || v) ==> final(h).wf(), final(h).cur == old(h).cur,     // consequences
    { unimplemented!() }

    // children = tasks whose prev link is this task, ordered by timestamp (process.rs: Process::children)
    #[verifier::external_body]
    pub fn children(&self, Tracked(h): Tracked<&Heap>) -> (r: Vec<Arc<Task>>)
        requires h.has(self.id@)
        ensures tasks_ok(*h, r@), tids(r@).no_duplicates(), tids(r@).to_set() == children_of(*h, self.id@),
                forall|i: int| 0 <= i < r@.len() ==> h.tasks[(#[trigger] r@[i]).id@].prev == Some(self.id@),
    { unimplemented!() }
    // parent = first task on the prev chain with a smaller node level (task.rs: Task::parent)
    #[verifier::external_body]
    pub fn parent(&self, Tracked(h): Tracked<&Heap>) -> (r: Option<Arc<Task>>)
        requires h.has(self.id@)
        ensures
            r is Some <==> parent_tid(self.id@) is Some,
            r is Some ==> r->Some_0.id@ == parent_tid(self.id@)->Some_0 && wf_task(*h, *r->Some_0) && r->Some_0.node.level < self.node.level,
            // the parent lies on the prev chain: it is the prev task or older
            r is Some ==> h.tasks[self.id@].prev is Some && h.has(h.tasks[self.id@].prev->Some_0) && h.tasks[r->Some_0.id@].seq <= h.tasks[h.tasks[self.id@].prev->Some_0].seq,
    { unimplemented!() }
    // siblings = the parent's children except this task (task.rs: Task::siblings)
    #[verifier::external_body]
    pub fn siblings(&self, Tracked(h): Tracked<&Heap>) -> (r: Vec<Arc<Task>>)
        requires h.has(self.id@)
        ensures
            tasks_ok(*h, r@), tids(r@).no_duplicates(), !tids(r@).contains(self.id@),
            forall|i: int| 0 <= i < r@.len() ==> (#[trigger] r@[i]).id@ != self.id@,
            // siblings hang off this task's parent (prev link), which is older than this task (creation order)
            forall|i: int| 0 <= i < r@.len() ==> h.tasks[(#[trigger] r@[i]).id@].prev == parent_tid(self.id@),
            parent_tid(self.id@) is Some ==> h.has(parent_tid(self.id@)->Some_0) && h.tasks[parent_tid(self.id@)->Some_0].seq < h.tasks[self.id@].seq,
            parent_tid(self.id@) is None ==> r@.len() == 0,
            parent_tid(self.id@) is Some ==> tids(r@).to_set() == children_of(*h, parent_tid(self.id@)->Some_0).remove(self.id@),
    { unimplemented!() }
}

pub open spec fn set_state_spec(h: Heap, t: Tid, s: TaskState) -> Heap {
    let a = h.tasks[t];
    let b = TaskAbs {
        state: s,
        err: if s is Error { a.err } else { None },
        end_time: if st_terminal(s) { h.now } else { a.end_time },
        start_time: if !st_terminal(s) && st_created(s) { h.now } else { a.start_time },
        revived: if a.state is Error && s is Running { a.revived + 1 } else { a.revived },
        ..a
    };
    Heap {
        tasks: h.tasks.insert(t, b),
        // the root task mirrors a terminal state into the process (task.rs: set_state / process.rs: set_state)
        proc_state: if st_terminal(s) && t == ROOT_TID@ { s } else { h.proc_state },
        ..h
    }
}
// writing variables into the task data does not touch the `$...` flags (ASSUMED: client options / context variables never carry `$` keys)
pub open spec fn data_written(a: Heap, b: Heap, t: Tid) -> bool {
    b == (Heap { tasks: a.tasks.insert(t, TaskAbs { data_rev: b.tasks[t].data_rev, ..a.tasks[t] }), ..a })
}

// ---- process / context / scheduler primitives ------------------------------------------------
pub uninterp spec fn new_tid(h: Heap) -> Tid;     // nanoid: ASSUMED fresh
pub open spec fn fresh_task(node: Arc<Node>, prev: Option<Tid>, seq: nat) -> TaskAbs {
    TaskAbs { state: TaskState::None, prev: prev, err: None, flags: Map::empty(), data_rev: 0, start_time: 0, end_time: 0, revived: 0, seq: seq, node: node }
}
impl Process {
    #[verifier::external_body]
    pub fn state(&self, Tracked(h): Tracked<&Heap>) -> (r: TaskState) ensures r == h.proc_state { unimplemented!() }
    // process.rs: set_state (state + start/end time)
    #[verifier::external_body]
    pub fn set_state(&self, state: TaskState, Tracked(h): Tracked<&mut Heap>)
        ensures *final(h) == (Heap { proc_state: state, ..*old(h) }),
                fwd(*old(h), *final(h)), final(h).cur == old(h).cur,     // consequences
                old(h).wf() && (old(h).has(ROOT_TID@) && old(h).tasks[ROOT_TID@].revived == 0 ==> (if st_terminal(old(h).st(ROOT_TID@)) { state == old(h).st(ROOT_TID@) } else { !st_terminal(state) })) ==> final(h).wf(),
    { unimplemented!() }
    #[verifier::external_body]
    pub fn set_err(&self, err: &Error, Tracked(h): Tracked<&mut Heap>)
        ensures *final(h) == (Heap { proc_state: TaskState::Error, proc_err: Some(*err), ..*old(h) }),
                fwd(*old(h), *final(h)), final(h).cur == old(h).cur,     // consequences
                old(h).wf() && (old(h).has(ROOT_TID@) && old(h).tasks[ROOT_TID@].revived == 0 ==> old(h).st(ROOT_TID@) is Error) ==> final(h).wf(),
    { unimplemented!() }
    #[verifier::external_body]
    pub fn task(&self, tid: &str, Tracked(h): Tracked<&Heap>) -> (r: Option<Arc<Task>>)
        ensures r is Some <==> h.has(tid@), r is Some ==> r->Some_0.id@ == tid@ && wf_task(*h, *r->Some_0),
    { unimplemented!() }
    // process.rs: task_by_nid(nid) -- the tasks of the process that run the node with that id (any round)
    #[verifier::external_body]
    pub fn task_by_nid(&self, nid: &str, Tracked(h): Tracked<&Heap>) -> (r: Vec<Arc<Task>>)
        ensures forall|i: int| 0 <= i < r@.len() ==> h.has((#[trigger] r@[i]).id@) && wf_task(*h, *r@[i]) && r@[i].node.id@ == nid@,
            (r@.len() == 0) <==> (forall|t: Tid| #[trigger] h.has(t) ==> h.tasks[t].node.id@ != nid@),
    { unimplemented!() }
    #[verifier::external_body]
    pub fn root(&self, Tracked(h): Tracked<&Heap>) -> (r: Option<Arc<Task>>)
        ensures r is Some <==> h.has(ROOT_TID@), r is Some ==> r->Some_0.id@ == ROOT_TID@ && wf_task(*h, *r->Some_0),
    { unimplemented!() }
    // process.rs: create_task -- a new task in state None whose prev link is `prev`
    #[verifier::external_body]
    pub fn create_task(&self, node: &Arc<Node>, prev: Option<Arc<Task>>, Tracked(h): Tracked<&mut Heap>) -> (r: Arc<Task>)
        requires prev is Some ==> old(h).has(prev->Some_0.id@)
        ensures
            !old(h).has(r.id@), r.node == *node,
            // only the workflow node gets the root tid "$" (process.rs: create_task)
            r.id@ == ROOT_TID@ <==> node.s_kind() == NodeKind::Workflow,
            *final(h) == (Heap { tasks: old(h).tasks.insert(r.id@, fresh_task(*node, match prev { Some(p) => Some(p.id@), None => None }, old(h).next_seq)), next_seq: old(h).next_seq + 1, ..*old(h) }),
            fwd(*old(h), *final(h)), old(h).wf() && node.s_kind() != NodeKind::Workflow ==> final(h).wf(), final(h).cur == old(h).cur, wf_task(*final(h), *r),   // consequences
    { unimplemented!() }
}
impl Runtime {
    #[verifier::external_body]
    pub fn scher(&self) -> (r: &Scheduler) { unimplemented!() }
    // runtime.rs: push = cache.upsert(task) + scheduler queue send
    #[verifier::external_body]
    pub fn push(&self, task: &Arc<Task>, Tracked(h): Tracked<&mut Heap>)
        requires old(h).has(task.id@)
        ensures *final(h) == (Heap { queue: old(h).queue.push(task.id@), ..*old(h) }),
                fwd(*old(h), *final(h)), old(h).wf() ==> final(h).wf(), final(h).cur == old(h).cur,     // consequences
    { unimplemented!() }
}
// what one task event does (summary of the `on_task` handler registered in Runtime::initialize: upsert, hooks, message):
// hooks may start catch/timeout steps, revive the emitted task (catch) and review upwards -- all within `fwd`
pub open spec fn emit_summary(a: Heap, b: Heap, t: Tid) -> bool {
    &&& fwd(a, b) && b.cur == a.cur && b.wf()
    &&& b.task_events.len() > a.task_events.len() && b.task_events[a.task_events.len() as int] == (t, a.st(t))
    // only an Error event can change existing tasks (its catch may revive the task and review upwards);
    // every other event only lets hooks create new act tasks
    &&& (!(a.st(t) is Error) ==> forall|x: Tid| #[trigger] a.has(x) ==> b.tasks[x] == a.tasks[x])
    &&& (!(a.st(t) is Error) ==> b.proc_state == a.proc_state)
}
impl Scheduler {
    // ASSUMED here, PROVED for the lifted `on_task` closure (same spec function emit_summary)
    #[verifier::external_body]
    pub fn emit_task_event(&self, task: &Arc<Task>, Tracked(h): Tracked<&mut Heap>) -> (r: Result<()>)
        requires old(h).wf(), wf_task(*old(h), **task)
        ensures emit_summary(*old(h), *final(h), task.id@), r is Ok,
    { unimplemented!() }
    // summary of the `on_proc` handler: start / complete / error event, return to a parent act, removal from the cache
    #[verifier::external_body]
    pub fn emit_proc_event(&self, proc: &Arc<Process>, Tracked(h): Tracked<&mut Heap>)
        ensures *final(h) == (Heap { proc_events: old(h).proc_events.push(old(h).proc_state), ..*old(h) }),
                fwd(*old(h), *final(h)), old(h).wf() ==> final(h).wf(), final(h).cur == old(h).cur,     // consequences
    { unimplemented!() }
}
pub uninterp spec fn eval_result<T>(expr: Seq<char>, h: Heap) -> Result<T>;
pub open spec fn data_only(a: Heap, b: Heap) -> bool {
    // scripts may write task data / process env (not `$` flags -- listed assumption), nothing else
    &&& b.tasks.dom() == a.tasks.dom()
    &&& forall|t: Tid| #[trigger] a.has(t) ==> b.tasks[t] == (TaskAbs { data_rev: b.tasks[t].data_rev, ..a.tasks[t] })
    &&& b == (Heap { tasks: b.tasks, ..a })
}
// each "consequences" line of a stub above is implied by its exact clause; proved here (small lemmas)
pub open spec fn meta_same(x: TaskAbs, y: TaskAbs) -> bool {
    x.state == y.state && x.err == y.err && x.node == y.node && x.prev == y.prev && x.seq == y.seq && x.revived == y.revived && (catch_flag(x) ==> catch_flag(y))
}
// wf and fwd only look at (state, err, node, prev, seq, revived, catch flag) of each task, cur, proc_state, next_seq and the four logs
pub proof fn lemma_meta(a: Heap, b: Heap)
    requires
        b.tasks.dom() == a.tasks.dom(), forall|t: Tid| #[trigger] a.has(t) ==> meta_same(a.tasks[t], b.tasks[t]),
        b.proc_state == a.proc_state, b.next_seq == a.next_seq, b.hooks == a.hooks,
        a.queue.is_prefix_of(b.queue) && a.task_events.is_prefix_of(b.task_events) && a.proc_events.is_prefix_of(b.proc_events) && a.msg_closed.is_prefix_of(b.msg_closed),
        a.upserts.is_prefix_of(b.upserts) && a.messages.is_prefix_of(b.messages) && a.ctx_log.is_prefix_of(b.ctx_log) && a.saved.is_prefix_of(b.saved),
    ensures fwd(a, b), a.wf() && b.has(b.cur) ==> b.wf(),
{
    reveal(Heap::wf);
    assert forall|t: Tid| #[trigger] a.has(t) implies b.has(t) && task_fwd(a.tasks[t], b.tasks[t]) by {}
    if a.wf() && b.has(b.cur) {
        assert forall|y: Tid| #[trigger] b.has(y) implies (b.tasks[y].err is Some ==> b.st(y) is Error) && (b.tasks[y].node.s_kind() == NodeKind::Workflow <==> y == ROOT_TID@)
            && (b.tasks[y].revived > 0 ==> catch_flag(b.tasks[y])) && b.tasks[y].seq < b.next_seq && prev_in(b, y) by { reveal(prev_in); assert(a.has(y)); assert(prev_in(a, y)); }
        assert forall|y: Tid, p: Tid| #[trigger] b.has(y) && #[trigger] b.has(p) && b.tasks[y].prev == Some(p) implies b.tasks[p].seq < b.tasks[y].seq by { assert(a.has(y) && a.has(p)); }
        if b.has(ROOT_TID@) { assert(a.has(ROOT_TID@)); }
    }
}
pub proof fn lemma_stub_cur(a: Heap, t: Tid) requires a.has(t) ensures fwd(a, Heap { cur: t, ..a }), a.wf() ==> (Heap { cur: t, ..a }).wf()
{
    reveal(Heap::wf); lemma_meta(a, Heap { cur: t, ..a }); }
pub proof fn lemma_stub_flag(a: Heap, t: Tid, k: Seq<char>, v: bool)
    requires a.has(t)
    ensures fwd(a, Heap { tasks: a.tasks.insert(t, TaskAbs { flags: a.tasks[t].flags.insert(k, v), ..a.tasks[t] }), ..a }),
            a.wf() && (k != consts::IS_CATCH_PROCESSED@ || v) ==> (Heap { tasks: a.tasks.insert(t, TaskAbs { flags: a.tasks[t].flags.insert(k, v), ..a.tasks[t] }), ..a }).wf(),
{
    reveal(Heap::wf);
    let b = Heap { tasks: a.tasks.insert(t, TaskAbs { flags: a.tasks[t].flags.insert(k, v), ..a.tasks[t] }), ..a };
    assert(b.tasks.dom() =~= a.tasks.dom());
    assert forall|y: Tid| #[trigger] a.has(y) implies b.has(y) && task_fwd(a.tasks[y], b.tasks[y]) by {}
    if k != consts::IS_CATCH_PROCESSED@ || v { lemma_meta(a, b); }
}
pub proof fn lemma_stub_data(a: Heap, b: Heap, t: Tid)
    requires a.has(t), data_written(a, b, t) ensures fwd(a, b), a.wf() ==> b.wf(), b.cur == a.cur
{
    reveal(Heap::wf); assert(b.tasks.dom() =~= a.tasks.dom()); lemma_meta(a, b); }
pub proof fn lemma_stub_logs(a: Heap, t: Tid, s: TaskState, e: Error, m: (Seq<char>, Seq<char>, MessageStatus), act: Option<Action>)
    requires a.has(t)
    ensures
        fwd(a, Heap { queue: a.queue.push(t), ..a }), a.wf() ==> (Heap { queue: a.queue.push(t), ..a }).wf(),
        fwd(a, Heap { proc_events: a.proc_events.push(a.proc_state), ..a }), a.wf() ==> (Heap { proc_events: a.proc_events.push(a.proc_state), ..a }).wf(),
        fwd(a, Heap { msg_closed: a.msg_closed.push(m), ..a }), a.wf() ==> (Heap { msg_closed: a.msg_closed.push(m), ..a }).wf(),
        fwd(a, Heap { action: act, ..a }), a.wf() ==> (Heap { action: act, ..a }).wf(),
        fwd(a, Heap { proc_state: s, ..a }), fwd(a, Heap { proc_state: TaskState::Error, proc_err: Some(e), ..a }),
{
    reveal(Heap::wf);
    lemma_meta(a, Heap { queue: a.queue.push(t), ..a });
    lemma_meta(a, Heap { proc_events: a.proc_events.push(a.proc_state), ..a });
    lemma_meta(a, Heap { msg_closed: a.msg_closed.push(m), ..a });
    lemma_meta(a, Heap { action: act, ..a });
    let b1 = Heap { proc_state: s, ..a };
    assert forall|y: Tid| #[trigger] a.has(y) implies b1.has(y) && task_fwd(a.tasks[y], b1.tasks[y]) by {}
    let b2 = Heap { proc_state: TaskState::Error, proc_err: Some(e), ..a };
    assert forall|y: Tid| #[trigger] a.has(y) implies b2.has(y) && task_fwd(a.tasks[y], b2.tasks[y]) by {}
}
pub proof fn lemma_stub_create(a: Heap, x: Tid, node: Arc<Node>, prev: Option<Tid>)
    requires !a.has(x), (x == ROOT_TID@ <==> node.s_kind() == NodeKind::Workflow), prev is Some ==> a.has(prev->Some_0)
    ensures fwd(a, Heap { tasks: a.tasks.insert(x, fresh_task(node, prev, a.next_seq)), next_seq: a.next_seq + 1, ..a }),
            a.wf() && node.s_kind() != NodeKind::Workflow ==> (Heap { tasks: a.tasks.insert(x, fresh_task(node, prev, a.next_seq)), next_seq: a.next_seq + 1, ..a }).wf(),
{
    reveal(Heap::wf);
    let b = Heap { tasks: a.tasks.insert(x, fresh_task(node, prev, a.next_seq)), next_seq: a.next_seq + 1, ..a };
    assert forall|y: Tid| #[trigger] a.has(y) implies b.has(y) && task_fwd(a.tasks[y], b.tasks[y]) by {}
    if a.wf() && node.s_kind() != NodeKind::Workflow {
        assert forall|y: Tid| #[trigger] b.has(y) implies (b.tasks[y].err is Some ==> b.st(y) is Error) && (b.tasks[y].node.s_kind() == NodeKind::Workflow <==> y == ROOT_TID@)
            && (b.tasks[y].revived > 0 ==> catch_flag(b.tasks[y])) && b.tasks[y].seq < b.next_seq && prev_in(b, y) by {
            reveal(prev_in);
            if y != x { assert(a.has(y)); assert(prev_in(a, y)); }
        }
        assert forall|y: Tid, p: Tid| #[trigger] b.has(y) && #[trigger] b.has(p) && b.tasks[y].prev == Some(p) implies b.tasks[p].seq < b.tasks[y].seq by {
            reveal(prev_in);
            if y != x { assert(a.has(y)); assert(prev_in(a, y)); assert(p != x); assert(a.has(p)); } else { assert(p != x); assert(a.has(p)); }
        }
        if b.has(ROOT_TID@) { assert(a.has(ROOT_TID@)); }
        assert(b.hooks == a.hooks);
    }
}
pub proof fn lemma_stub_set_state(a: Heap, t: Tid, s: TaskState)
    requires a.has(t), legal(a.st(t), s) || catch_revive(a.tasks[t], s)
    ensures fwd(a, set_state_spec(a, t, s)), a.wf() ==> set_state_spec(a, t, s).wf(),
{
    reveal(Heap::wf);
    let g = set_state_spec(a, t, s);
    assert forall|y: Tid| #[trigger] a.has(y) implies g.has(y) && task_fwd(a.tasks[y], g.tasks[y]) by {}
    if a.wf() {
        assert forall|y: Tid| #[trigger] g.has(y) implies (g.tasks[y].err is Some ==> g.st(y) is Error) && (g.tasks[y].node.s_kind() == NodeKind::Workflow <==> y == ROOT_TID@)
            && (g.tasks[y].revived > 0 ==> catch_flag(g.tasks[y])) && g.tasks[y].seq < g.next_seq && prev_in(g, y) by { reveal(prev_in); assert(a.has(y)); assert(prev_in(a, y)); }
        assert forall|y: Tid, p: Tid| #[trigger] g.has(y) && #[trigger] g.has(p) && g.tasks[y].prev == Some(p) implies g.tasks[p].seq < g.tasks[y].seq by { assert(a.has(y) && a.has(p)); }
    }
}
pub proof fn lemma_stub_set_err(a: Heap, t: Tid, e: Error)
    requires a.has(t), legal(a.st(t), TaskState::Error)
    ensures fwd(a, set_state_spec(Heap { tasks: a.tasks.insert(t, TaskAbs { err: Some(e), ..a.tasks[t] }), ..a }, t, TaskState::Error)),
            a.wf() ==> set_state_spec(Heap { tasks: a.tasks.insert(t, TaskAbs { err: Some(e), ..a.tasks[t] }), ..a }, t, TaskState::Error).wf(),
{
    reveal(Heap::wf);
    let a1 = Heap { tasks: a.tasks.insert(t, TaskAbs { err: Some(e), ..a.tasks[t] }), ..a };
    let g = set_state_spec(a1, t, TaskState::Error);
    assert forall|y: Tid| #[trigger] a.has(y) implies g.has(y) && task_fwd(a.tasks[y], g.tasks[y]) by {}
    if a.wf() {
        assert forall|y: Tid| #[trigger] g.has(y) implies (g.tasks[y].err is Some ==> g.st(y) is Error) && (g.tasks[y].node.s_kind() == NodeKind::Workflow <==> y == ROOT_TID@)
            && (g.tasks[y].revived > 0 ==> catch_flag(g.tasks[y])) && g.tasks[y].seq < g.next_seq && prev_in(g, y) by { reveal(prev_in); assert(a.has(y)); assert(prev_in(a, y)); }
        assert forall|y: Tid, p: Tid| #[trigger] g.has(y) && #[trigger] g.has(p) && g.tasks[y].prev == Some(p) implies g.tasks[p].seq < g.tasks[y].seq by { assert(a.has(y) && a.has(p)); }
    }
}
pub proof fn lemma_data_only_fwd(a: Heap, b: Heap)
    requires data_only(a, b)
    ensures fwd(a, b), a.wf() ==> b.wf(), a.cur == b.cur
{
    reveal(Heap::wf); lemma_meta(a, b); }
// TRUSTED: Vec::extend_from_slice appends (R7: `v.extend_from_slice(&e)` -> `vec_extend(&mut v, e)`)
#[verifier::external_body]
pub fn vec_extend<T: Clone>(v: &mut Vec<T>, e: Vec<T>) ensures final(v)@ == old(v)@ + e@ { unimplemented!() }
impl Task {
    // task.rs: update_data writes the variables into this task and into the ancestor that already holds the key (data only)
    #[verifier::external_body]
    pub fn update_data(&self, vars: &Vars, Tracked(h): Tracked<&mut Heap>)
        requires old(h).has(self.id@)
        ensures data_only(*old(h), *final(h)), fwd(*old(h), *final(h)), old(h).wf() ==> final(h).wf(), final(h).cur == old(h).cur,
    { unimplemented!() }
    // task.rs: outputs() fills the declared outputs from the scope (may evaluate expressions: data only)
    #[verifier::external_body]
    pub fn outputs(&self, Tracked(h): Tracked<&mut Heap>) -> (r: Vars)
        requires old(h).has(self.id@)
        ensures data_only(*old(h), *final(h)), fwd(*old(h), *final(h)), old(h).wf() ==> final(h).wf(), final(h).cur == old(h).cur,
    { unimplemented!() }
    // task.rs: is_auto_complete = data.get::<bool>("$auto_complete").unwrap_or(true)
    #[verifier::external_body]
    pub fn is_auto_complete(&self, Tracked(h): Tracked<&Heap>) -> (r: bool)
        requires h.has(self.id@)
        ensures r == (!h.tasks[self.id@].flags.dom().contains(consts::TASK_AUOT_COMPLETE@) || h.tasks[self.id@].flags[consts::TASK_AUOT_COMPLETE@]),
    { unimplemented!() }
    // task.rs: is_event_processed = data.get::<bool>("$is_event_processed").unwrap_or(false)
    #[verifier::external_body]
    pub fn is_event_processed(&self, Tracked(h): Tracked<&Heap>) -> (r: bool)
        requires h.has(self.id@)
        ensures r == (h.tasks[self.id@].flags.dom().contains(consts::IS_EVENT_PROCESSED@) && h.tasks[self.id@].flags[consts::IS_EVENT_PROCESSED@]),
    { unimplemented!() }
}
pub uninterp spec fn var_spec<T>(a: Option<Action>, name: Seq<char>) -> Option<T>;
impl Default for Act { #[verifier::external_body] fn default() -> (r: Self) { unimplemented!() } }
impl Error {
//@@ extract file=acts/src/error.rs in="impl Error" item="fn new" name=Error::new props=C06
//@@ opt noghost
//@@ spec
    ensures
        //# E1-error-value
        ret.message@ == message@ && ret.ecode@ == ecode@,
//@@ end
}
#[verifier::external_body]
pub struct CacheH { _p: u8 }
#[verifier::external_body]
pub struct StoreH { _p: u8 }
impl Runtime { #[verifier::external_body] pub fn cache(&self) -> (r: &CacheH) { unimplemented!() } }
impl CacheH { #[verifier::external_body] pub fn store(&self) -> (r: &StoreH) { unimplemented!() } }
impl StoreH {
    // cache/store.rs: set_message_with (proved in U-msg): every stored message of (pid, tid) gets the status
    #[verifier::external_body]
    pub fn set_message_with(&self, pid: &str, tid: &str, status: MessageStatus, Tracked(h): Tracked<&mut Heap>) -> (r: Result<bool>)
        ensures *final(h) == (Heap { msg_closed: old(h).msg_closed.push((pid@, tid@, status)), ..*old(h) }), r is Ok,
                fwd(*old(h), *final(h)), old(h).wf() ==> final(h).wf(), final(h).cur == old(h).cur,     // consequences
    { unimplemented!() }
}
// ---- hooks, timeouts
//@@ extract file=acts/src/model/act/timeout.rs item="enum TimeoutUnit" name=TimeoutUnit
//@@ opt structural
//@@ end
//@@ extract file=acts/src/model/act/timeout.rs item="struct TimeoutLimit" name=TimeoutLimit
//@@ opt dropderive=Clone,PartialEq
//@@ end
pub open spec fn unit_secs(u: TimeoutUnit) -> int { match u { TimeoutUnit::Second => 1, TimeoutUnit::Minute => 60, TimeoutUnit::Hour => 3600, TimeoutUnit::Day => 86400 } }
// oracle (C19): the configured duration in seconds
pub open spec fn limit_secs(l: TimeoutLimit) -> int { l.value as int * unit_secs(l.unit) }
// listed assumption: configured durations are far below the i64 range (|value| <= 10^11 of any unit)
pub open spec fn limit_small(l: TimeoutLimit) -> bool { -100_000_000_000 <= l.value <= 100_000_000_000 }
pub uninterp spec fn parse_limit(s: Seq<char>) -> Result<TimeoutLimit>;
impl TimeoutLimit {
//@@ extract file=acts/src/model/act/timeout.rs in="impl TimeoutLimit" item="fn as_secs" name=TimeoutLimit::as_secs props=C19
//@@ opt noghost
//@@ spec
    requires limit_small(*self)
    ensures
        //# W2-unit-conversion
        ret as int == limit_secs(*self),
//@@ end
    // model/act/timeout.rs: parse = regex `^(.*)(s|m|h|d)$` + i64 parse (regex engine: ASSUMED, uninterpreted result)
    #[verifier::external_body]
    // plus the listed assumption that configured limits are small (otherwise `as_secs() * 1000` wraps)
    pub fn parse(expr: &str) -> (r: Result<TimeoutLimit>) ensures r == parse_limit(expr@), r is Ok ==> limit_small(r->Ok_0) { unimplemented!() }
}
// TRUSTED: format!("{}{}", consts::IS_TIMEOUT_PROCESSED_PREFIX, on) (R7)
#[verifier::external_body]
pub fn timeout_key(on: &String) -> (r: String) ensures r@ == consts::IS_TIMEOUT_PROCESSED_PREFIX@ + on@ { unimplemented!() }
// TRUSTED: Vec<String>::contains(&s) (R7)
#[verifier::external_body]
pub fn vec_has(v: &Vec<String>, s: &str) -> (r: bool) ensures r == (exists|k: int| 0 <= k < v@.len() && #[trigger] v@[k]@ == s@) { unimplemented!() }
// TRUSTED: `&String == &String` compares the characters (R7)
#[verifier::external_body]
pub fn str_eq(a: &String, b: &String) -> (r: bool) ensures r == (a@ == b@) { unimplemented!() }
pub mod utils { pub mod time {
    use vstd::prelude::*;
    use super::super::Heap;
    verus! {
    // TRUSTED: the clock (chrono): non-negative i64 milliseconds
    #[verifier::external_body]
    pub fn time_millis(Tracked(h): Tracked<&Heap>) -> (r: i64) ensures r as int == h.now, 0 <= r { unimplemented!() }
    }
} }
#[verifier::external_body]
pub struct HooksMap { _p: u8 }
impl HooksMap {
    pub uninterp spec fn view(&self) -> Map<TaskLifeCycle, Seq<StatementBatch>>;
    // R7: `hooks.get(&key).unwrap_or(&default)`
    #[verifier::external_body]
    pub fn list(&self, key: &TaskLifeCycle) -> (r: &Vec<StatementBatch>)
        ensures r@ == (if self@.dom().contains(*key) { self@[*key] } else { Seq::<StatementBatch>::empty() }) { unimplemented!() }
}
pub open spec fn hooks_of(h: Heap, t: Tid) -> Map<TaskLifeCycle, Seq<StatementBatch>> {
    if h.hooks.dom().contains(t) { h.hooks[t] } else { Map::empty() }
}
//@@ extract file=acts/src/event/message.rs item="struct Model" name=Model
//@@ opt dropderive=Clone,Default
//@@ end
//@@ extract file=acts/src/event/message.rs item="struct Message" name=Message
//@@ opt dropderive=Clone,Default
//@@ end
pub open spec fn msg_allowed(h: Heap, t: Tid) -> bool {
    !(h.st(t) is Pending) && !(h.st(t) is Running) && !(h.tasks[t].flags.dom().contains(consts::TASK_EMIT_DISABLED@) && h.tasks[t].flags[consts::TASK_EMIT_DISABLED@])
}
#[verifier::external_body]
pub struct Emitter { _p: u8 }
impl Runtime { #[verifier::external_body] pub fn emitter(&self) -> (r: &Emitter) { unimplemented!() } }
impl Emitter {
    // event/emitter.rs: emit_message hands the message to every registered channel handler (spawned): logged
    #[verifier::external_body]
    pub fn emit_message(&self, msg: &Message, Tracked(h): Tracked<&mut Heap>)
        // monitor (C08-M1): a task message may be emitted only for a task that is neither pending nor running nor emit-disabled,
        // and it carries the message state of the task's current state
        requires old(h).has(msg.tid@), msg_allowed(*old(h), msg.tid@), msg.state == msg_state_of(old(h).st(msg.tid@))
        ensures *final(h) == (Heap { messages: old(h).messages.push((msg.tid@, msg.state)), ..*old(h) }),
                fwd(*old(h), *final(h)), old(h).wf() ==> final(h).wf(), final(h).cur == old(h).cur,     // consequences
    { unimplemented!() }
}
impl CacheH {
    // cache/cache.rs: upsert writes the task row (and patches the proc row): logged
    #[verifier::external_body]
    pub fn upsert(&self, task: &Arc<Task>, Tracked(h): Tracked<&mut Heap>) -> (r: Result<()>)
        ensures *final(h) == (Heap { upserts: old(h).upserts.push(task.id@), saved: old(h).saved.push((task.id@, old(h).tasks[task.id@])), ..*old(h) }),
                fwd(*old(h), *final(h)), old(h).wf() ==> final(h).wf(), final(h).cur == old(h).cur,     // consequences (lemma_stub_upsert)
    { unimplemented!() }
}
pub proof fn lemma_stub_upsert(a: Heap, t: Tid)
    ensures fwd(a, Heap { upserts: a.upserts.push(t), saved: a.saved.push((t, a.tasks[t])), ..a }),
            a.wf() ==> (Heap { upserts: a.upserts.push(t), saved: a.saved.push((t, a.tasks[t])), ..a }).wf()
{
    reveal(Heap::wf);
    lemma_meta(a, Heap { upserts: a.upserts.push(t), saved: a.saved.push((t, a.tasks[t])), ..a });
}
// R10: `X.unwrap_or_else(|err| error!(..))` -- the error is only logged
#[verifier::external_body]
pub fn ignore_err(r: Result<()>) { unimplemented!() }
impl Task {
    // task.rs: is_emit_disabled = data.get::<bool>("$emit_disabled").unwrap_or(false)
    #[verifier::external_body]
    pub fn is_emit_disabled(&self, Tracked(h): Tracked<&Heap>) -> (r: bool)
        requires h.has(self.id@)
        ensures r == (h.tasks[self.id@].flags.dom().contains(consts::TASK_EMIT_DISABLED@) && h.tasks[self.id@].flags[consts::TASK_EMIT_DISABLED@]) { unimplemented!() }
    // task.rs: create_message (M2: field-by-field image of the task; proved separately)
    #[verifier::external_body]
    pub fn create_message(self: &Arc<Self>, Tracked(h): Tracked<&Heap>) -> (r: Message)
        requires h.has(self.id@)
        ensures r.tid@ == self.id@, r.state == msg_state_of(h.st(self.id@)) { unimplemented!() }
}
pub open spec fn hooks_add(h: Heap, t: Tid, k: TaskLifeCycle, b: StatementBatch) -> Heap {
    let m = hooks_of(h, t);
    let l = if m.dom().contains(k) { m[k] } else { Seq::<StatementBatch>::empty() };
    Heap { hooks: h.hooks.insert(t, m.insert(k, l.push(b))), ..h }
}
impl Task {
    // task.rs: add_hook_stmts / add_hook_catch / add_hook_timeout = hooks.entry(key).and_modify(push).or_insert(vec![batch])
    #[verifier::external_body]
    pub fn add_hook_stmts(&self, key: TaskLifeCycle, value: &Act, Tracked(h): Tracked<&mut Heap>)
        requires old(h).has(self.id@)
        ensures *final(h) == hooks_add(*old(h), self.id@, key, StatementBatch::Statement(*value)),
                fwd(*old(h), *final(h)), old(h).wf() ==> final(h).wf(), final(h).cur == old(h).cur,     // consequences (lemma_stub_hooks)
    { unimplemented!() }
    #[verifier::external_body]
    pub fn add_hook_catch(&self, key: TaskLifeCycle, value: &Catch, Tracked(h): Tracked<&mut Heap>)
        requires old(h).has(self.id@), key is ErrorCatch
        ensures *final(h) == hooks_add(*old(h), self.id@, key, StatementBatch::Catch(*value)),
                fwd(*old(h), *final(h)), old(h).wf() ==> final(h).wf(), final(h).cur == old(h).cur,     // consequences
    { unimplemented!() }
    #[verifier::external_body]
    pub fn add_hook_timeout(&self, key: TaskLifeCycle, value: &Timeout, Tracked(h): Tracked<&mut Heap>)
        requires old(h).has(self.id@), key is Timeout
        ensures *final(h) == hooks_add(*old(h), self.id@, key, StatementBatch::Timeout(*value)),
                fwd(*old(h), *final(h)), old(h).wf() ==> final(h).wf(), final(h).cur == old(h).cur,     // consequences
    { unimplemented!() }
    // task.rs: params() evaluates the act params once and caches them in the task data (data only)
    #[verifier::external_body]
    pub fn params(&self, Tracked(h): Tracked<&mut Heap>) -> (r: JsonValue)
        requires old(h).has(self.id@)
        ensures data_only(*old(h), *final(h)), fwd(*old(h), *final(h)), old(h).wf() ==> final(h).wf(), final(h).cur == old(h).cur,
    { unimplemented!() }
}
pub proof fn lemma_stub_hooks(a: Heap, t: Tid, k: TaskLifeCycle, b: StatementBatch)
    requires a.has(t), (b is Catch ==> k is ErrorCatch), (b is Timeout ==> k is Timeout)
    ensures fwd(a, hooks_add(a, t, k, b)), a.wf() ==> hooks_add(a, t, k, b).wf()
{
    reveal(Heap::wf);
    let g = hooks_add(a, t, k, b);
    assert forall|y: Tid| #[trigger] a.has(y) implies g.has(y) && task_fwd(a.tasks[y], g.tasks[y]) by {}
    if a.wf() {
        assert forall|y: Tid| #[trigger] g.has(y) implies (g.tasks[y].err is Some ==> g.st(y) is Error) && (g.tasks[y].node.s_kind() == NodeKind::Workflow <==> y == ROOT_TID@)
            && (g.tasks[y].revived > 0 ==> catch_flag(g.tasks[y])) && g.tasks[y].seq < g.next_seq && prev_in(g, y) by { reveal(prev_in); assert(a.has(y)); assert(prev_in(a, y)); }
        assert forall|y: Tid, p: Tid| #[trigger] g.has(y) && #[trigger] g.has(p) && g.tasks[y].prev == Some(p) implies g.tasks[p].seq < g.tasks[y].seq by { assert(a.has(y) && a.has(p)); }
        assert forall|t2: Tid, k2: TaskLifeCycle, i: int| #![trigger g.hooks[t2][k2][i]] g.hooks.dom().contains(t2) && g.hooks[t2].dom().contains(k2) && 0 <= i < g.hooks[t2][k2].len()
            && !(k2 is ErrorCatch) && !(k2 is Timeout) implies g.hooks[t2][k2][i] is Statement by {
            if t2 == t && k2 == k {
                let m = hooks_of(a, t);
                let l = if m.dom().contains(k) { m[k] } else { Seq::<StatementBatch>::empty() };
                if i < l.len() { assert(a.hooks.dom().contains(t) && a.hooks[t].dom().contains(k)); assert(a.hooks[t][k][i] is Statement); }
            } else if t2 == t {
                assert(a.hooks.dom().contains(t) && a.hooks[t].dom().contains(k2)); assert(a.hooks[t][k2][i] is Statement);
            } else {
                assert(a.hooks[t2][k2][i] is Statement);
            }
        }
    }
}
//@@ extract file=acts/src/package/mod.rs item="enum ActRunAs" name=ActRunAs
//@@ opt structural
//@@ end
// model/info.rs PackageInfo: only the fields the extracted code reads
pub struct PackageInfo { pub id: String, pub schema: String, pub run_as: ActRunAs }
#[verifier::external_body]
pub struct PackExec { _p: u8 }
pub uninterp spec fn pack_info(uses: Seq<char>) -> Result<PackageInfo>;
impl Executor { #[verifier::external_body] pub fn pack(&self) -> (r: &PackExec) { unimplemented!() } }
impl PackExec {
    // export/executor/package_executor.rs: get = find the package record in the store (ASSUMED: a function of the package name)
    #[verifier::external_body]
    pub fn get(&self, id: &str) -> (r: Result<PackageInfo>) ensures r == pack_info(id@) { unimplemented!() }
}
pub mod serde_json {
    use vstd::prelude::*;
    use super::{JsonValue, ActError};
    verus! {
    pub type Value = JsonValue;
    // TRUSTED: serde_json::from_str (parse error converted to ActError by `?`)
    #[verifier::external_body]
    pub fn from_str(s: &str) -> (r: Result<JsonValue, ActError>) { unimplemented!() }
    }
}
pub mod jsonschema {
    use vstd::prelude::*;
    use super::{JsonValue, ActError};
    verus! {
    // TRUSTED: jsonschema::validate (validation error converted to ActError by `?`)
    #[verifier::external_body]
    pub fn validate(schema: &JsonValue, v: &JsonValue) -> (r: Result<(), ActError>) { unimplemented!() }
    }
}
#[verifier::external_body]
pub struct PackageReg { _p: u8 }
#[verifier::external_body]
pub struct PackRegister { _p: u8 }
#[verifier::external_body]
pub struct PackFn { _p: u8 }
impl Runtime { #[verifier::external_body] pub fn package(&self) -> (r: &PackageReg) { unimplemented!() } }
impl PackageReg { #[verifier::external_body] pub fn get(&self, name: &str) -> (r: Option<PackRegister>) { unimplemented!() } }
impl PackRegister {
    // R7: `(register.create)(params)` -- build the package function object from the act params
    #[verifier::external_body]
    pub fn create_pack(&self, params: JsonValue) -> (r: Result<PackFn>) { unimplemented!() }
}
impl PackFn {
    // package functions (set, code, block, parallel, sequence, subflow, ...) run with the task context: ASSUMED to keep the
    // lifecycle summary (they build act nodes, write data, start sub-processes); the core packages are checked in their own units
    #[verifier::external_body]
    pub fn execute(&self, ctx: &Context, Tracked(h): Tracked<&mut Heap>) -> (r: Result<Option<Vars>>)
        requires old(h).wf()
        ensures final(h).wf(), fwd(*old(h), *final(h)), final(h).cur == old(h).cur, final(h).queue == old(h).queue,
                forall|x: Tid| #[trigger] old(h).has(x) ==> final(h).tasks[x].state == old(h).tasks[x].state,
    { unimplemented!() }
}
impl Node {
    // tree/node.rs: Node::new = a detached node (no parent, children, next)
    #[verifier::external_body]
    pub fn new(id: &str, data: NodeContent, level: usize) -> (r: Node) ensures r.id@ == id@, r.content == data, r.level == level { unimplemented!() }
}
// utils/id.rs: shortid = nanoid (ASSUMED: some non-empty id)
#[verifier::external_body]
pub fn shortid() -> (r: String) ensures r@.len() > 0 { unimplemented!() }
pub open spec fn has_timeout_hook(h: Heap, t: Tid) -> bool { hooks_of(h, t).dom().contains(TaskLifeCycle::Timeout) }
impl Process {
    // R7: `self.find_tasks(|t| t.hooks().contains_key(&TaskLifeCycle::Timeout))` -- the tasks that carry a Timeout hook list, by start time
    #[verifier::external_body]
    pub fn tasks_with_timeout_hooks(&self, Tracked(h): Tracked<&Heap>) -> (r: Vec<Arc<Task>>)
        ensures tasks_ok(*h, r@), tids(r@).no_duplicates(), forall|t: Tid| #[trigger] tids(r@).contains(t) <==> h.has(t) && has_timeout_hook(*h, t),
    { unimplemented!() }
    // R8: `ctx.proc.with_env_mut(|data| { for (k, v) in self.env.iter() { data.set(k, v.clone()); } })` -- process env only (not part of the task heap)
    #[verifier::external_body]
    pub fn set_env_from(&self, env: &Vars) { unimplemented!() }
}
impl Context {
    // context.rs: build_acts builds run-time act nodes under the current task's node (tree/build.rs dyn_build_act): node links change
    #[verifier::external_body]
    pub fn build_acts(&self, acts: &Vec<Act>, is_sequence: bool, Tracked(h): Tracked<&mut Heap>) -> (r: Result<()>)
        ensures *final(h) == (Heap { links_rev: final(h).links_rev, ..*old(h) }),
                fwd(*old(h), *final(h)), old(h).wf() ==> final(h).wf(), final(h).cur == old(h).cur,     // consequences
    { unimplemented!() }
}
// the `$...` flag keys are pairwise different (literal texts repeated from utils/consts.rs; a changed constant makes this lemma fail -> UNDECIDED)
pub proof fn lemma_flag_keys()
    ensures consts::TASK_EMIT_DISABLED@ != consts::IS_CATCH_PROCESSED@, consts::TASK_AUOT_COMPLETE@ != consts::IS_CATCH_PROCESSED@,
            consts::IS_EVENT_PROCESSED@ != consts::IS_CATCH_PROCESSED@, consts::TASK_EMIT_DISABLED@ != consts::TASK_AUOT_COMPLETE@,
            forall|on: Seq<char>| #[trigger] (consts::IS_TIMEOUT_PROCESSED_PREFIX@ + on) != consts::IS_CATCH_PROCESSED@,
{
    reveal_strlit("$emit_disabled"); reveal_strlit("$is_catch_processed"); reveal_strlit("$auto_complete"); reveal_strlit("$is_event_processed"); reveal_strlit("$is_timeout_");
    assert(consts::TASK_EMIT_DISABLED@.len() == 14 && consts::IS_CATCH_PROCESSED@.len() == 19 && consts::TASK_AUOT_COMPLETE@.len() == 14 && consts::IS_EVENT_PROCESSED@.len() == 19);
    assert(consts::TASK_EMIT_DISABLED@[1] != consts::TASK_AUOT_COMPLETE@[1]);
    assert(consts::IS_EVENT_PROCESSED@[4] != consts::IS_CATCH_PROCESSED@[4]);
    assert forall|on: Seq<char>| #[trigger] (consts::IS_TIMEOUT_PROCESSED_PREFIX@ + on) != consts::IS_CATCH_PROCESSED@ by {
        assert((consts::IS_TIMEOUT_PROCESSED_PREFIX@ + on)[4] == consts::IS_TIMEOUT_PROCESSED_PREFIX@[4]);
        assert(consts::IS_TIMEOUT_PROCESSED_PREFIX@[4] != consts::IS_CATCH_PROCESSED@[4]);
    }
}
pub uninterp spec fn flag_as<T>(b: bool) -> T;      // a boolean data entry read at type T
// TRUSTED: serde reads a JSON bool as the bool (Vars::get::<bool>)
#[verifier::external_body]
pub broadcast proof fn axiom_flag_as_bool(b: bool) ensures #[trigger] flag_as::<bool>(b) == b {}
impl Task {
    // task.rs: find = the task's own data first, then the ancestors nearest-first (V3); only the own-data case is specified here
    #[verifier::external_body]
    pub fn find<T>(&self, name: &str, Tracked(h): Tracked<&Heap>) -> (r: Option<T>)
        requires h.has(self.id@)
        ensures h.tasks[self.id@].flags.dom().contains(name@) ==> r == Some(flag_as::<T>(h.tasks[self.id@].flags[name@])),
    { unimplemented!() }
    // R11: `self.hooks.read().unwrap()`
    #[verifier::external_body]
    pub fn hooks_snapshot(&self, Tracked(h): Tracked<&Heap>) -> (r: HooksMap) ensures r@ == hooks_of(*h, self.id@) { unimplemented!() }
    // R6: `task.with_data(|data| data.get::<bool>(K)).unwrap_or_default()`
    #[verifier::external_body]
    pub fn flag_or_false(&self, key: &str, Tracked(h): Tracked<&Heap>) -> (r: bool)
        requires h.has(self.id@)
        ensures r == (h.tasks[self.id@].flags.dom().contains(key@) && h.tasks[self.id@].flags[key@]) { unimplemented!() }
}
impl Node {
    // tree/node.rs: outputs() = the declared outputs of the node content
    pub uninterp spec fn s_outputs(&self) -> Vars;
    #[verifier::external_body]
    pub fn outputs(&self) -> (r: Vars) ensures r == self.s_outputs() { unimplemented!() }
}
impl Process {
    // process.rs: set_data writes into the root task's data (data only)
    #[verifier::external_body]
    pub fn set_data(&self, vars: &Vars, Tracked(h): Tracked<&mut Heap>)
        ensures data_only(*old(h), *final(h)), fwd(*old(h), *final(h)), old(h).wf() ==> final(h).wf(), final(h).cur == old(h).cur,
    { unimplemented!() }
}
impl Task {
    // task.rs: backs walks the prev chain for the first task satisfying the predicate, collecting open tasks on the way (reads only)
    #[verifier::external_body]
    pub fn backs<F: Fn(&Arc<Task>) -> bool>(&self, predicate: &F, path: &mut Vec<Arc<Task>>, Tracked(h): Tracked<&Heap>) -> (r: Option<Arc<Task>>)
        requires h.has(self.id@), forall|t: &Arc<Task>| #[trigger] predicate.requires((t,))
        ensures tasks_ok(*h, final(path)@), r is Some ==> wf_task(*h, *r->Some_0) && predicate.ensures((&r->Some_0,), true) && r->Some_0.id@ != self.id@,
    { unimplemented!() }
    // R7: `self.backs(&|t| t.node.kind() == NodeKind::Step && t.node.id() == nid, &mut path)` -- backs with the step-by-id predicate
    #[verifier::external_body]
    pub fn backs_step(&self, nid: &String, path: &mut Vec<Arc<Task>>, Tracked(h): Tracked<&Heap>) -> (r: Option<Arc<Task>>)
        requires h.has(self.id@)
        ensures tasks_ok(*h, final(path)@), r is Some ==> wf_task(*h, *r->Some_0) && r->Some_0.node.s_kind() == NodeKind::Step && r->Some_0.node.id@ == nid@ && r->Some_0.id@ != self.id@,
    { unimplemented!() }
    // R7: `task.follows(&|t| t.is_kind(NodeKind::Step) && t.is_acts(), &mut path_tasks)` -- follows with the step-with-acts predicate: the nearest
    // following step tasks that have acts; the tasks passed on the way are collected in `path` (their state is re-read by the caller)
    #[verifier::external_body]
    pub fn follows_step_acts(&self, path: &mut Vec<Arc<Task>>, Tracked(h): Tracked<&Heap>) -> (r: Vec<Arc<Task>>)
        requires h.has(self.id@)
        ensures tasks_ok(*h, final(path)@), tasks_ok(*h, r@),
    { unimplemented!() }
    // task.rs: create_context = Context::new(proc, task): a context whose current task is this task
    #[verifier::external_body]
    pub fn create_context(self: &Arc<Self>, Tracked(h): Tracked<&mut Heap>) -> (r: Context)
        requires wf_task(*old(h), **self)
        ensures *final(h) == (Heap { cur: self.id@, action: None, ctx_log: old(h).ctx_log.push(self.id@), ..*old(h) }),
                fwd(*old(h), *final(h)), old(h).wf() ==> final(h).wf(),     // consequences
    { unimplemented!() }
}
impl Context {
    #[verifier::external_body]
    pub fn action(&self, Tracked(h): Tracked<&Heap>) -> (r: Option<Action>) ensures r == h.action { unimplemented!() }
    // context.rs: set_action stores the action and copies its options into the context variables
    #[verifier::external_body]
    pub fn set_action(&self, action: &Action, Tracked(h): Tracked<&mut Heap>) -> (r: Result<()>)
        ensures *final(h) == (Heap { action: Some(*action), ..*old(h) }), r is Ok,
                fwd(*old(h), *final(h)), old(h).wf() ==> final(h).wf(), final(h).cur == old(h).cur,     // consequences
    { unimplemented!() }
    // context.rs: get_var reads a context variable (= an option of the current action)
    #[verifier::external_body]
    pub fn get_var<T>(&self, name: &str, Tracked(h): Tracked<&Heap>) -> (r: Option<T>) ensures r == var_spec::<T>(h.action, name@) { unimplemented!() }
    // R7: `ctx.get_var::<T>(k).unwrap_or_default()`
    #[verifier::external_body]
    pub fn get_var_or_default<T>(&self, name: &str, Tracked(h): Tracked<&Heap>) -> (r: T)
        ensures var_spec::<T>(h.action, name@) is Some ==> r == var_spec::<T>(h.action, name@)->Some_0 { unimplemented!() }
    // context.rs: prepare = init_vars: the task's inputs are written into its data (may evaluate input expressions: data only)
    #[verifier::external_body]
    pub fn prepare(&self, Tracked(h): Tracked<&mut Heap>)
        requires old(h).wf()
        ensures data_only(*old(h), *final(h)), fwd(*old(h), *final(h)), final(h).wf(), final(h).cur == old(h).cur,
    { unimplemented!() }
    // context.rs: vars() = clone of the context variables (RefCell, not part of the task heap)
    #[verifier::external_body]
    pub fn vars(&self) -> (r: Vars) { unimplemented!() }
    #[verifier::external_body]
    pub fn task(&self, Tracked(h): Tracked<&Heap>) -> (r: Arc<Task>)
        requires h.wf() ensures r.id@ == h.cur, wf_task(*h, *r), h.has(h.cur) { unimplemented!() }
    #[verifier::external_body]
    pub fn set_task(&self, task: &Arc<Task>, Tracked(h): Tracked<&mut Heap>)
        requires wf_task(*old(h), **task)
        ensures *final(h) == (Heap { cur: task.id@, ..*old(h) }),
                fwd(*old(h), *final(h)), old(h).wf() ==> final(h).wf(),     // consequences
    { unimplemented!() }
    // context.rs: eval = run the expression in the JS environment (QuickJS, FFI): ASSUMED
    #[verifier::external_body]
    pub fn eval<T>(&self, expr: &str, Tracked(h): Tracked<&mut Heap>) -> (r: Result<T>)
        ensures data_only(*old(h), *final(h)), r == eval_result::<T>(expr@, *old(h)),
                // consequences of data_only (lemma_data_only_fwd)
                fwd(*old(h), *final(h)), old(h).wf() ==> final(h).wf(), final(h).cur == old(h).cur,
    { unimplemented!() }
}
