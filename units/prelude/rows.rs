// ---- the real row types (acts/src/store/data/*.rs); derived Clone replaced by an ASSUMED field-wise clone
//@@ extract file=acts/src/store/data/message.rs item="enum MessageStatus" name=MessageStatus
//@@ opt structural
//@@ end
//@@ extract file=acts/src/event/message.rs item="enum MessageState" name=MessageState
//@@ opt structural
//@@ end
pub open spec fn status_code(s: MessageStatus) -> int {
    match s { MessageStatus::Created => 0, MessageStatus::Acked => 1, MessageStatus::Completed => 2, MessageStatus::Error => 3 }
}
// serde_repr: the status is stored as its i8 code
impl Serialize for MessageStatus { open spec fn to_json(&self) -> JsonV { JsonV::Int(status_code(*self)) } }
pub mod data {
use super::*;
pub use super::MessageStatus;
//@@ extract file=acts/src/store/data/message.rs item="struct Message" name=data::Message
//@@ opt dropderive=Clone
//@@ end
//@@ extract file=acts/src/store/data/task.rs item="struct Task" name=data::Task
//@@ opt dropderive=Clone
//@@ end
//@@ extract file=acts/src/store/data/proc.rs item="struct Proc" name=data::Proc
//@@ opt dropderive=Clone
//@@ end
//@@ extract file=acts/src/store/data/model.rs item="struct Model" name=data::Model
//@@ opt dropderive=Clone
//@@ end
//@@ extract file=acts/src/store/data/event.rs item="struct Event" name=data::Event
//@@ opt dropderive=Clone
//@@ end
// TRUSTED: #[derive(Clone)] on plain data structs is a field-wise copy
impl Clone for Message { #[verifier::external_body] fn clone(&self) -> (r: Self) ensures r == *self { unimplemented!() } }
impl Clone for Task { #[verifier::external_body] fn clone(&self) -> (r: Self) ensures r == *self { unimplemented!() } }
impl Clone for Proc { #[verifier::external_body] fn clone(&self) -> (r: Self) ensures r == *self { unimplemented!() } }
impl Clone for Model { #[verifier::external_body] fn clone(&self) -> (r: Self) ensures r == *self { unimplemented!() } }
impl Clone for Event { #[verifier::external_body] fn clone(&self) -> (r: Self) ensures r == *self { unimplemented!() } }
}
// columns that the engine's own queries filter on (other keys: unspecified value)
pub uninterp spec fn other_field(tag: int, key: Seq<char>) -> JsonV;
impl Row for data::Message {
    open spec fn rid(&self) -> Seq<char> { self.id@ }
    open spec fn field(&self, key: Seq<char>) -> JsonV {
        if key == "id"@ { JsonV::Str(self.id@) } else if key == "pid"@ { JsonV::Str(self.pid@) } else if key == "tid"@ { JsonV::Str(self.tid@) }
        else if key == "status"@ { JsonV::Int(status_code(self.status)) } else if key == "update_time"@ { JsonV::Int(self.update_time as int) }
        else if key == "retry_times"@ { JsonV::Int(self.retry_times as int) } else { other_field(1, key) }
    }
}
impl Row for data::Task {
    open spec fn rid(&self) -> Seq<char> { self.id@ }
    open spec fn field(&self, key: Seq<char>) -> JsonV {
        if key == "id"@ { JsonV::Str(self.id@) } else if key == "pid"@ { JsonV::Str(self.pid@) } else if key == "tid"@ { JsonV::Str(self.tid@) }
        else if key == "state"@ { JsonV::Str(self.state@) } else { other_field(2, key) }
    }
}
impl Row for data::Proc {
    open spec fn rid(&self) -> Seq<char> { self.id@ }
    open spec fn field(&self, key: Seq<char>) -> JsonV {
        if key == "id"@ { JsonV::Str(self.id@) } else if key == "mid"@ { JsonV::Str(self.mid@) } else if key == "state"@ { JsonV::Str(self.state@) }
        else { other_field(3, key) }
    }
}
impl Row for data::Model {
    open spec fn rid(&self) -> Seq<char> { self.id@ }
    open spec fn field(&self, key: Seq<char>) -> JsonV {
        if key == "id"@ { JsonV::Str(self.id@) } else if key == "name"@ { JsonV::Str(self.name@) } else { other_field(4, key) }
    }
}
impl Row for data::Event {
    open spec fn rid(&self) -> Seq<char> { self.id@ }
    open spec fn field(&self, key: Seq<char>) -> JsonV {
        if key == "id"@ { JsonV::Str(self.id@) } else if key == "mid"@ { JsonV::Str(self.mid@) } else { other_field(5, key) }
    }
}
