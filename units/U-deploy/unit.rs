// U-deploy: model deployment and removal (C20-Y1/Y2, C17-T4) against the abstract store; NodeTree::make (Y3).
//@@ unit U-deploy
//@@ default props=C20 rewrites=R1,R2,R3,R5,R13 ghost="Tracked(st): Tracked<&mut StoreAbs>" ghostarg="Tracked(st)"
//@@ heapmethods query delete find create update time_millis
use vstd::prelude::*;
use std::sync::Arc;
verus! {
//@@ include prelude/std_specs.rs
//@@ include prelude/store.rs
//@@ include prelude/rows.rs
//@@ include prelude/storeabs.rs
//@@ include prelude/consts.rs
use data::Model;

// ---- model types: only the fields the extracted code reads (prelude re-declaration, DESIGN 4.1)
#[verifier::external_body]
pub struct JsonParams { _p: u8 }
pub struct Act { pub id: String, pub name: String, pub uses: String, pub params: JsonParams }
pub struct Workflow { pub id: String, pub name: String, pub ver: i32, pub on: Vec<Act> }
pub uninterp spec fn wf_valid(w: Workflow) -> bool;
pub uninterp spec fn yaml_of(w: Workflow) -> Seq<char>;
pub uninterp spec fn params_json(p: JsonParams) -> Seq<char>;
impl Workflow {
    // Workflow::valid builds the node tree (NodeTree::load): duplicate ids and empty event ids are rejected there (Y3)
    #[verifier::external_body]
    pub fn valid(&self) -> (r: Result<()>) ensures r is Ok <==> wf_valid(*self) { unimplemented!() }
}
#[derive(Debug)]
pub struct SerErr {}
impl SerErr {
    // serde_yaml::Error: Display (`err.to_string()`): some text
    #[verifier::external_body]
    pub fn to_string(&self) -> (r: String) { unimplemented!() }
}
pub mod serde_yaml {
    use vstd::prelude::*;
    use super::{Workflow, yaml_of, SerErr};
    verus! {
    // TRUSTED: serde_yaml::to_string(model) is the YAML text of the model and does not fail (derive-generated Serialize)
    #[verifier::external_body]
    pub fn to_string(w: &Workflow) -> (r: Result<String, SerErr>) ensures r is Ok, r->Ok_0@ == yaml_of(*w) { unimplemented!() }
    }
}
// TRUSTED: serde_json::to_string(&act.params) (R7)
#[verifier::external_body]
pub fn json_text(p: &JsonParams) -> (r: Result<String>) ensures r is Ok ==> r->Ok_0@ == params_json(*p) { unimplemented!() }
// TRUSTED: format!("{}:{}", a, b) is a ++ ":" ++ b (R7)
#[verifier::external_body]
pub fn fmt_colon(a: &str, b: &String) -> (r: String) ensures r@ == a@ + ":"@ + b@ { unimplemented!() }
pub mod utils2 { pub mod time {
    use vstd::prelude::*;
    verus! {
    // TRUSTED: timestamp() is some clock value
    #[verifier::external_body]
    pub fn timestamp() -> i64 { unimplemented!() }
    }
} }
#[verifier::external_body]
pub struct Runtime { _p: u8 }
#[verifier::external_body]
pub struct Cache { _p: u8 }
impl Runtime { #[verifier::external_body] pub fn cache(&self) -> (r: &Cache) { unimplemented!() } }
impl Cache { #[verifier::external_body] pub fn store(&self) -> (r: &Store) { unimplemented!() } }

pub open spec fn ev_id(mid: Seq<char>, a: Act) -> Seq<char> { mid + ":"@ + a.id@ }
pub open spec fn ev_ids(mid: Seq<char>, acts: Seq<Act>) -> Set<Seq<char>> { acts.map_values(|a: Act| ev_id(mid, a)).to_set() }
pub proof fn lemma_ev_ids(mid: Seq<char>, acts: Seq<Act>, i: int)
    requires 0 <= i < acts.len()
    ensures ev_ids(mid, acts).contains(ev_id(mid, acts[i]))
{
    let s = acts.map_values(|a: Act| ev_id(mid, a));
    assert(s[i] == ev_id(mid, acts[i]));
    assert(s.contains(s[i]));
}
pub open spec fn event_of_model(mid: Seq<char>) -> spec_fn(data::Event) -> bool { |e: data::Event| e.mid@ == mid }
pub open spec fn mid_query(q: Query, mid: Seq<char>) -> bool {
    q.conds@.len() == 1 && q.conds@[0].r#type == CondType::And && q.conds@[0].conds@.len() == 1 && q.limit == 100000
    && q.conds@[0].conds@[0].op == ExprOp::EQ && q.conds@[0].conds@[0].key@ == "mid"@ && q.conds@[0].conds@[0].value@ == JsonV::Str(mid)
}
pub proof fn lemma_mid_query(q: Query, mid: Seq<char>)
    requires mid_query(q, mid)
    ensures forall|e: data::Event| #[trigger] query_holds(q, e) <==> event_of_model(mid)(e)
{
    assert("mid"@ != "id"@) by { reveal_strlit("mid"); reveal_strlit("id"); assert("mid"@.len() != "id"@.len()); }
    assert forall|e: data::Event| #[trigger] query_holds(q, e) <==> event_of_model(mid)(e) by {
        reveal(query_holds); reveal(cond_holds);
        let c = q.conds@[0];
        if e.mid@ == mid { assert(cond_holds(c, e)); }
        if query_holds(q, e) { assert(cond_holds(c, e)); assert(expr_holds(c.conds@[0].op, e.field(c.conds@[0].key@), c.conds@[0].value@)); }
    }
}
pub open spec fn rest_same(a: StoreAbs, b: StoreAbs) -> bool {
    a.tasks == b.tasks && a.procs == b.procs && a.messages == b.messages && a.query_ok == b.query_ok && a.write_ok == b.write_ok
}

impl data::Event {
//@@ extract file=acts/src/store/data/event.rs in="impl Event" item="fn from_act" name=data::Event::from_act
//@@ opt heapmethods=time_millis
//@@ rw R7 `serde_json :: to_string ( & act . params ) . map_err ( $F:args ) ?` => `json_text(&act.params)?`
//@@ rw R7 `act . name . to_string ( )` => `act.name.clone()`
//@@ rw R7 `utils :: time :: timestamp ( )` => `utils2::time::timestamp()`
//@@ spec
    ensures
        //# Y2-event-image
        ret is Ok ==> ret->Ok_0.id@ == event_id@ && ret->Ok_0.mid@ == mid@ && ret->Ok_0.ver == ver && ret->Ok_0.uses@ == act.uses@
            && ret->Ok_0.name@ == act.name@ && ret->Ok_0.params@ == params_json(act.params),
        //# Y2-event-frame
        *final(st) == (StoreAbs { now: final(st).now, ..*old(st) }),
//@@ end
}

impl Store {
//@@ extract file=acts/src/store/store.rs in="impl Store" item="fn deploy" name=Store::deploy
//@@ rw R7 `$S:lit . into ( )` => `$S.to_string()`
//@@ rw R7 `utils :: time :: timestamp ( )` => `utils2::time::timestamp()`
//@@ spec
    requires
        old(st).wf(),
        // stored versions are below i32::MAX (listed assumption; `ver + 1` must not wrap)
        forall|k: Seq<char>| old(st).models.dom().contains(k) ==> (#[trigger] old(st).models[k]).ver < i32::MAX,
    ensures
        //# Y1-empty-id-rejected
        model.id@.len() == 0 ==> ret is Err && *final(st) == *old(st),
        //# Y1-frame
        rest_same(*old(st), *final(st)) && final(st).events == old(st).events,
        //# Y1-other-models-kept
        forall|k: Seq<char>| k != model.id@ && old(st).models.dom().contains(k) ==> final(st).models.dom().contains(k) && final(st).models[k] == old(st).models[k],
        //# Y1-no-other-new
        forall|k: Seq<char>| k != model.id@ && final(st).models.dom().contains(k) ==> old(st).models.dom().contains(k),
        //# Y1-stores-given-model
        ret is Ok ==> final(st).models.dom().contains(model.id@) && final(st).models[model.id@].id@ == model.id@
            && final(st).models[model.id@].name@ == model.name@ && final(st).models[model.id@].data@ == yaml_of(*model),
        //# Y1-version-plus-one
        ret is Ok ==> final(st).models[model.id@].ver == (if old(st).models.dom().contains(model.id@) { old(st).models[model.id@].ver + 1 } else { 1 }),
        //# Y1-create-time-kept
        ret is Ok && old(st).models.dom().contains(model.id@) ==> final(st).models[model.id@].create_time == old(st).models[model.id@].create_time,
        //# Y1-err-unchanged
        ret is Err ==> final(st).models == old(st).models,
//@@ end
}

#[verifier::external_body]
pub struct ModelExecutor { runtime: Arc<Runtime> }
impl ModelExecutor {
    #[verifier::external_body]
    pub fn rt(&self) -> (r: &Runtime) { unimplemented!() }

//@@ extract file=acts/src/export/executor/model_executor.rs in="impl ModelExecutor" item="fn deploy_event" name=ModelExecutor::deploy_event
//@@ opt heapmethods=from_act
//@@ rw R7 `self . runtime . cache ( )` => `self.rt().cache()`
//@@ rw R7 `format ! ( "{}:{}" , mid , act . id )` => `fmt_colon(mid, &act.id)`
//@@ rw R19 `for act in acts` => `for act in acts.iter()`
//@@ spec
    requires old(st).wf(),
    ensures
        //# Y2-frame
        rest_same(*old(st), *final(st)) && final(st).models == old(st).models,
        //# Y2-one-event-per-on-entry
        ret is Ok ==> forall|i: int| 0 <= i < acts@.len() ==> final(st).events.dom().contains(ev_id(mid@, #[trigger] acts@[i]))
            && final(st).events[ev_id(mid@, acts@[i])].ver == ver,
        //# Y2-only-those-events
        forall|k: Seq<char>| !(#[trigger] ev_ids(mid@, acts@).contains(k))
            ==> (final(st).events.dom().contains(k) <==> old(st).events.dom().contains(k)) && (old(st).events.dom().contains(k) ==> final(st).events[k] == old(st).events[k]),
//@@ loop 1
        invariant
            //# Y2-inv-frame
            rest_same(*old(st), *st) && st.models == old(st).models && old(st).wf() && __v1@ == acts@,
            //# Y2-inv-done
            forall|i: int| 0 <= i < __i1 ==> st.events.dom().contains(ev_id(mid@, #[trigger] __v1@[i])) && st.events[ev_id(mid@, __v1@[i])].ver == ver,
            //# Y2-inv-others
            forall|k: Seq<char>| !(#[trigger] ev_ids(mid@, __v1@).contains(k))
                ==> (st.events.dom().contains(k) <==> old(st).events.dom().contains(k)) && (old(st).events.dom().contains(k) ==> st.events[k] == old(st).events[k]),
//@@ proof after=fmt_colon#1
            proof { lemma_ev_ids(mid@, __v1@, __i1 as int - 1); assert(event_id@ == ev_id(mid@, __v1@[__i1 as int - 1])); assert(ev_ids(mid@, __v1@).contains(event_id@)); }
            let ghost st0 = *st;
//@@ proof after=update#1
            proof { assert(forall|k: Seq<char>| k != event_id@ ==> (st.events.dom().contains(k) <==> st0.events.dom().contains(k)) && (st0.events.dom().contains(k) ==> st.events[k] == st0.events[k])); }
//@@ proof after=create#1
            proof { assert(forall|k: Seq<char>| k != event_id@ ==> (st.events.dom().contains(k) <==> st0.events.dom().contains(k)) && (st0.events.dom().contains(k) ==> st.events[k] == st0.events[k])); }
//@@ end

//@@ extract file=acts/src/export/executor/model_executor.rs in="impl ModelExecutor" item="fn deploy" name=ModelExecutor::deploy
//@@ opt heapmethods=deploy,deploy_event
//@@ rw R7 `self . runtime . cache ( )` => `self.rt().cache()`
//@@ spec
    requires
        old(st).wf(),
        forall|k: Seq<char>| old(st).models.dom().contains(k) ==> (#[trigger] old(st).models[k]).ver < i32::MAX,
    ensures
        //# Y2-invalid-model-stores-nothing
        !wf_valid(*model) ==> ret is Err && *final(st) == *old(st),
        //# Y2-deploy-frame
        rest_same(*old(st), *final(st)),
        //# Y2-deploy-stores
        ret is Ok ==> final(st).models.dom().contains(model.id@) && final(st).models[model.id@].data@ == yaml_of(*model)
            && final(st).models[model.id@].ver == (if old(st).models.dom().contains(model.id@) { old(st).models[model.id@].ver + 1 } else { 1 }),
        //# Y2-deploy-events
        ret is Ok ==> forall|i: int| 0 <= i < model.on@.len() ==> final(st).events.dom().contains(ev_id(model.id@, #[trigger] model.on@[i])),
//@@ end

//@@ extract file=acts/src/export/executor/model_executor.rs in="impl ModelExecutor" item="fn rm" name=ModelExecutor::rm props=C17,C20
//@@ rw R7 `self . runtime . cache ( )` => `self.rt().cache()`
//@@ rw R19 `for evt in events . rows $B:block` => `for evt in events.rows.iter() $B`
//@@ rw R14 `let events = store . events ( ) . query ( & Query :: new ( ) . push ( $C ) ) ? ;` => `let q = Query::new().push($C); let events = store.events().query(&q)?;`
//@@ spec
    requires
        old(st).wf(),
        sel_count(old(st).events, event_of_model(id@)) <= 100000,
    ensures
        //# T4-frame
        rest_same(*old(st), *final(st)),
        //# T4-other-events-kept
        forall|k: Seq<char>| old(st).events.dom().contains(k) && old(st).events[k].mid@ != id@ ==> final(st).events.dom().contains(k) && final(st).events[k] == old(st).events[k],
        //# T4-no-new-events
        forall|k: Seq<char>| final(st).events.dom().contains(k) ==> old(st).events.dom().contains(k) && final(st).events[k] == old(st).events[k],
        //# T4-its-events-removed
        ret is Ok ==> forall|k: Seq<char>| old(st).events.dom().contains(k) && old(st).events[k].mid@ == id@ ==> !final(st).events.dom().contains(k),
        //# T4-model-removed
        ret is Ok ==> final(st).models == old(st).models.remove(id@),
        //# T4-other-models-kept
        forall|k: Seq<char>| k != id@ && old(st).models.dom().contains(k) ==> final(st).models.dom().contains(k) && final(st).models[k] == old(st).models[k],
//@@ proof after=query#1
        proof { assert(mid_query(q, id@)); lemma_mid_query(q, id@); lemma_query_rows(old(st).events, q, events.rows@, event_of_model(id@)); }
//@@ loop 1
        invariant
            //# T4-inv-frame
            rest_same(*old(st), *st) && st.models == old(st).models && old(st).wf() && __v1@ == events.rows@,
            //# T4-inv-rows
            sel_sound(old(st).events, __v1@, event_of_model(id@)) && sel_distinct(__v1@) && sel_complete(old(st).events, __v1@, event_of_model(id@)),
            //# T4-inv-kept
            forall|k: Seq<char>| old(st).events.dom().contains(k) && !event_of_model(id@)(old(st).events[k]) ==> #[trigger] st.events.dom().contains(k),
            //# T4-inv-same
            forall|k: Seq<char>| #[trigger] st.events.dom().contains(k) ==> old(st).events.dom().contains(k) && st.events[k] == old(st).events[k],
            //# T4-inv-done
            forall|j: int| 0 <= j < __i1 ==> !st.events.dom().contains((#[trigger] __v1@[j]).id@),
//@@ proof after=delete#1
        proof {
            let i = __i1 as int - 1;
            assert(old(st).events[__v1@[i].rid()] == __v1@[i]);
            assert(event_of_model(id@)(__v1@[i]));
        }
//@@ proof at=afterloop1
        proof {
            assert forall|k: Seq<char>| old(st).events.dom().contains(k) && old(st).events[k].mid@ == id@ implies !st.events.dom().contains(k) by {
                assert(event_of_model(id@)(old(st).events[k]));
                let j = choose|j: int| 0 <= j < __v1@.len() && (#[trigger] __v1@[j]).rid() == k;
                assert(__v1@[j].id@ == k);
            }
        }
//@@ end
}

} // verus!
fn main() {}
