// U-sched: the scheduler core under contract (C01-C06, C08, C15, C16, C19 function-level parts).
//@@ unit U-sched
//@@ default props=C02 rewrites=R1,R2,R3,R5,R13 ghost="Tracked(h): Tracked<&mut Heap>" ghostarg="Tracked(h)" loopinv="h.wf(), fwd(*old(h), *h)," bodyprelude="broadcast use {lemma_fwd_refl, lemma_fwd_trans, axiom_flag_as_bool};" attr="#[verifier::exec_allows_no_decreases_clause] #[verifier::loop_isolation(false)]"
//@@ heapmethods task_by_nid state set_state set_err err children children_in next parent siblings task set_task sched_task emit_task_event emit_proc_event eval init run review error exec is_ready emit_task emit_error create_task push root set_data flag set_flag prev start_time update_data outputs is_event_processed prepare is_auto_complete abort_task back_task undo_task redo_task action set_action get_var get_var_or_default dispatch_act backs backs_step create_context set_message_with update arm_cancel do_action dispatch time_millis hooks_snapshot flag_or_false run_hooks_by run_hooks find run_hooks_timeout add_hook_stmts add_hook_catch add_hook_timeout params build_acts dispatch_acts set_emit_disabled set_auto_complete execute tasks_with_timeout_hooks do_tick is_emit_disabled create_message emit_message upsert follows_step_acts arm_cancel
use vstd::prelude::*;
use std::sync::Arc;
verus! {
//@@ include prelude/std_specs.rs
//@@ include prelude/sched.rs

pub open spec fn emit_off(h: Heap) -> Heap {
    Heap { tasks: h.tasks.insert(h.cur, TaskAbs { flags: h.tasks[h.cur].flags.insert(consts::TASK_EMIT_DISABLED@, true), ..h.tasks[h.cur] }), ..h }
}
// stable under fwd: a task that was seen terminal stays terminal unless a catch revived it
pub open spec fn closed_or_revived(t: TaskAbs) -> bool { st_terminal(t.state) || t.revived > 0 }
pub open spec fn flag_is(t: TaskAbs, k: Seq<char>, default: bool) -> bool { if t.flags.dom().contains(k) { t.flags[k] } else { default } }
impl Task {
//@@ extract file=acts/src/scheduler/process/task.rs in="impl Task" item="fn set_emit_disabled" name=Task::set_emit_disabled props=C08
//@@ rw R6 `self . set_data_with ( move | data | { data . set ( $K , v ) ; } ) ;` => `self.set_flag($K, v);`
//@@ proof at=start
        proof { lemma_flag_keys(); }
//@@ spec
        requires old(h).wf(), old(h).has(self.id@)
        ensures
            //# M4-emit-disabled-set
            *final(h) == (Heap { tasks: old(h).tasks.insert(self.id@, TaskAbs { flags: old(h).tasks[self.id@].flags.insert(consts::TASK_EMIT_DISABLED@, v), ..old(h).tasks[self.id@] }), ..*old(h) }),
            //# M4-frame
            final(h).wf() && fwd(*old(h), *final(h)) && final(h).cur == old(h).cur,
//@@ end
//@@ extract file=acts/src/scheduler/process/task.rs in="impl Task" item="fn set_auto_complete" name=Task::set_auto_complete props=C15
//@@ rw R6 `self . set_data_with ( move | data | { data . set ( $K , v ) ; } ) ;` => `self.set_flag($K, v);`
//@@ proof at=start
        proof { lemma_flag_keys(); }
//@@ spec
        requires old(h).wf(), old(h).has(self.id@)
        ensures
            //# B5-auto-complete-set
            *final(h) == (Heap { tasks: old(h).tasks.insert(self.id@, TaskAbs { flags: old(h).tasks[self.id@].flags.insert(consts::TASK_AUOT_COMPLETE@, v), ..old(h).tasks[self.id@] }), ..*old(h) }),
            //# B5-frame
            final(h).wf() && fwd(*old(h), *final(h)) && final(h).cur == old(h).cur,
//@@ end
}
// SubflowPackage::execute marks the calling act `$auto_complete = false`: the act waits for the return of its sub-process (C15)
pub open spec fn waits_for_return(h: Heap, t: Tid) -> bool {
    h.tasks[t].flags.dom().contains(consts::TASK_AUOT_COMPLETE@) && !h.tasks[t].flags[consts::TASK_AUOT_COMPLETE@]
}
pub open spec fn sib_set(h: Heap, t: Tid) -> Set<Tid> {
    if parent_tid(t) is Some { children_of(h, parent_tid(t)->Some_0).remove(t) } else { Set::empty() }
}
// the sibling set depends on the prev links only
pub open spec fn same_links(a: Heap, b: Heap) -> bool {
    (forall|c: Tid| a.has(c) <==> b.has(c)) && (forall|c: Tid| a.has(c) ==> #[trigger] a.tasks[c].prev == b.tasks[c].prev)
}
pub proof fn lemma_sibs_stable(a: Heap, b: Heap, t: Tid)
    requires same_links(a, b)
    ensures sib_set(a, t) == sib_set(b, t)
{
    if parent_tid(t) is Some {
        let p = parent_tid(t)->Some_0;
        assert forall|c: Tid| children_of(a, p).contains(c) <==> children_of(b, p).contains(c) by {
            if a.has(c) { assert(a.tasks[c].prev == b.tasks[c].prev); }
        }
        assert(children_of(a, p) =~= children_of(b, p));
    }
}
pub proof fn lemma_seq_set(v: Seq<Arc<Task>>, s: Set<Tid>)
    requires tids(v).to_set() == s
    ensures forall|t: Tid| #[trigger] s.contains(t) <==> exists|j: int| 0 <= j < v.len() && (#[trigger] v[j]).id@ == t
{
    assert forall|t: Tid| #[trigger] s.contains(t) <==> exists|j: int| 0 <= j < v.len() && (#[trigger] v[j]).id@ == t by {
        if s.contains(t) {
            assert(tids(v).contains(t));
            let j = choose|j: int| 0 <= j < tids(v).len() && tids(v)[j] == t;
            assert(v[j].id@ == t);
        }
        if exists|j: int| 0 <= j < v.len() && (#[trigger] v[j]).id@ == t {
            let j = choose|j: int| 0 <= j < v.len() && (#[trigger] v[j]).id@ == t;
            assert(tids(v)[j] == t);
            assert(tids(v).contains(t));
        }
    }
}
pub open spec fn needs_has(needs: Seq<String>, id: Seq<char>) -> bool { exists|k: int| 0 <= k < needs.len() && #[trigger] needs[k]@ == id }
// ---- stubs that later slices replace by extracted code
impl Task {
//@@ extract file=acts/src/scheduler/process/task.rs in="impl Task" item="fn exec" name=Task::exec props=C02,C05
//@@ opt attr="#[verifier::exec_allows_no_decreases_clause]"
//@@ spec
        requires old(h).wf(), wf_task(*old(h), **self)
        ensures
            //# P-exec-fwd
            final(h).wf() && fwd(*old(h), *final(h)),
            //# P-exec-refuses-completed
            st_terminal(old(h).st(self.id@)) ==> ret is Err && *final(h) == *old(h),
//@@ end
//@@ extract file=acts/src/scheduler/process/task.rs in="impl Task" item="fn resume" name=Task::resume props=C02,C01
//@@ opt attr="#[verifier::exec_allows_no_decreases_clause]"
//@@ rw R7 `ctx . runtime . scher ( )` => `ctx.runtime.scher()`
//@@ spec
        requires old(h).wf(), wf_task(*old(h), **self), old(h).st(self.id@) is Pending
        ensures
            //# P-resume-fwd
            final(h).wf() && fwd(*old(h), *final(h)),
//@@ end
//@@ extract file=acts/src/scheduler/process/task.rs in="impl Task" item="fn is_ready" name=Task::is_ready props=C04,C01,C02
//@@ opt rewrites=R1,R2,R3,R5,R13,R22
//@@ rw R7 `n . needs . contains ( & iter . node . id ( ) . to_string ( ) )` => `vec_has(&n.needs, iter.node.id())`
//@@ spec
        requires old(h).wf(), wf_task(*old(h), *self), !st_terminal(old(h).st(self.id@))
        ensures
            //# D2-ready-frame
            final(h).wf() && fwd(*old(h), *final(h)) && final(h).cur == old(h).cur && (ret ==> *final(h) == *old(h))
                && forall|t: Tid| t != self.id@ && #[trigger] old(h).has(t) ==> final(h).tasks[t] == old(h).tasks[t],
            //# D2-ready-writes-at-most-skipped-on-itself
            *final(h) == *old(h) || *final(h) == set_state_spec(*old(h), self.id@, TaskState::Skipped),
            //# D2-non-branch-always-ready
            !(self.node.content is Branch) ==> ret && *final(h) == *old(h),
            //# D2-needs-branch-ready-iff-a-needed-sibling-finished
            self.node.content is Branch && self.node.content->Branch_0.needs@.len() > 0 ==> *final(h) == *old(h)
                && (ret <==> exists|t: Tid| #[trigger] sib_set(*old(h), self.id@).contains(t) && st_terminal(old(h).st(t)) && needs_has(self.node.content->Branch_0.needs@, old(h).tasks[t].node.id@)),
            //# D2-else-branch-ready-iff-all-siblings-skipped
            self.node.content is Branch && self.node.content->Branch_0.needs@.len() == 0 && self.node.content->Branch_0.r#else
                ==> (ret <==> forall|t: Tid| #[trigger] sib_set(*old(h), self.id@).contains(t) ==> old(h).st(t) is Skipped),
            //# D2-plain-branch-not-ready
            self.node.content is Branch && self.node.content->Branch_0.needs@.len() == 0 && !self.node.content->Branch_0.r#else ==> !ret && *final(h) == *old(h),
            //# D2-else-branch-gives-way-once-a-sibling-ran [C04,C01]
            self.node.content is Branch && self.node.content->Branch_0.needs@.len() == 0 && self.node.content->Branch_0.r#else
                && (exists|t: Tid| #[trigger] sib_set(*old(h), self.id@).contains(t) && st_ran(old(h).st(t))) ==> !ret && final(h).st(self.id@) is Skipped,
            //# D2-else-branch-keeps-waiting-otherwise [C04]
            self.node.content is Branch && self.node.content->Branch_0.needs@.len() == 0 && self.node.content->Branch_0.r#else
                && !(exists|t: Tid| #[trigger] sib_set(*old(h), self.id@).contains(t) && st_ran(old(h).st(t))) ==> *final(h) == *old(h),
//@@ proof after=siblings#1
                proof {
                    if parent_tid(self.id@) is None { assert(tids(siblings@) =~= Seq::<Tid>::empty()); assert(tids(siblings@).to_set() =~= Set::<Tid>::empty()); }
                    lemma_seq_set(siblings@, sib_set(*old(h), self.id@));
                    assert forall|j: int| 0 <= j < siblings@.len() implies sib_set(*old(h), self.id@).contains((#[trigger] siblings@[j]).id@) by {}
                }
//@@ loop 1
        invariant
            //# needs-count
            *h == *old(h) && tasks_ok(*h, __v1@) && (__cnt > 0 <==> exists|j: int| 0 <= j < __i1 && st_terminal(h.st((#[trigger] __v1@[j]).id@)) && needs_has(n.needs@, __v1@[j].node.id@)) && __cnt <= __i1,
//@@ loop 2
        invariant
            //# all-skipped-so-far
            *h == *old(h) && tasks_ok(*h, __v2@) && (__all <==> forall|j: int| 0 <= j < __i2 ==> h.st((#[trigger] __v2@[j]).id@) is Skipped),
//@@ loop 3
        invariant
            //# any-closed-so-far
            *h == *old(h) && tasks_ok(*h, __v3@) && (__any <==> exists|j: int| 0 <= j < __i3 && st_ran(h.st((#[trigger] __v3@[j]).id@))),
//@@ end
}
// Context::sched_task: one new task in state None on `node`, hanging off the current task, pushed to the queue
pub open spec fn sched_spec(h: Heap, node: Arc<Node>, n: Tid) -> Heap {
    Heap { tasks: h.tasks.insert(n, fresh_task(node, Some(h.cur), h.next_seq)), queue: h.queue.push(n), next_seq: h.next_seq + 1, ..h }
}
impl Context {
//@@ extract file=acts/src/scheduler/context.rs in="impl Context" item="fn sched_task" name=Context::sched_task props=C02,C04
//@@ rw R7 `Some ( self . task ( ) )` => `Some(self.task())`
//@@ spec
        requires old(h).wf(), node.s_kind() != NodeKind::Workflow
        ensures
            //# D-sched-fwd
            final(h).wf() && fwd(*old(h), *final(h)) && final(h).cur == old(h).cur,
            //# D-sched-one-new-task
            exists|n: Tid| !old(h).has(n) && #[trigger] sched_spec(*old(h), *node, n) == *final(h),
//@@ proof after=push#1
        proof { assert(sched_spec(*old(h), *node, task.id@) == *h); }
//@@ end
//@@ extract file=acts/src/scheduler/context.rs in="impl Context" item="fn emit_task" name=Context::emit_task props=C02,C03,C08
//@@ rw R7 `self . runtime . scher ( )` => `self.runtime.scher()`
//@@ proof at=start
        proof { reveal(Heap::wf); }
//@@ spec
        requires old(h).wf(), wf_task(*old(h), **task)
        ensures
            //# H4-emit-fwd
            final(h).wf() && fwd(*old(h), *final(h)) && final(h).cur == old(h).cur && ret is Ok,
            //# H4-non-error-event-keeps-existing-tasks
            !(old(h).st(task.id@) is Error) ==> forall|x: Tid| #[trigger] old(h).has(x) ==> final(h).tasks[x] == old(h).tasks[x],
            //# H4-the-event-of-the-task-is-raised-with-the-state-it-has [C06,C16]
            final(h).task_events.len() > old(h).task_events.len() && final(h).task_events[old(h).task_events.len() as int] == (task.id@, old(h).st(task.id@)),
//@@ end
//@@ extract file=acts/src/scheduler/context.rs in="impl Context" item="fn emit_error" name=Context::emit_error props=C02,C06,C03
//@@ opt attr="#[verifier::exec_allows_no_decreases_clause]"
//@@ rw R7 `$V:chain . extend_from_slice ( & $E )` => `vec_extend(&mut $V, $E)`
//@@ spec
        requires old(h).wf()
        ensures
            //# E2-emit-error-fwd
            final(h).wf() && fwd(*old(h), *final(h)),
            //# E2-nothing-happens-unless-the-current-task-is-in-error
            !(old(h).st(old(h).cur) is Error) ==> *final(h) == *old(h) && ret is Ok,
            //# E3-a-failed-task-always-raises-its-event-whatever-its-kind-the-catch-rules-are-consulted-from-that-event [C06]
            old(h).st(old(h).cur) is Error ==> final(h).task_events.len() > old(h).task_events.len()
                && final(h).task_events[old(h).task_events.len() as int] == (old(h).cur, old(h).st(old(h).cur)),
//@@ proof after=emit_task#1
            let ghost h1 = *h;
//@@ proof after=parent#1
                        let ghost h2 = *h;
                        let ghost mut first_done: bool = false;
//@@ proof after=children#1
                        proof {
                            reveal(Heap::wf);
                            assert(*h == h2);
                            assert(h2.tasks[parent.id@].seq < h2.tasks[task.id@].seq);
                            assert forall|i: int| 0 <= i < open@.len() implies h.tasks[(#[trigger] open@[i]).id@].seq > h.tasks[task.id@].seq by {
                                assert(h.has(open@[i].id@) && h.tasks[open@[i].id@].prev == Some(task.id@));
                            }
                            assert(tids(open@).to_set() == children_of(h2, task.id@));
                        }
//@@ loop 1
        invariant
            //# closing-level-by-level-what-is-open-beneath-the-failed-task (the failed task and the parent it is about to fail stay as they are)
            tasks_ok(*h, open@) && fwd(h1, *h) && fwd(h2, *h) && h.cur == old(h).cur && task.id@ == old(h).cur && wf_task(*h, *task) && wf_task(*h, *parent)
                && h.tasks[parent.id@] == h2.tasks[parent.id@] && h.tasks[task.id@] == h2.tasks[task.id@] && h2.has(parent.id@) && h2.has(task.id@) && h2.wf()
                && h2.tasks[parent.id@].seq < h2.tasks[task.id@].seq
                && (forall|i: int| 0 <= i < open@.len() ==> h.tasks[(#[trigger] open@[i]).id@].seq > h.tasks[task.id@].seq)
                && (!first_done ==> tids(open@).to_set() == children_of(h2, task.id@))
                && (first_done ==> forall|c: Tid| children_of(h2, task.id@).contains(c) ==> st_terminal(#[trigger] h.st(c))),
//@@ loop 2
        invariant
            //# one-level
            tasks_ok(*h, __v2@) && tasks_ok(*h, nexts@) && fwd(h1, *h) && fwd(h2, *h) && h.cur == old(h).cur && task.id@ == old(h).cur && wf_task(*h, *task) && wf_task(*h, *parent)
                && h.tasks[parent.id@] == h2.tasks[parent.id@] && h.tasks[task.id@] == h2.tasks[task.id@] && h2.has(parent.id@) && h2.has(task.id@) && h2.wf()
                && h2.tasks[parent.id@].seq < h2.tasks[task.id@].seq
                && (forall|i: int| 0 <= i < __v2@.len() ==> h.tasks[(#[trigger] __v2@[i]).id@].seq > h.tasks[task.id@].seq)
                && (forall|i: int| 0 <= i < nexts@.len() ==> h.tasks[(#[trigger] nexts@[i]).id@].seq > h.tasks[task.id@].seq)
                && (forall|j: int| 0 <= j < __i2 ==> st_terminal(h.st((#[trigger] __v2@[j]).id@)))
                && (!first_done ==> tids(__v2@).to_set() == children_of(h2, task.id@))
                && (first_done ==> forall|c: Tid| children_of(h2, task.id@).contains(c) ==> st_terminal(#[trigger] h.st(c))),
//@@ proof after=vec_extend#1
                                proof {
                                    reveal(Heap::wf);
                                    assert forall|i: int| 0 <= i < nexts@.len() implies h.has((#[trigger] nexts@[i]).id@) && h.tasks[nexts@[i].id@].node == nexts@[i].node && nexts@[i].node.level < 0x4000_0000
                                        && h.tasks[nexts@[i].id@].seq > h.tasks[task.id@].seq by {
                                        assert(h.has(t.id@));
                                    }
                                }
//@@ proof before=set_state#1
                                let ghost hb = *h;
                                proof {
                                    assert(t.id@ == __v2@[__i2 as int - 1].id@);
                                    assert(hb.tasks[t.id@].seq > hb.tasks[task.id@].seq);
                                    assert(t.id@ != task.id@);
                                    assert(t.id@ != parent.id@);
                                }
//@@ proof after=emit_task#2
                                proof {
                                    assert forall|x: Tid| hb.has(x) && x != t.id@ implies h.has(x) && #[trigger] h.tasks[x] == hb.tasks[x] by {}
                                    assert(st_terminal(h.st(t.id@)));
                                    assert(h.tasks[t.id@].seq == hb.tasks[t.id@].seq);
                                    assert forall|j: int| 0 <= j < __i2 implies st_terminal(h.st((#[trigger] __v2@[j]).id@)) by {
                                        if __v2@[j].id@ != t.id@ { assert(h.tasks[__v2@[j].id@] == hb.tasks[__v2@[j].id@]); }
                                    }
                                    assert forall|i: int| 0 <= i < __v2@.len() implies h.tasks[(#[trigger] __v2@[i]).id@].seq > h.tasks[task.id@].seq by {
                                        if __v2@[i].id@ != t.id@ { assert(h.tasks[__v2@[i].id@] == hb.tasks[__v2@[i].id@]); }
                                    }
                                    assert forall|i: int| 0 <= i < nexts@.len() implies h.tasks[(#[trigger] nexts@[i]).id@].seq > h.tasks[task.id@].seq by {
                                        if nexts@[i].id@ != t.id@ { assert(h.tasks[nexts@[i].id@] == hb.tasks[nexts@[i].id@]); }
                                    }
                                    if first_done {
                                        assert forall|c: Tid| children_of(h2, task.id@).contains(c) implies st_terminal(#[trigger] h.st(c)) by {
                                            assert(h2.tasks.dom().contains(c));
                                            assert(h2.has(c));
                                            assert(fwd(h2, hb));
                                            assert(hb.has(c));
                                            assert(st_terminal(hb.st(c)));
                                            if c != t.id@ { assert(h.tasks[c] == hb.tasks[c]); }
                                        }
                                    }
                                }
//@@ proof at=afterloop2
                            proof {
                                if !first_done {
                                    assert forall|c: Tid| children_of(h2, task.id@).contains(c) implies st_terminal(#[trigger] h.st(c)) by {
                                        assert(tids(__v2@).to_set().contains(c));
                                        let j = choose|j: int| 0 <= j < tids(__v2@).len() && tids(__v2@)[j] == c;
                                        assert(__v2@[j].id@ == c);
                                    }
                                }
                                first_done = true;
                            }
//@@ proof before=set_err#1
                        proof {
                            //# H5-when-an-error-goes-on-to-the-parent-nothing-stays-open-beneath-the-failed-task [C03]
                            assert(forall|c: Tid| children_of(h2, task.id@).contains(c) ==> st_terminal(#[trigger] h.st(c))) by {
                                if !first_done {
                                    assert(open@.len() == 0);
                                    assert forall|c: Tid| children_of(h2, task.id@).contains(c) implies st_terminal(#[trigger] h.st(c)) by {
                                        assert(tids(open@).to_set().contains(c));
                                        assert(tids(open@).contains(c));
                                        let j = choose|j: int| 0 <= j < tids(open@).len() && tids(open@)[j] == c;
                                        assert(false);
                                    }
                                }
                            }
                        }
//@@ end
//@@ extract file=acts/src/scheduler/context.rs in="impl Context" item="fn dispatch_acts" name=Context::dispatch_acts props=C16
//@@ opt rewrites=R1,R2,R3,R5,R13,R22 noheap=push
//@@ rw R7 `super :: TaskLifeCycle` => `TaskLifeCycle`
//@@ rw R7 `crate :: ActEvent` => `ActEvent`
//@@ rw R7 `let mut normal_acts = vec ! [ ] ;` => `let mut normal_acts: Vec<Act> = Vec::new();`
//@@ spec
        requires old(h).wf()
        ensures
            //# G4-dispatch-acts-frame
            final(h).wf() && fwd(*old(h), *final(h)) && final(h).cur == old(h).cur && final(h).tasks == old(h).tasks && final(h).queue == old(h).queue,
            //# G4-only-the-current-tasks-hooks-change
            forall|t: Tid| t != old(h).cur ==> hooks_of(*final(h), t) == hooks_of(*old(h), t),
//@@ loop 1
        invariant
            //# hooks-of-others-untouched
            h.cur == old(h).cur && h.tasks == old(h).tasks && h.queue == old(h).queue && h.links_rev == old(h).links_rev && task.id@ == h.cur
                && forall|t: Tid| t != old(h).cur ==> hooks_of(*h, t) == hooks_of(*old(h), t),
//@@ end
//@@ extract file=acts/src/scheduler/context.rs in="impl Context" item="fn redo_task" name=Context::redo_task props=C02,C05,C03
//@@ rw R7 `Some ( prev_task )` => `Some(prev_task)`
//@@ spec
        requires old(h).wf(), wf_task(*old(h), **task), task.node.s_kind() != NodeKind::Workflow
        ensures
            //# R-redo-fwd
            final(h).wf() && fwd(*old(h), *final(h)) && final(h).cur == old(h).cur && ret is Ok,
            //# R-redo-existing-unchanged
            forall|x: Tid| #[trigger] old(h).has(x) ==> final(h).tasks[x] == old(h).tasks[x],
            //# R-redo-the-new-instance-is-a-fresh-task-of-the-same-node-with-nothing-carried-over-and-is-queued-once [C19,C01]
            // (its data, and with it the once-flags of its timeout / catch rules, start empty: "at most once PER TASK INSTANCE")
            old(h).tasks[task.id@].prev is Some && old(h).has(old(h).tasks[task.id@].prev->Some_0) ==>
                exists|n: Tid| !old(h).has(n) && #[trigger] final(h).has(n)
                    && *final(h) == (Heap { tasks: old(h).tasks.insert(n, fresh_task(task.node, old(h).tasks[task.id@].prev, old(h).next_seq)), next_seq: old(h).next_seq + 1, queue: old(h).queue.push(n), ..*old(h) }),
            !(old(h).tasks[task.id@].prev is Some && old(h).has(old(h).tasks[task.id@].prev->Some_0)) ==> *final(h) == *old(h),
//@@ end
//@@ extract file=acts/src/scheduler/context.rs in="impl Context" item="fn abort_task" name=Context::abort_task props=C02,C03,C05
//@@ spec
        requires old(h).wf(), wf_task(*old(h), **task), !st_terminal(old(h).st(task.id@))
        ensures
            //# B-abort-fwd
            final(h).wf() && fwd(*old(h), *final(h)) && ret is Ok,
            //# B-abort-closes-the-act
            ret is Ok ==> final(h).st(task.id@) is Aborted,
//@@ proof at=beforeloop1
        let ghost act_tid0 = task.id@;
//@@ loop 1
        invariant
            //# sib-ok
            tasks_ok(*h, __v1@),
            //# sib-not-self
            forall|i: int| 0 <= i < __v1@.len() ==> (#[trigger] __v1@[i]).id@ != act_tid0,
            //# act-untouched
            h.tasks[act_tid0] == old(h).tasks[act_tid0] && h.cur == old(h).cur,
//@@ proof at=beforeloop2
        let ghost act_tid = task.id@;
//@@ loop 2
        invariant
            //# anc-ok
            parent is Some ==> wf_task(*h, *parent->Some_0),
            //# act-aborted
            h.has(act_tid) && h.st(act_tid) is Aborted,
//@@ loop 3
        invariant
            //# anc-children-ok
            tasks_ok(*h, __v3@) && h.has(task.id@),
            //# act-aborted
            h.has(act_tid) && h.st(act_tid) is Aborted,
//@@ end
//@@ extract file=acts/src/scheduler/context.rs in="impl Context" item="fn undo_task" name=Context::undo_task props=C02,C05,C03
//@@ rw R7 `$V:chain . extend_from_slice ( & $E )` => `vec_extend(&mut $V, $E)`
//@@ proof at=start
        proof { reveal(Heap::wf); }
//@@ spec
        requires old(h).wf(), wf_task(*old(h), **task)
        ensures
            //# U-undo-fwd
            final(h).wf() && fwd(*old(h), *final(h)),
            //# U-undo-rejects-completed
            st_terminal(old(h).st(task.id@)) ==> ret is Err && *final(h) == *old(h),
            //# U-an-accepted-undo-closes-the-task-itself-as-completed [C05]
            ret is Ok ==> final(h).st(task.id@) is Completed,
//@@ loop 1
        invariant
            //# frontier-ok
            tasks_ok(*h, children@),
            //# frontier-younger
            forall|i: int| 0 <= i < children@.len() ==> h.tasks[(#[trigger] children@[i]).id@].seq > h.tasks[task.id@].seq,
            //# task-untouched
            h.has(task.id@) && h.tasks[task.id@] == old(h).tasks[task.id@],
//@@ loop 2
        invariant
            //# frontier-ok
            tasks_ok(*h, __v2@) && tasks_ok(*h, nexts@),
            //# frontier-younger
            forall|i: int| 0 <= i < __v2@.len() ==> h.tasks[(#[trigger] __v2@[i]).id@].seq > h.tasks[task.id@].seq,
            //# nexts-younger
            forall|i: int| 0 <= i < nexts@.len() ==> h.tasks[(#[trigger] nexts@[i]).id@].seq > h.tasks[task.id@].seq,
            //# task-untouched
            h.has(task.id@) && h.tasks[task.id@] == old(h).tasks[task.id@],
//@@ proof after=vec_extend#1
                proof {
                    assert forall|i: int| 0 <= i < nexts@.len() implies h.has((#[trigger] nexts@[i]).id@) && h.tasks[nexts@[i].id@].node == nexts@[i].node && h.tasks[nexts@[i].id@].seq > h.tasks[task.id@].seq by {
                        assert(h.has(t.id@));
                    }
                }
//@@ end
//@@ extract file=acts/src/scheduler/context.rs in="impl Context" item="fn back_task" name=Context::back_task props=C02,C05
//@@ spec
        requires old(h).wf(), wf_task(*old(h), **task), !st_terminal(old(h).st(task.id@)), tasks_ok(*old(h), paths@)
        ensures
            //# K-back-fwd
            final(h).wf() && fwd(*old(h), *final(h)) && ret is Ok,
            //# K-back-closes-the-act-as-backed [C05]
            final(h).st(task.id@) is Backed,
//@@ proof at=beforeloop1
        let ghost act_tid0 = task.id@;
//@@ loop 1
        invariant
            //# sib-ok
            tasks_ok(*h, __v1@),
            //# sib-not-self
            forall|i: int| 0 <= i < __v1@.len() ==> (#[trigger] __v1@[i]).id@ != act_tid0,
            //# act-untouched
            h.tasks[act_tid0] == old(h).tasks[act_tid0] && h.cur == old(h).cur,
//@@ loop 2
        invariant
            //# anc-ok
            (parent is Some ==> wf_task(*h, *parent->Some_0) && parent->Some_0.node.level < task.node.level) && wf_task(*h, **task) && h.st(task.id@) is Backed,
//@@ loop 3
        invariant
            //# paths-ok
            tasks_ok(*h, __v3@) && h.st(task.id@) is Backed,
//@@ end
}

impl Context {
//@@ extract file=acts/src/scheduler/context.rs in="impl Context" item="fn dispatch_act" name=Context::dispatch_act props=C16,C02
//@@ rw R7 `act . id . to_string ( )` => `act.id.clone()`
//@@ rw R6 `task . set_data_with ( | data | data . set ( $K , true ) ) ;` => `task.set_flag($K, true);`
//@@ proof at=start
        proof { lemma_flag_keys(); }
//@@ spec
        requires old(h).wf()
        ensures
            //# G6-dispatch-act-frame
            final(h).wf() && fwd(*old(h), *final(h)) && final(h).cur == old(h).cur && ret is Ok && final(h).proc_state == old(h).proc_state,
            //# G6-existing-tasks-untouched
            forall|x: Tid| #[trigger] old(h).has(x) ==> final(h).tasks[x] == old(h).tasks[x],
            //# G6-nothing-under-an-uninitialised-task
            old(h).st(old(h).cur) is None ==> *final(h) == *old(h),
            //# G6-exactly-one-new-act-task
            !(old(h).st(old(h).cur) is None) ==> exists|n: Tid| #[trigger] final_witness(*old(h), *final(h), n, *act, is_hook_event),
//@@ proof after=push#1
            proof { assert(final_witness(*old(h), *h, task.id@, *act, is_hook_event)); }
//@@ end
}
pub open spec fn final_witness(a: Heap, b: Heap, n: Tid, act: Act, hook: bool) -> bool {
    !a.has(n) && b.has(n) && b.tasks.dom() =~= a.tasks.dom().insert(n) && b.queue == a.queue.push(n) && b.tasks[n].prev == Some(a.cur) && b.tasks[n].state is None
        && b.tasks[n].node.content == NodeContent::Act(act) && (hook ==> flag_is(b.tasks[n], consts::IS_EVENT_PROCESSED@, false))
}
// The Cancel arm of Task::update, lifted into a function of its own (R9b, `fallsthrough`: the arms of that match fall through to the common tail of
// Task::update); Task::update calls it where the arm stood (R8).
//@@ extract file=acts/src/scheduler/process/task.rs in="impl Task" item="fn update" arm="EventAction::Cancel" fallsthrough name=Task::update::cancel props=C02,C05,C03 sig="pub fn arm_cancel(task0: &Arc<Task>, ctx: &Context) -> Result<()>"
//@@ opt attr="#[verifier::exec_allows_no_decreases_clause]"
//@@ rw R7 `task . follows ( & | t | t . is_kind ( NodeKind :: Step ) && t . is_acts ( ) , & mut path_tasks , )` => `task.follows_step_acts(&mut path_tasks)`
//@@ spec
    requires old(h).wf()
    ensures
        //# C-cancel-fwd
        final(h).wf() && fwd(*old(h), *final(h)),
        //# C-cancel-needs-an-enclosing-step-that-ended-in-success-with-a-following-step-to-cancel
        parent_tid(old(h).cur) is None ==> ret is Err && *final(h) == *old(h),
//@@ loop 1
    invariant
        //# step-candidate-ok
        (step is Some ==> wf_task(*h, *step->Some_0)) && (parent_tid(old(h).cur) is None ==> step is None) && *h == *old(h),
    ensures
        //# found-a-step-or-nothing
        (step is Some ==> wf_task(*h, *step->Some_0) && step->Some_0.node.s_kind() == NodeKind::Step) && (parent_tid(old(h).cur) is None ==> step is None) && *h == *old(h),
//@@ loop 2
    invariant
        //# path-ok
        tasks_ok(*h, __v2@) && tasks_ok(*h, nexts@) && wf_task(*h, *task) && task.node.s_kind() == NodeKind::Step && parent_tid(old(h).cur) is Some,
//@@ loop 3
    invariant
        //# nexts-ok
        tasks_ok(*h, __v3@) && wf_task(*h, *task) && task.node.s_kind() == NodeKind::Step && parent_tid(old(h).cur) is Some,
//@@ end
pub open spec fn guarded_event(e: EventAction) -> bool {
    e is Next || e is Submit || e is Back || e is Abort || e is Skip || e is Error || e is Remove || e is SetProcessVars
}
impl Task {
//@@ extract file=acts/src/scheduler/process/task.rs in="impl Task" item="fn update" name=Task::update props=C02,C05,C06,C09
//@@ rw R7 `ctx . get_var :: < String > ( $K ) . unwrap_or_default ( )` => `ctx.get_var_or_default::<String>($K)`
//@@ rw R7 `ctx . get_var ( $K ) . unwrap_or_default ( )` => `ctx.get_var_or_default($K)`
//@@ rw R7 `self . backs ( & | t | t . node . kind ( ) == NodeKind :: Step && t . node . id ( ) == nid , & mut path_tasks , )` => `self.backs_step(&nid, &mut path_tasks)`
//@@ rw R8 `EventAction :: Cancel => $B:block` => `EventAction::Cancel => { arm_cancel(self, ctx)?; }`
//@@ rw R7 `ctx . runtime . cache ( ) . store ( )` => `ctx.runtime.cache().store()`
//@@ proof at=start
        proof { reveal(Heap::wf); }
//@@ proof before=error#1
                proof {
                    //# B8-an-act-that-is-given-its-error-no-longer-waits-for-a-sub-process [C15,C06]
                    assert(!h.tasks[task.id@].flags.dom().contains(consts::TASK_AUOT_COMPLETE@) || h.tasks[task.id@].flags[consts::TASK_AUOT_COMPLETE@]);
                }
//@@ spec
        requires old(h).wf(), wf_task(*old(h), **self), old(h).cur == self.id@
        ensures
            //# A-update-fwd
            final(h).wf() && fwd(*old(h), *final(h)),
            //# A2-no-action-rejected
            old(h).action is None ==> ret is Err && *final(h) == *old(h),
            //# A2-terminal-act-rejects-everything
            old(h).action is Some && guarded_event(old(h).action->Some_0.event) && st_terminal(old(h).st(self.id@)) ==> ret is Err && *final(h) == *old(h),
            //# A2-rejected-back-has-no-effect
            old(h).action is Some && old(h).action->Some_0.event is Back && ret is Err ==> *final(h) == *old(h),
            //# A6-an-accepted-next-submit-remove-skip-or-abort-closes-the-act-in-the-state-of-the-action [C05,C02]
            old(h).action is Some && ret is Ok ==> (old(h).action->Some_0.event is Next ==> final(h).st(self.id@) is Completed)
                && (old(h).action->Some_0.event is Submit ==> final(h).st(self.id@) is Submitted)
                && (old(h).action->Some_0.event is Remove ==> final(h).st(self.id@) is Removed)
                && (old(h).action->Some_0.event is Skip ==> final(h).st(self.id@) is Skipped)
                && (old(h).action->Some_0.event is Abort ==> final(h).st(self.id@) is Aborted),
            //# A6-an-accepted-back-closes-the-act-as-backed [C05]
            old(h).action is Some && old(h).action->Some_0.event is Back && ret is Ok ==> final(h).st(self.id@) is Backed,
            //# A2-rejected-abort-has-no-effect
            old(h).action is Some && old(h).action->Some_0.event is Abort && ret is Err ==> *final(h) == *old(h),
            //# A2-error-needs-a-code
            old(h).action is Some && old(h).action->Some_0.event is Error && var_spec::<String>(old(h).action, consts::ACT_ERR_CODE@) is None ==> ret is Err && *final(h) == *old(h),
            //# A5-messages-of-the-act-closed
            ret is Ok && !(old(h).action->Some_0.event is Push) ==> final(h).msg_closed.len() > 0
                && final(h).msg_closed.last() == (old(h).action->Some_0.pid@, old(h).action->Some_0.tid@, MessageStatus::Completed),
//@@ loop 1
        invariant
            //# sib-ok
            tasks_ok(*h, __v1@),
            //# sib-not-self
            forall|i: int| 0 <= i < __v1@.len() ==> (#[trigger] __v1@[i]).id@ != self.id@,
            //# self-untouched
            h.tasks[self.id@] == old(h).tasks[self.id@] && h.cur == old(h).cur,
//@@ loop 2
        invariant
            //# psib-ok
            tasks_ok(*h, __v2@),
            //# psib-not-self
            forall|i: int| 0 <= i < __v2@.len() ==> (#[trigger] __v2@[i]).id@ != self.id@,
            //# self-untouched
            h.tasks[self.id@] == old(h).tasks[self.id@] && h.cur == old(h).cur,
//@@ end
}

impl Act {
//@@ extract file=acts/src/scheduler/process/task/act.rs in="impl Act" item="fn dispatch" name=Act::dispatch props=C16
//@@ rw R7 `act . inputs . set ( $K , v )` => `act.inputs.set_any($K, v)`
//@@ spec
        requires old(h).wf()
        ensures
            //# G-dispatch-fwd
            final(h).wf() && fwd(*old(h), *final(h)) && final(h).cur == old(h).cur && ret is Ok,
            //# G-dispatch-existing-unchanged
            final(h).proc_state == old(h).proc_state && forall|x: Tid| #[trigger] old(h).has(x) ==> final(h).tasks[x] == old(h).tasks[x],
//@@ end
}
impl Vars {
    // R7: Vars::set with a non-JSON value type (serde conversion of the value: not modelled)
    #[verifier::external_body]
    pub fn set_any<K: KeyLike, V>(&mut self, key: K, value: V) ensures final(self)@.dom() == old(self)@.dom().insert(key.k()) { unimplemented!() }
}

pub open spec fn timeout_flag(t: TaskAbs, on: Seq<char>) -> bool {
    t.flags.dom().contains(consts::IS_TIMEOUT_PROCESSED_PREFIX@ + on) && t.flags[consts::IS_TIMEOUT_PROCESSED_PREFIX@ + on]
}
impl StatementBatch {
//@@ extract file=acts/src/scheduler/process/task/hook.rs in="impl StatementBatch" item="fn run" name=StatementBatch::run props=C06,C19,C02,C16
//@@ rw R6 `$T:chain . with_data ( | data | data . get :: < bool > ( $K ) ) . unwrap_or_default ( )` => `$T.flag_or_false($K)`
//@@ rw R6 `task . set_data_with ( | data | data . set ( $K , true ) )` => `task.set_flag($K, true)`
//@@ rw R7 `& err . ecode == c . on . as_ref ( ) . unwrap ( )` => `str_eq(&err.ecode, c.on.as_ref().unwrap())`
//@@ rw R7 `format ! ( "{}{}" , consts :: IS_TIMEOUT_PROCESSED_PREFIX , t . on )` => `timeout_key(&t.on)`
//@@ proof at=start
        proof { reveal(Heap::wf); lemma_flag_keys(); }
//@@ spec
        requires old(h).wf()
        ensures
            //# S-batch-fwd
            final(h).wf() && fwd(*old(h), *final(h)),
            //# G5-statement-only-adds-a-task
            self is Statement ==> final(h).cur == old(h).cur && final(h).proc_state == old(h).proc_state && forall|x: Tid| #[trigger] old(h).has(x) ==> final(h).tasks[x] == old(h).tasks[x],
            //# E3-no-error-no-effect
            self is Catch && old(h).tasks[old(h).cur].err is None ==> *final(h) == *old(h),
            //# E3-catch-runs-once
            self is Catch && catch_flag(old(h).tasks[old(h).cur]) ==> *final(h) == *old(h),
            //# E3-non-matching-catch-changes-nothing
            self is Catch && old(h).tasks[old(h).cur].err is Some && self->Catch_0.on is Some && self->Catch_0.on->Some_0@ != old(h).tasks[old(h).cur].err->Some_0.ecode@ ==> *final(h) == *old(h),
            //# E3-matching-catch-takes-the-error
            self is Catch && ret is Ok && old(h).tasks[old(h).cur].err is Some && !catch_flag(old(h).tasks[old(h).cur])
                && (self->Catch_0.on is None || self->Catch_0.on->Some_0@ == old(h).tasks[old(h).cur].err->Some_0.ecode@)
                ==> final(h).tasks[old(h).cur].revived == 1 && catch_flag(final(h).tasks[old(h).cur]),
            //# W1-fires-once
            self is Timeout && timeout_flag(old(h).tasks[old(h).cur], self->Timeout_0.on@) ==> *final(h) == *old(h),
            //# W1-never-early
            self is Timeout && final(h).queue.len() > old(h).queue.len() ==> parse_limit(self->Timeout_0.on@) is Ok
                && old(h).now - old(h).tasks[old(h).cur].start_time >= limit_secs(parse_limit(self->Timeout_0.on@)->Ok_0) * 1000,
            //# W1-fires-when-due
            self is Timeout && ret is Ok && !st_terminal(old(h).st(old(h).cur)) && !timeout_flag(old(h).tasks[old(h).cur], self->Timeout_0.on@) && parse_limit(self->Timeout_0.on@) is Ok
                && old(h).now - old(h).tasks[old(h).cur].start_time >= limit_secs(parse_limit(self->Timeout_0.on@)->Ok_0) * 1000
                ==> timeout_flag(final(h).tasks[old(h).cur], self->Timeout_0.on@)
                    && final(h).queue.len() == old(h).queue.len() + n_children_in(old(h).links_rev, *old(h).tasks[old(h).cur].node, NodeOutputKind::Timeout, Some(self->Timeout_0.on@)).len(),
            //# W1-firing-does-not-close-the-task
            self is Timeout ==> final(h).st(old(h).cur) == old(h).st(old(h).cur),
            //# W1-only-open-tasks
            self is Timeout && st_terminal(old(h).st(old(h).cur)) ==> final(h).queue == old(h).queue,
            //# W1-a-rule-touches-only-its-own-mark
            self is Timeout ==> final(h).cur == old(h).cur && final(h).now == old(h).now && final(h).hooks == old(h).hooks
                && final(h).tasks[old(h).cur] == (TaskAbs { flags: final(h).tasks[old(h).cur].flags, ..old(h).tasks[old(h).cur] })
                && (forall|on: Seq<char>| #[trigger] timeout_flag(old(h).tasks[old(h).cur], on) ==> timeout_flag(final(h).tasks[old(h).cur], on)),
            //# W1-a-rule-raises-no-task-event-and-no-process-event-the-timed-task-is-not-reported-again [C08,C19]
            self is Timeout ==> final(h).task_events == old(h).task_events && final(h).proc_events == old(h).proc_events,
            //# W1-a-parsable-rule-does-not-fail
            self is Timeout && parse_limit(self->Timeout_0.on@) is Ok ==> ret is Ok,
//@@ loop 1
        invariant
            //# catch-steps-scheduled
            h.cur == old(h).cur && h.links_rev == old(h).links_rev && h.tasks[h.cur].revived == 1,
//@@ loop 2
        invariant
            //# timeout-steps-scheduled
            h.cur == old(h).cur && h.links_rev == old(h).links_rev && h.queue.len() == old(h).queue.len() + __i2
                && h.tasks[h.cur] == (TaskAbs { flags: h.tasks[h.cur].flags, ..old(h).tasks[old(h).cur] }) && timeout_flag(h.tasks[h.cur], t.on@)
                && h.now == old(h).now && h.hooks == old(h).hooks && h.task_events == old(h).task_events && h.proc_events == old(h).proc_events
                && (forall|on: Seq<char>| #[trigger] timeout_flag(old(h).tasks[old(h).cur], on) ==> timeout_flag(h.tasks[h.cur], on)),
//@@ end
}

// the Timeout list of a task holds timeout rules only (Task::add_hook_timeout is its only writer: primitive layer)
pub open spec fn only_rules(l: Seq<StatementBatch>) -> bool { forall|j: int| 0 <= j < l.len() ==> (#[trigger] l[j]) is Timeout }
// a timeout rule whose limit parses and has passed for the current task (C19: "no later than one tick after that")
pub open spec fn rule_due(h: Heap, on: Seq<char>) -> bool {
    parse_limit(on) is Ok && h.now - h.tasks[h.cur].start_time >= limit_secs(parse_limit(on)->Ok_0) * 1000
}
impl Task {
//@@ extract file=acts/src/scheduler/process/task.rs in="impl Task" item="fn run_hooks_by" name=Task::run_hooks_by props=C06,C16,C19
//@@ rw R11 `self . hooks . read ( ) . unwrap ( )` => `self.hooks_snapshot()`
//@@ rw R7 `let default = Vec :: new ( ) ;` => ``
//@@ rw R7 `hooks . get ( & key ) . unwrap_or ( & default )` => `hooks.list(&key)`
//@@ proof at=start
        proof { reveal(Heap::wf); }
//@@ spec
        requires old(h).wf(), wf_task(*old(h), *self)
        ensures
            //# G5-hooks-by-fwd
            final(h).wf() && fwd(*old(h), *final(h)),
            //# G5-no-hooks-no-effect
            (!hooks_of(*old(h), self.id@).dom().contains(key) || hooks_of(*old(h), self.id@)[key].len() == 0) ==> *final(h) == *old(h) && ret is Ok,
            //# G5-plain-lists-only-add-tasks
            !(key is ErrorCatch) && !(key is Timeout) ==> final(h).cur == old(h).cur && final(h).proc_state == old(h).proc_state
                && forall|x: Tid| #[trigger] old(h).has(x) ==> final(h).tasks[x] == old(h).tasks[x],
            //# W4-every-due-timeout-rule-fires-also-beside-a-rule-that-fails [C19]
            key is Timeout && old(h).cur == self.id@ && !st_terminal(old(h).st(self.id@)) && hooks_of(*old(h), self.id@).dom().contains(key)
                && only_rules(hooks_of(*old(h), self.id@)[key])
                ==> forall|j: int| 0 <= j < hooks_of(*old(h), self.id@)[key].len() && (#[trigger] hooks_of(*old(h), self.id@)[key][j]) is Timeout
                        && rule_due(*old(h), hooks_of(*old(h), self.id@)[key][j]->Timeout_0.on@)
                    ==> timeout_flag(final(h).tasks[self.id@], hooks_of(*old(h), self.id@)[key][j]->Timeout_0.on@),
//@@ loop 1
        invariant
            //# untouched-before-the-first-batch
            __i1 == 0 ==> *h == *old(h) && ret is Ok,
            //# due-rules-fired-so-far
            key is Timeout && old(h).cur == self.id@ && !st_terminal(old(h).st(self.id@)) && only_rules(__v1@) ==> h.cur == old(h).cur && h.now == old(h).now
                && h.tasks[h.cur] == (TaskAbs { flags: h.tasks[h.cur].flags, ..old(h).tasks[old(h).cur] })
                && (forall|j: int| 0 <= j < __i1 && (#[trigger] __v1@[j]) is Timeout && rule_due(*old(h), __v1@[j]->Timeout_0.on@) ==> timeout_flag(h.tasks[h.cur], __v1@[j]->Timeout_0.on@)),
            //# list-is-the-snapshot
            __v1@ == (if hooks_of(*old(h), self.id@).dom().contains(key) { hooks_of(*old(h), self.id@)[key] } else { Seq::<StatementBatch>::empty() }) && hooks_ok(*old(h)),
            //# plain-lists-only-add-tasks
            !(key is ErrorCatch) && !(key is Timeout) ==> h.cur == old(h).cur && h.proc_state == old(h).proc_state
                && forall|x: Tid| #[trigger] old(h).has(x) ==> h.tasks[x] == old(h).tasks[x],
//@@ end
//@@ extract file=acts/src/scheduler/process/task.rs in="impl Task" item="fn run_hooks" name=Task::run_hooks props=C16,C06,C08
//@@ rw R6 `$T:chain . with_data ( | data | data . get :: < bool > ( $K ) ) . unwrap_or_default ( )` => `$T.flag_or_false($K)`
//@@ spec
        requires old(h).wf(), wf_task(*old(h), *self)
        ensures
            //# G5-run-hooks-fwd
            final(h).wf() && fwd(*old(h), *final(h)),
            //# G5-hook-acts-fire-nothing
            (old(h).tasks[old(h).cur].flags.dom().contains(consts::IS_EVENT_PROCESSED@) && old(h).tasks[old(h).cur].flags[consts::IS_EVENT_PROCESSED@]) ==> *final(h) == *old(h),
            //# G5-none-and-running-fire-nothing
            (old(h).st(self.id@) is None || old(h).st(self.id@) is Running) ==> *final(h) == *old(h),
            //# G5-only-an-error-event-touches-existing-tasks
            !(old(h).st(self.id@) is Error) ==> final(h).proc_state == old(h).proc_state && forall|x: Tid| #[trigger] old(h).has(x) ==> final(h).tasks[x] == old(h).tasks[x],
//@@ proof at=beforeloop1
        let ghost h1 = *h;
//@@ loop 1
        invariant
            //# anc-ok
            parent is Some ==> wf_task(*h, *parent->Some_0),
            //# still-untouched
            h.cur == old(h).cur && h.proc_state == old(h).proc_state && forall|x: Tid| #[trigger] old(h).has(x) ==> h.tasks[x] == old(h).tasks[x],
//@@ proof at=beforeloop2
        let ghost h2 = *h;
//@@ loop 2
        invariant
            //# anc-ok
            parent is Some ==> wf_task(*h, *parent->Some_0),
            //# still-untouched
            h.cur == old(h).cur && h.proc_state == old(h).proc_state && forall|x: Tid| #[trigger] old(h).has(x) ==> h.tasks[x] == old(h).tasks[x],
//@@ end
//@@ extract file=acts/src/scheduler/process/task.rs in="impl Task" item="fn run_hooks_timeout" name=Task::run_hooks_timeout props=C19
//@@ spec
        requires old(h).wf(), wf_task(*old(h), *self)
        ensures
            //# W3-timeout-hooks-fwd
            final(h).wf() && fwd(*old(h), *final(h)),
//@@ end
}

// ---- the task-event handler registered in Runtime::initialize (lifted closure, R9).  It runs on its OWN Context
//      (Context::new inside create_context), so for the caller of emit_task_event the current task is untouched.
pub open spec fn handler_summary(a: Heap, b: Heap, t: Tid) -> bool {
    &&& fwd(a, b) && b.wf()
    &&& (!(a.st(t) is Error) ==> b.proc_state == a.proc_state && forall|x: Tid| #[trigger] a.has(x) ==> b.tasks[x] == a.tasks[x])
}
// the stub contract of Scheduler::emit_task_event follows from the handler's proved contract
pub proof fn lemma_emit_summary(a: Heap, b1: Heap, t: Tid)
    requires a.wf(), a.has(t), handler_summary(Heap { task_events: a.task_events.push((t, a.st(t))), ..a }, b1, t)
    ensures emit_summary(a, Heap { cur: a.cur, ..b1 }, t)
{
    reveal(Heap::wf);
    let a1 = Heap { task_events: a.task_events.push((t, a.st(t))), ..a };
    let b = Heap { cur: a.cur, ..b1 };
    assert forall|x: Tid| #[trigger] a.has(x) implies b.has(x) && task_fwd(a.tasks[x], b.tasks[x]) by { assert(a1.has(x)); }
    assert forall|x: Tid| #[trigger] b.has(x) && !a.has(x) implies b.tasks[x].revived <= 1 by { assert(b1.has(x) && !a1.has(x)); }
    assert(a.has(a.cur)); assert(a1.has(a.cur));
    lemma_meta(b1, b);
    assert(a1.task_events.is_prefix_of(b1.task_events));
    assert(a1.task_events[a.task_events.len() as int] == (t, a.st(t)));
    assert(a.task_events.is_prefix_of(b.task_events)) by { assert(a.task_events.is_prefix_of(a1.task_events)); }
    if !(a.st(t) is Error) { assert forall|x: Tid| #[trigger] a.has(x) implies b.tasks[x] == a.tasks[x] by { assert(a1.has(x)); } }
}
//@@ extract file=acts/src/scheduler/runtime.rs in="impl Runtime" item="fn initialize" closure=params:e name=Runtime::on_task::handler props=C08,C11,C02 sig="pub fn on_task_handler(cache: Arc<CacheH>, rt: Arc<Runtime>, e: &Arc<Task>)"
//@@ rw R10 `$X:chain . unwrap_or_else ( | err | error ! ( $A:args ) )` => `ignore_err($X)`
//@@ spec
        requires old(h).wf(), wf_task(*old(h), **e)
        ensures
            //# M1-handler-summary
            handler_summary(*old(h), *final(h), e.id@),
            //# M1-message-when-allowed-and-still-in-the-events-state
            msg_allowed(*final(h), e.id@) && final(h).st(e.id@) == old(h).st(e.id@)
                ==> final(h).messages.len() > 0 && final(h).messages.last() == (e.id@, msg_state_of(final(h).st(e.id@))),
            //# S2-task-row-written-first
            final(h).upserts.len() > old(h).upserts.len() && final(h).upserts[old(h).upserts.len() as int] == e.id@,
            //# S3-the-store-holds-the-state-in-which-the-event-leaves-the-task [C11]
            exists|k: int| old(h).saved.len() <= k < final(h).saved.len() && (#[trigger] final(h).saved[k]).0 == e.id@ && final(h).saved[k].1.state == final(h).st(e.id@),
//@@ proof after=ignore_err#1
        let ghost h1 = *h;
//@@ proof after=ignore_err#2
        let ghost h2 = *h;
//@@ proof before=is_pending#1
        let ghost h3 = *h;
//@@ proof at=end
        proof {
            //# M2-a-message-of-this-event-reports-the-state-the-event-was-raised-for [C08]
            assert(h.messages.len() > h2.messages.len() ==> h.st(e.id@) == old(h).st(e.id@));
            //# S3-a-task-moved-on-by-its-hooks-is-written-again [C11]
            let m = old(h).saved.len() as int;
            assert(h1.saved[m] == (e.id@, old(h).tasks[e.id@]));
            assert(h1.saved.is_prefix_of(h.saved));
            assert(h.saved.subrange(0, h1.saved.len() as int) =~= h1.saved);
            assert(h.saved.subrange(0, h1.saved.len() as int)[m] == h.saved[m]);
            if h.st(e.id@) != old(h).st(e.id@) {
                let m3 = h2.saved.len() as int;
                assert(h.saved.len() > m3 && h.saved[m3].0 == e.id@ && h.saved[m3].1.state == h.st(e.id@)) by {
                    assert(h3.saved[m3] == (e.id@, h2.tasks[e.id@]));
                    assert(h3.saved.is_prefix_of(h.saved));
                    assert(h.saved.subrange(0, h3.saved.len() as int) =~= h3.saved);
                    assert(h.saved.subrange(0, h3.saved.len() as int)[m3] == h.saved[m3]);
                }
            }
            let n = old(h).upserts.len() as int;
            assert(h1.upserts.is_prefix_of(h.upserts));
            assert(h.upserts.subrange(0, h1.upserts.len() as int) =~= h1.upserts);
            assert(h.upserts.subrange(0, h1.upserts.len() as int)[n] == h.upserts[n]);
        }
//@@ end

pub proof fn lemma_prefix_contains(a: Seq<Tid>, b: Seq<Tid>, x: Tid)
    requires a.is_prefix_of(b), a.contains(x)
    ensures b.contains(x), b.len() >= a.len()
{
    let i = choose|i: int| 0 <= i < a.len() && a[i] == x;
    assert(b.subrange(0, a.len() as int) =~= a);
    assert(b.subrange(0, a.len() as int)[i] == b[i]);
}
pub open spec fn visited_all(h: Heap, v: Seq<Tid>) -> bool { v.no_duplicates() && forall|t: Tid| #[trigger] v.contains(t) <==> h.has(t) && has_timeout_hook(h, t) }
// ---- admission (oracle: property C05): the action names an existing task, the task kind fits the action
//      (steps for push, acts for everything else) and every declared output is supplied
pub open spec fn admissible(h: Heap, a: Action) -> bool {
    &&& h.has(a.tid@)
    &&& (if a.event is Push { h.tasks[a.tid@].node.s_kind() == NodeKind::Step } else { h.tasks[a.tid@].node.s_kind() == NodeKind::Act })
    &&& h.tasks[a.tid@].node.s_outputs()@.dom().subset_of(a.options@.dom())
}
impl Process {
//@@ extract file=acts/src/scheduler/process/process.rs in="impl Process" item="fn do_tick" name=Process::do_tick props=C19
//@@ opt rewrites=R1,R2,R3,R5,R13,R22
//@@ rw R7 `self . find_tasks ( | t | t . hooks ( ) . contains_key ( & TaskLifeCycle :: Timeout ) )` => `self.tasks_with_timeout_hooks()`
//@@ rw R10 `$X:chain . unwrap_or_else ( | err | $B:block )` => `ignore_err($X)` {*}
//@@ spec
        requires old(h).wf()
        ensures
            //# W3-tick-fwd
            final(h).wf() && fwd(*old(h), *final(h)),
            //# W3-every-task-with-a-timeout-hook-is-visited
            exists|v: Seq<Tid>| #[trigger] visited_all(*old(h), v) && final(h).ctx_log.len() >= old(h).ctx_log.len() + v.len()
                && forall|j: int| 0 <= j < v.len() ==> final(h).ctx_log.contains(#[trigger] v[j]),
//@@ loop 1
        invariant
            //# visited-so-far
            tasks_ok(*h, __v1@) && h.ctx_log.len() >= old(h).ctx_log.len() + __i1 && forall|j: int| 0 <= j < __i1 ==> h.ctx_log.contains((#[trigger] __v1@[j]).id@),
//@@ proof at=loop1
            let ghost h0 = *h;
//@@ proof after=create_context#1
            let ghost h1 = *h;
            proof { assert(h1.ctx_log.last() == t.id@); assert(h1.ctx_log[h1.ctx_log.len() - 1] == t.id@); assert(h1.ctx_log.contains(t.id@)); }
//@@ proof after=run_hooks_timeout#1
            proof {
                assert(h1.ctx_log.is_prefix_of(h.ctx_log));
                assert(h0.ctx_log.is_prefix_of(h1.ctx_log)) by { assert(h1.ctx_log.subrange(0, h0.ctx_log.len() as int) =~= h0.ctx_log); }
                assert(h.ctx_log.subrange(0, h1.ctx_log.len() as int) =~= h1.ctx_log);
                assert forall|j: int| 0 <= j < __i1 implies h.ctx_log.contains((#[trigger] __v1@[j]).id@) by {
                    if j < __i1 - 1 { lemma_prefix_contains(h0.ctx_log, h1.ctx_log, __v1@[j].id@); }
                    lemma_prefix_contains(h1.ctx_log, h.ctx_log, __v1@[j].id@);
                }
            }
//@@ proof at=afterloop1
        proof {
            let v = tids(__v1@);
            assert(visited_all(*old(h), v));
            assert forall|j: int| 0 <= j < v.len() implies h.ctx_log.contains(#[trigger] v[j]) by { assert(h.ctx_log.contains(__v1@[j].id@)); }
        }
//@@ end
//@@ extract file=acts/src/scheduler/process/process.rs in="impl Process" item="fn do_action" name=Process::do_action props=C05,C07,C02
//@@ opt noheap=outputs
//@@ rw R12 `for ( ref key , _ ) in & rets` => `for key in rets.keys_vec().iter()`
//@@ rw R12 `for ( ref key , $V:id ) in & rets $B:block` => `for key in rets.keys_vec().iter() { let $V = rets.value_ref(key); $B }`
//@@ spec
        requires old(h).wf()
        ensures
            //# A-do-action-fwd
            final(h).wf() && fwd(*old(h), *final(h)),
            //# A1-accepted-only-if-admissible
            ret is Ok ==> admissible(*old(h), *action),
            //# A2-inadmissible-rejected-without-effect
            !admissible(*old(h), *action) ==> ret is Err && *final(h) == *old(h),
            //# A2-terminal-act-rejects-everything
            admissible(*old(h), *action) && guarded_event(action.event) && st_terminal(old(h).st(action.tid@)) ==> ret is Err && final(h).tasks == old(h).tasks
                && final(h).queue == old(h).queue && final(h).task_events == old(h).task_events && final(h).proc_events == old(h).proc_events && final(h).msg_closed == old(h).msg_closed
                && final(h).proc_state == old(h).proc_state,
            //# B7-the-return-of-a-sub-process-is-not-refused-for-the-calling-acts-declared-outputs [C15]
            old(h).has(action.tid@) && old(h).tasks[action.tid@].node.s_kind() == NodeKind::Act && !(action.event is Push) && waits_for_return(*old(h), action.tid@)
                && ret is Err ==> final(h).ctx_log.len() > old(h).ctx_log.len(),
//@@ loop 1
        invariant
            //# A3-options-filtered-so-far
            forall|j: int| 0 <= j < __i1 ==> action.options@.dom().contains(#[trigger] __v1@[j]@) && options@.dom().contains(__v1@[j]@) && options@[__v1@[j]@] == action.options@[__v1@[j]@],
            //# A3-only-declared-keys
            forall|k: Seq<char>| options@.dom().contains(k) ==> exists|j: int| 0 <= j < __i1 && #[trigger] __v1@[j]@ == k,
            //# heap-untouched
            *h == *old(h),
//@@ end
}

// ---- the ActTask protocol (scheduler/mod.rs).  Trait-level contract = the summary every implementation keeps.
pub trait ActTask: Sized {
    // `self` is the content of the context's current task (Workflow/Branch/Step/Act) or a task of the heap (Arc<Task>)
    spec fn fits(&self, h: Heap) -> bool;
    // what `run` may assume: the content impls are only run for a task that was just set Running (dispatcher, task.rs run)
    spec fn run_pre(&self, h: Heap) -> bool;
    // which task is current after `init`: unchanged for the content impls, the task itself for the dispatcher
    spec fn init_cur(&self, a: Heap, b: Heap) -> bool;
    // the content impls are initialised for a task that was just set Ready (dispatcher, task.rs init)
    spec fn init_pre(&self, h: Heap) -> bool;
    fn init(&self, ctx: &Context, Tracked(h): Tracked<&mut Heap>) -> (ret: Result<()>)
        requires old(h).wf(), self.fits(*old(h)), self.init_pre(*old(h))
        ensures final(h).wf(), fwd(*old(h), *final(h)), ret is Ok ==> self.init_cur(*old(h), *final(h));
    fn run(&self, ctx: &Context, Tracked(h): Tracked<&mut Heap>) -> (ret: Result<()>)
        requires old(h).wf(), self.fits(*old(h)), self.run_pre(*old(h))
        ensures final(h).wf(), fwd(*old(h), *final(h));
    fn next(&self, ctx: &Context, Tracked(h): Tracked<&mut Heap>) -> (ret: Result<bool>)
        requires old(h).wf(), self.fits(*old(h))
        ensures final(h).wf(), fwd(*old(h), *final(h));
    fn review(&self, ctx: &Context, Tracked(h): Tracked<&mut Heap>) -> (ret: Result<bool>)
        requires old(h).wf(), self.fits(*old(h))
        ensures final(h).wf(), fwd(*old(h), *final(h));
    fn error(&self, ctx: &Context, Tracked(h): Tracked<&mut Heap>) -> (ret: Result<()>)
        requires old(h).wf(), self.fits(*old(h))
        ensures final(h).wf(), fwd(*old(h), *final(h));
}

impl ActTask for Workflow {
    open spec fn fits(&self, h: Heap) -> bool { h.tasks[h.cur].node.content == NodeContent::Workflow(*self) }
    open spec fn init_pre(&self, h: Heap) -> bool { h.st(h.cur) is Ready }
    open spec fn run_pre(&self, h: Heap) -> bool { h.st(h.cur) is Running }
    open spec fn init_cur(&self, a: Heap, b: Heap) -> bool { b.cur == a.cur }
    // R21: the trait's default `error` (scheduler/mod.rs), instantiated here because Workflow does not override it
//@@ extract file=acts/src/scheduler/mod.rs in="trait ActTask" item="fn error" name=Workflow::error(default) props=C02,C06
//@@ opt traitpost attr="#[verifier::exec_allows_no_decreases_clause]"
//@@ end
//@@ extract file=acts/src/scheduler/process/task/workflow.rs in="impl ActTask for Workflow" item="fn init" name=Workflow::init props=C04,C02
//@@ opt traitpost
//@@ rw R8 `ctx . proc . with_env_mut ( | data | $B:block ) ;` => `ctx.proc.set_env_from(&self.env);`
//@@ end
//@@ extract file=acts/src/scheduler/process/task/workflow.rs in="impl ActTask for Workflow" item="fn run" name=Workflow::run props=C02,C04
//@@ opt traitpost
//@@ spec
        ensures
            //# H3-a-workflow-without-steps-completes-at-once-one-with-steps-schedules-each-first-level-step-once [C04,C03]
            ret is Ok && final(h).queue.len() == old(h).queue.len() + n_children(old(h).links_rev, *old(h).tasks[old(h).cur].node).len()
                && (n_children(old(h).links_rev, *old(h).tasks[old(h).cur].node).len() == 0 ==> *final(h) == set_state_spec(*old(h), old(h).cur, TaskState::Completed))
                && (n_children(old(h).links_rev, *old(h).tasks[old(h).cur].node).len() > 0 ==> final(h).st(old(h).cur) == old(h).st(old(h).cur)),
//@@ loop 1
        invariant
            //# steps-scheduled-so-far
            h.queue.len() == old(h).queue.len() + __i1 && h.links_rev == old(h).links_rev && h.cur == old(h).cur && h.st(h.cur) == old(h).st(old(h).cur) && h.has(h.cur)
                && __v1@ == n_children(old(h).links_rev, *old(h).tasks[old(h).cur].node),
//@@ end
//@@ extract file=acts/src/scheduler/process/task/workflow.rs in="impl ActTask for Workflow" item="fn review" name=Workflow::review props=C02,C03
//@@ opt traitpost
//@@ spec
        ensures
            //# H3-a-review-closes-only-a-running-workflow-and-touches-nothing-else [C03]
            ret is Ok && (ret->Ok_0 <==> old(h).st(old(h).cur) is Running)
                && (old(h).st(old(h).cur) is Running ==> *final(h) == set_state_spec(*old(h), old(h).cur, TaskState::Completed))
                && (!(old(h).st(old(h).cur) is Running) ==> *final(h) == *old(h)),
//@@ end
//@@ extract file=acts/src/scheduler/process/task/workflow.rs in="impl ActTask for Workflow" item="fn next" name=Workflow::next props=C03,C04,C02
//@@ opt traitpost rewrites=R1,R2,R3,R5,R13,R22
//@@ spec
        ensures
            //# H2-workflow-done-only-when-all-children-terminal
            ret is Ok && *final(h) == *old(h) && (ret->Ok_0 <==> forall|c: Tid| #[trigger] children_of(*old(h), old(h).cur).contains(c) ==> st_terminal(old(h).st(c))),
//@@ proof after=children#1
        proof { lemma_seq_set(tasks@, children_of(*old(h), old(h).cur)); }
//@@ loop 1
        invariant
            //# all-terminal-so-far
            *h == *old(h) && tasks_ok(*h, __v1@) && (__all <==> forall|j: int| 0 <= j < __i1 ==> st_terminal(h.st((#[trigger] __v1@[j]).id@))),
//@@ proof at=afterloop1
        proof {
            let cs = children_of(*old(h), old(h).cur);
            assert(__v1@ == tasks@);
            if __all {
                assert forall|c: Tid| #[trigger] cs.contains(c) implies st_terminal(old(h).st(c)) by {
                    let j = choose|j: int| 0 <= j < tasks@.len() && (#[trigger] tasks@[j]).id@ == c;
                    assert(st_terminal(h.st(__v1@[j].id@)));
                }
            } else {
                let j = choose|j: int| 0 <= j < __i1 && !st_terminal(h.st((#[trigger] __v1@[j]).id@));
                assert(cs.contains(tasks@[j].id@));
            }
        }
//@@ end
}


impl ActTask for Branch {
    open spec fn fits(&self, h: Heap) -> bool { h.tasks[h.cur].node.content == NodeContent::Branch(*self) }
    open spec fn init_pre(&self, h: Heap) -> bool { h.st(h.cur) is Ready }
    open spec fn run_pre(&self, h: Heap) -> bool { h.st(h.cur) is Running }
    open spec fn init_cur(&self, a: Heap, b: Heap) -> bool { b.cur == a.cur }
    // R21: the trait's default `error` (scheduler/mod.rs), instantiated here because Branch does not override it
//@@ extract file=acts/src/scheduler/mod.rs in="trait ActTask" item="fn error" name=Branch::error(default) props=C02,C06
//@@ opt traitpost attr="#[verifier::exec_allows_no_decreases_clause]"
//@@ end
//@@ extract file=acts/src/scheduler/process/task/branch.rs in="impl ActTask for Branch" item="fn init" name=Branch::init props=C04,C01,C02,C08
//@@ opt traitpost
//@@ proof at=start
        proof { lemma_flag_keys(); }
//@@ proof before=is_ready#1
            proof {
                lemma_sibs_stable(*old(h), *h, old(h).cur);
                assert forall|t: Tid| sib_set(*old(h), old(h).cur).contains(t) implies h.tasks[t] == old(h).tasks[t] by {}
            }
//@@ proof before=is_ready#2
                    proof {
                        lemma_sibs_stable(*old(h), *h, old(h).cur);
                        assert forall|t: Tid| sib_set(*old(h), old(h).cur).contains(t) implies h.tasks[t] == old(h).tasks[t] by {}
                    }
//@@ spec
        ensures
            //# D1-branches-emit-no-message
            flag_is(final(h).tasks[old(h).cur], consts::TASK_EMIT_DISABLED@, false),
            //# D1-needs-branch-waits-or-starts
            self.needs@.len() > 0 ==> ret is Ok && (final(h).st(old(h).cur) is Pending || final(h).st(old(h).cur) is Running),
            //# D1-needs-branch-starts-only-after-a-needed-sibling-finished [C04]
            self.needs@.len() > 0 && final(h).st(old(h).cur) is Running
                ==> exists|t: Tid| #[trigger] sib_set(*old(h), old(h).cur).contains(t) && st_terminal(old(h).st(t)) && needs_has(self.needs@, old(h).tasks[t].node.id@),
            //# D1-false-condition-skips
            self.needs@.len() == 0 && self.r#if is Some && ret is Ok && eval_result::<bool>(self.r#if->Some_0@, emit_off(*old(h))) == Ok::<bool, ActError>(false)
                ==> final(h).st(old(h).cur) is Skipped,
            //# D1-true-condition-stays-ready
            self.needs@.len() == 0 && self.r#if is Some && ret is Ok && eval_result::<bool>(self.r#if->Some_0@, emit_off(*old(h))) == Ok::<bool, ActError>(true)
                ==> final(h).st(old(h).cur) is Ready,
            //# D1-no-condition-no-else-skips
            self.needs@.len() == 0 && self.r#if is None && !self.r#else ==> ret is Ok && final(h).st(old(h).cur) is Skipped,
            //# O1-needs-branch-is-not-left-waiting-when-a-needed-sibling-already-finished [C01,C04]
            self.needs@.len() > 0 && (exists|t: Tid| #[trigger] sib_set(*old(h), old(h).cur).contains(t) && st_terminal(old(h).st(t)) && needs_has(self.needs@, old(h).tasks[t].node.id@))
                ==> !(final(h).st(old(h).cur) is Pending),
            //# O1-else-branch-is-not-left-waiting-when-every-sibling-is-already-skipped [C01,C04]
            self.needs@.len() == 0 && self.r#if is None && self.r#else && (forall|t: Tid| #[trigger] sib_set(*old(h), old(h).cur).contains(t) ==> old(h).st(t) is Skipped)
                ==> !(final(h).st(old(h).cur) is Pending),
            //# O1-else-branch-is-not-left-waiting-when-a-sibling-already-ran [C01,C04]
            self.needs@.len() == 0 && self.r#if is None && self.r#else && (exists|t: Tid| #[trigger] sib_set(*old(h), old(h).cur).contains(t) && st_ran(old(h).st(t)))
                ==> !(final(h).st(old(h).cur) is Pending),
            //# D1-else-branch-waits-unless-decided
            self.needs@.len() == 0 && self.r#if is None && self.r#else ==> ret is Ok && (final(h).st(old(h).cur) is Pending || final(h).st(old(h).cur) is Ready
                || final(h).st(old(h).cur) is Running || final(h).st(old(h).cur) is Skipped),
            //# D1-else-branch-runs-only-if-no-sibling-condition-held [C04]
            self.needs@.len() == 0 && self.r#if is None && self.r#else && final(h).st(old(h).cur) is Running
                ==> forall|t: Tid| #[trigger] sib_set(*old(h), old(h).cur).contains(t) ==> old(h).st(t) is Skipped,
            //# D1-else-branch-skipped-only-if-a-sibling-ran [C04]
            self.needs@.len() == 0 && self.r#if is None && self.r#else && final(h).st(old(h).cur) is Skipped
                ==> exists|t: Tid| #[trigger] sib_set(*old(h), old(h).cur).contains(t) && st_ran(old(h).st(t)),
//@@ end
//@@ extract file=acts/src/scheduler/process/task/branch.rs in="impl ActTask for Branch" item="fn run" name=Branch::run props=C02,C04
//@@ opt traitpost
//@@ end
//@@ extract file=acts/src/scheduler/process/task/branch.rs in="impl ActTask for Branch" item="fn next" name=Branch::next props=C02,C03,C04
//@@ opt traitpost
//@@ spec
        ensures
            //# H3-a-branch-that-is-not-running-schedules-nothing [C04]
            !(old(h).st(old(h).cur) is Running) ==> *final(h) == *old(h) && ret == Ok::<bool, ActError>(false),
            //# H3-a-running-branch-without-steps-completes-at-once-one-with-steps-schedules-each-of-them-once [C04,C03]
            old(h).st(old(h).cur) is Running && ret is Ok ==> (ret->Ok_0 <==> n_children(old(h).links_rev, *old(h).tasks[old(h).cur].node).len() > 0)
                && final(h).queue.len() == old(h).queue.len() + n_children(old(h).links_rev, *old(h).tasks[old(h).cur].node).len()
                && (n_children(old(h).links_rev, *old(h).tasks[old(h).cur].node).len() == 0 ==> *final(h) == set_state_spec(*old(h), old(h).cur, TaskState::Completed)),
//@@ loop 1
        invariant
            //# steps-scheduled-so-far
            h.queue.len() == old(h).queue.len() + __i1 && h.links_rev == old(h).links_rev && h.cur == old(h).cur
                && __v1@ == n_children(old(h).links_rev, *old(h).tasks[old(h).cur].node),
//@@ end
//@@ extract file=acts/src/scheduler/process/task/branch.rs in="impl ActTask for Branch" item="fn review" name=Branch::review props=C02,C03
//@@ opt traitpost
//@@ spec
        ensures
            //# H3-a-review-closes-only-a-running-branch-passes-a-skipped-one-on-and-touches-nothing-else [C03,C04]
            ret is Ok && (ret->Ok_0 <==> (old(h).st(old(h).cur) is Running || old(h).st(old(h).cur) is Skipped))
                && (old(h).st(old(h).cur) is Running ==> *final(h) == set_state_spec(*old(h), old(h).cur, TaskState::Completed))
                && (!(old(h).st(old(h).cur) is Running) ==> *final(h) == *old(h)),
//@@ end
}

impl ActTask for Step {
    open spec fn fits(&self, h: Heap) -> bool { h.tasks[h.cur].node.content == NodeContent::Step(*self) }
    open spec fn init_pre(&self, h: Heap) -> bool { h.st(h.cur) is Ready }
    open spec fn run_pre(&self, h: Heap) -> bool { h.st(h.cur) is Running }
    open spec fn init_cur(&self, a: Heap, b: Heap) -> bool { b.cur == a.cur }
    // R21: the trait's default `error` (scheduler/mod.rs), instantiated here because Step does not override it
//@@ extract file=acts/src/scheduler/mod.rs in="trait ActTask" item="fn error" name=Step::error(default) props=C02,C06
//@@ opt traitpost attr="#[verifier::exec_allows_no_decreases_clause]"
//@@ end
//@@ extract file=acts/src/scheduler/process/task/step.rs in="impl ActTask for Step" item="fn init" name=Step::init props=C04,C02,C06,C19
//@@ opt traitpost
//@@ spec
        ensures
            //# D3-false-condition-skips-and-schedules-nothing
            self.r#if is Some && ret is Ok && eval_result::<bool>(self.r#if->Some_0@, *old(h)) == Ok::<bool, ActError>(false)
                ==> final(h).st(old(h).cur) is Skipped && final(h).queue == old(h).queue && final(h).hooks == old(h).hooks,
            //# D3-init-schedules-nothing
            final(h).queue == old(h).queue && final(h).tasks.dom() == old(h).tasks.dom(),
//@@ loop 1
        invariant
            //# registering-hooks
            h.cur == old(h).cur && task.id@ == h.cur && h.tasks.dom() == old(h).tasks.dom() && h.queue == old(h).queue,
//@@ loop 2
        invariant
            //# registering-hooks
            h.cur == old(h).cur && task.id@ == h.cur && h.tasks.dom() == old(h).tasks.dom() && h.queue == old(h).queue,
//@@ end
//@@ extract file=acts/src/scheduler/process/task/step.rs in="impl ActTask for Step" item="fn run" name=Step::run props=C02,C04
//@@ opt traitpost
//@@ spec
        ensures
            //# H3-a-running-step-schedules-each-of-its-children-once-and-changes-no-state [C04]
            ret is Ok && final(h).queue.len() == old(h).queue.len() + n_children(old(h).links_rev, *old(h).tasks[old(h).cur].node).len()
                && forall|x: Tid| #[trigger] old(h).has(x) ==> final(h).tasks[x] == old(h).tasks[x],
//@@ loop 1
        invariant
            //# children-scheduled-so-far
            h.queue.len() == old(h).queue.len() + __i1 && h.links_rev == old(h).links_rev && h.cur == old(h).cur
                && __v1@ == n_children(old(h).links_rev, *old(h).tasks[old(h).cur].node)
                && forall|x: Tid| #[trigger] old(h).has(x) ==> h.has(x) && h.tasks[x] == old(h).tasks[x],
//@@ end
//@@ extract file=acts/src/scheduler/process/task/step.rs in="impl ActTask for Step" item="fn next" name=Step::next props=C02,C03,C04,C01
//@@ opt traitpost
//@@ spec
        ensures
            //# D5-a-skipped-step-hands-on-to-its-successor-and-touches-nothing-else [C01,C04]
            ret is Ok && old(h).st(old(h).cur) is Skipped && n_next(old(h).links_rev, *old(h).tasks[old(h).cur].node) is Some
                ==> ret->Ok_0 && final(h).queue.len() == old(h).queue.len() + 1 && forall|x: Tid| #[trigger] old(h).has(x) ==> final(h).tasks[x] == old(h).tasks[x],
            //# D5-a-step-that-is-neither-running-nor-skipped-schedules-nothing [C04]
            !(old(h).st(old(h).cur) is Running) && !(old(h).st(old(h).cur) is Skipped) ==> *final(h) == *old(h) && ret == Ok::<bool, ActError>(false),
//@@ loop 1
        invariant
            //# count-bound
            count <= __i1, tasks_ok(*h, __v1@),
            //# H1-counted-children-are-closed
            count == __i1 ==> forall|j: int| 0 <= j < __i1 ==> h.has((#[trigger] __v1@[j]).id@) && closed_or_revived(h.tasks[__v1@[j].id@]),
//@@ proof before=set_state#2
                proof {
                    //# H1-completes-only-over-closed-children [C03]
                    assert(forall|j: int| 0 <= j < tasks@.len() ==> closed_or_revived(h.tasks[(#[trigger] tasks@[j]).id@]));
                }
//@@ end
//@@ extract file=acts/src/scheduler/process/task/step.rs in="impl ActTask for Step" item="fn review" name=Step::review props=C02,C03,C04,C01
//@@ opt traitpost
//@@ proof before=is_completed#2
                proof {
                    //# D5-the-successor-is-scheduled-only-by-the-review-that-closes-the-step [C04]
                    assert(h.st(h.cur) is Running && h.cur == old(h).cur);
                }
//@@ loop 1
        invariant
            //# count-bound
            count <= __i1, tasks_ok(*h, __v1@),
            //# D5-the-step-itself-is-still-running-while-its-children-are-counted [C04]
            h.cur == old(h).cur && h.st(h.cur) is Running,
            //# H1-counted-children-are-closed
            count == __i1 ==> forall|j: int| 0 <= j < __i1 ==> h.has((#[trigger] __v1@[j]).id@) && closed_or_revived(h.tasks[__v1@[j].id@]),
//@@ proof before=set_state#2
                proof {
                    //# H1-completes-only-over-closed-children [C03]
                    assert(forall|j: int| 0 <= j < tasks@.len() ==> closed_or_revived(h.tasks[(#[trigger] tasks@[j]).id@]));
                }
//@@ end
}

impl ActTask for Act {
    open spec fn fits(&self, h: Heap) -> bool { h.tasks[h.cur].node.content == NodeContent::Act(*self) }
    open spec fn init_pre(&self, h: Heap) -> bool { h.st(h.cur) is Ready }
    open spec fn run_pre(&self, h: Heap) -> bool { h.st(h.cur) is Running }
    open spec fn init_cur(&self, a: Heap, b: Heap) -> bool { b.cur == a.cur }
    // R21: the trait's default `error` (scheduler/mod.rs), instantiated here because Act does not override it
//@@ extract file=acts/src/scheduler/mod.rs in="trait ActTask" item="fn error" name=Act::error(default) props=C02,C06
//@@ opt traitpost attr="#[verifier::exec_allows_no_decreases_clause]"
//@@ end
//@@ extract file=acts/src/scheduler/process/task/act.rs in="impl ActTask for Act" item="fn init" name=Act::init props=C04,C08,C02,C06,C19
//@@ opt traitpost
//@@ rw R7 `crate :: ActError` => `ActError`
//@@ proof at=start
        proof { lemma_flag_keys(); }
//@@ spec
        ensures
            //# D3-false-condition-skips-and-schedules-nothing
            self.r#if is Some && ret is Ok && eval_result::<bool>(self.r#if->Some_0@, *old(h)) == Ok::<bool, ActError>(false)
                ==> final(h).st(old(h).cur) is Skipped && final(h).queue == old(h).queue && final(h).hooks == old(h).hooks,
            //# M4-irq-acts-interrupt-and-report
            ret is Ok && !(final(h).st(old(h).cur) is Skipped) && pack_info(self.uses@) is Ok && pack_info(self.uses@)->Ok_0.run_as is Irq
                ==> final(h).st(old(h).cur) is Interrupt && flag_is(final(h).tasks[old(h).cur], consts::TASK_EMIT_DISABLED@, false) == flag_is(old(h).tasks[old(h).cur], consts::TASK_EMIT_DISABLED@, false),
            //# M4-msg-and-func-acts-start-silent
            ret is Ok && !(final(h).st(old(h).cur) is Skipped) && pack_info(self.uses@) is Ok && !(pack_info(self.uses@)->Ok_0.run_as is Irq)
                ==> final(h).st(old(h).cur) is Ready && flag_is(final(h).tasks[old(h).cur], consts::TASK_EMIT_DISABLED@, false),
            //# D3-init-schedules-nothing
            final(h).queue == old(h).queue && final(h).tasks.dom() == old(h).tasks.dom(),
            //# B1-unknown-package-fails-the-act
            self.uses@.len() > 0 && pack_info(self.uses@) is Err && !(final(h).st(old(h).cur) is Skipped) ==> ret is Err,
//@@ loop 1
        invariant
            //# registering-hooks
            h.cur == old(h).cur && task.id@ == h.cur && h.tasks.dom() == old(h).tasks.dom() && h.queue == old(h).queue
                && h.st(h.cur) == old(h).st(old(h).cur) && h.tasks[h.cur].flags == old(h).tasks[old(h).cur].flags,
//@@ loop 2
        invariant
            //# registering-hooks
            h.cur == old(h).cur && task.id@ == h.cur && h.tasks.dom() == old(h).tasks.dom() && h.queue == old(h).queue
                && h.st(h.cur) == old(h).st(old(h).cur) && h.tasks[h.cur].flags == old(h).tasks[old(h).cur].flags,
//@@ end
//@@ extract file=acts/src/scheduler/process/task/act.rs in="impl ActTask for Act" item="fn run" name=Act::run props=C04,C08,C02,C16
//@@ opt traitpost
//@@ rw R7 `( register . create ) ( $A )` => `register.create_pack($A)`
//@@ proof at=start
        proof { lemma_flag_keys(); }
//@@ spec
        ensures
            //# M4-msg-acts-report-once-running
            ret is Ok && pack_info(self.uses@) is Ok && pack_info(self.uses@)->Ok_0.run_as is Msg ==> !flag_is(final(h).tasks[old(h).cur], consts::TASK_EMIT_DISABLED@, false),
            //# D4-act-run-keeps-task-states
            forall|x: Tid| #[trigger] old(h).has(x) ==> final(h).tasks[x].state == old(h).tasks[x].state,
//@@ proof at=beforeloop1
        let ghost hb = *h;
//@@ loop 1
        invariant
            //# children-scheduled
            h.cur == old(h).cur && forall|x: Tid| #[trigger] hb.has(x) ==> h.has(x) && h.tasks[x] == hb.tasks[x],
//@@ end
//@@ extract file=acts/src/scheduler/process/task/act.rs in="impl ActTask for Act" item="fn next" name=Act::next props=C02,C03,C04,C01,C15
//@@ opt traitpost
//@@ spec
        ensures
            //# D5-an-act-that-ended-in-success-or-was-skipped-hands-on-to-its-successor [C01,C04]
            ret is Ok && (old(h).st(old(h).cur) is Skipped || old(h).st(old(h).cur) is Completed)
                && n_next(old(h).links_rev, *old(h).tasks[old(h).cur].node) is Some
                ==> ret->Ok_0 && final(h).queue.len() == old(h).queue.len() + 1,
//@@ loop 1
        invariant
            //# count-bound
            count <= __i1, tasks_ok(*h, __v1@),
            //# H1-counted-children-are-closed
            count == __i1 ==> forall|j: int| 0 <= j < __i1 ==> h.has((#[trigger] __v1@[j]).id@) && closed_or_revived(h.tasks[__v1@[j].id@]),
//@@ proof before=set_state#2
                proof {
                    //# H1-completes-only-over-closed-children [C03]
                    assert(forall|j: int| 0 <= j < tasks@.len() ==> closed_or_revived(h.tasks[(#[trigger] tasks@[j]).id@]));
                }
//@@ end
//@@ extract file=acts/src/scheduler/process/task/act.rs in="impl ActTask for Act" item="fn review" name=Act::review props=C02,C03,C04
//@@ opt traitpost
//@@ spec
        ensures
            //# B6-an-act-that-waits-for-its-sub-process-is-not-completed-by-its-own-children [C15]
            waits_for_return(*old(h), old(h).cur) && !(old(h).st(old(h).cur) is Completed) ==> !(final(h).st(old(h).cur) is Completed),
//@@ loop 1
        invariant
            //# count-bound
            count <= __i1, tasks_ok(*h, __v1@),
            //# review-reads-only
            *h == *old(h) && task.id@ == h.cur && h.st(h.cur) is Running,
//@@ end
}

// the dispatcher: task.rs `impl ActTask for Arc<Task>`
impl ActTask for Arc<Task> {
    open spec fn fits(&self, h: Heap) -> bool { wf_task(h, **self) }
    open spec fn init_pre(&self, h: Heap) -> bool { true }
    open spec fn run_pre(&self, h: Heap) -> bool { h.cur == self.id@ }
    open spec fn init_cur(&self, a: Heap, b: Heap) -> bool { b.cur == self.id@ }
//@@ extract file=acts/src/scheduler/process/task.rs in="impl ActTask for Arc<Task>" item="fn init" name=Arc<Task>::init props=C02,C03,C08
//@@ opt traitpost
//@@ proof before=emit_task#1
                proof {
                    //# M6-the-first-event-of-a-task-is-raised-only-by-the-call-that-initialises-it [C08]
                    // ("at most one created message per task": an init on a task that left state none long ago reports nothing)
                    assert(old(h).st(self.id@) is None && !st_terminal(h.st(self.id@)));
                }
//@@ end
//@@ extract file=acts/src/scheduler/process/task.rs in="impl ActTask for Arc<Task>" item="fn run" name=Arc<Task>::run props=C02,C04,C08
//@@ opt traitpost
//@@ proof before=emit_task#1
            proof {
                //# M6-the-event-after-running-is-raised-only-for-a-task-that-this-call-took-from-ready [C08]
                assert(old(h).st(old(h).cur) is Ready);
            }
//@@ end
//@@ extract file=acts/src/scheduler/process/task.rs in="impl ActTask for Arc<Task>" item="fn next" name=Arc<Task>::next props=C02,C01,C03,C08
//@@ opt traitpost attr="#[verifier::exec_allows_no_decreases_clause]"
//@@ rw R7 `& parent . clone ( )` => `&parent`
//@@ proof before=emit_task#1
            proof {
                //# M6-after-next-only-a-task-that-has-ended-is-reported [C08]
                assert(st_terminal(h.st(self.id@)));
            }
//@@ end
//@@ extract file=acts/src/scheduler/process/task.rs in="impl ActTask for Arc<Task>" item="fn review" name=Arc<Task>::review props=C02,C03,C08
//@@ opt traitpost attr="#[verifier::exec_allows_no_decreases_clause]"
//@@ rw R7 `& parent . clone ( )` => `&parent`
//@@ proof after=set_task#1
        let ghost hb = *h;
//@@ proof before=emit_task#1
            proof {
                //# M6-a-review-reports-a-task-only-if-this-very-review-changed-its-state [C08]
                // ("at most one terminal message per task": a parent that already ended and was reported is not reported again when a late child reviews it)
                assert(hb.st(self.id@) != h.st(self.id@));
            }
//@@ end
//@@ extract file=acts/src/scheduler/process/task.rs in="impl ActTask for Arc<Task>" item="fn error" name=Arc<Task>::error props=C02,C06
//@@ opt traitpost
//@@ end
}
} // verus!
fn main() {}
