// U-sqlwrite: what the SQLite collections write (C10: "create followed by find returns a record equal in every field, update replaces every
// field"; C11/C12: the rows the engine reloads from).  For every collection, `create` inserts and `update` sets, column by column, the field
// of the same name: the statement handed to the connection pairs each column with the value of ITS OWN field (a column list and a value
// list are positional in sea-query: one swapped line silently stores a field in another column).
// The sea-query builder chains return `&mut Self` (no Verus support): each chain is rewritten (R7, exact token match with the two
// lists captured verbatim) into one call of a prelude function that keeps the lists.  TRUSTED: sea-query builds the SQL its lists say,
// `#[derive(Iden)]` names a column by the snake_case of its variant, rusqlite executes the statement.
//@@ unit U-sqlwrite
//@@ default props=C10,C12 rewrites=R1,R2,R3,R5,R13 ghost="Tracked(db): Tracked<&mut DbLog>" ghostarg="Tracked(db)"
//@@ heapmethods execute
use vstd::prelude::*;
verus! {
pub enum SqlV { Str(Seq<char>), OptStr(Option<Seq<char>>), I64(int), I32(int), I8(int), Bool(bool) }
#[verifier::external_body]
pub struct SimpleExpr { _p: u8 }
impl SimpleExpr { pub uninterp spec fn view(&self) -> SqlV; }
pub uninterp spec fn expr_of(v: SqlV) -> SimpleExpr;
#[verifier::external_body]
pub broadcast proof fn axiom_expr_of(v: SqlV) ensures #[trigger] expr_of(v)@ == v {}
pub open spec fn opt_view(o: Option<String>) -> Option<Seq<char>> { match o { Some(s) => Some(s@), None => None } }
// `x.into()` into a sea-query value keeps the value (ASSUMED: sea_query::Value: From<String | Option<String> | i64 | i32 | i8 | bool>)
impl vstd::std_specs::convert::FromSpecImpl<String> for SimpleExpr { open spec fn obeys_from_spec() -> bool { true } open spec fn from_spec(v: String) -> Self { expr_of(SqlV::Str(v@)) } }
impl vstd::std_specs::convert::FromSpecImpl<Option<String>> for SimpleExpr { open spec fn obeys_from_spec() -> bool { true } open spec fn from_spec(v: Option<String>) -> Self { expr_of(SqlV::OptStr(opt_view(v))) } }
impl vstd::std_specs::convert::FromSpecImpl<i64> for SimpleExpr { open spec fn obeys_from_spec() -> bool { true } open spec fn from_spec(v: i64) -> Self { expr_of(SqlV::I64(v as int)) } }
impl vstd::std_specs::convert::FromSpecImpl<i32> for SimpleExpr { open spec fn obeys_from_spec() -> bool { true } open spec fn from_spec(v: i32) -> Self { expr_of(SqlV::I32(v as int)) } }
impl From<String> for SimpleExpr { #[verifier::external_body] fn from(v: String) -> (r: Self) ensures r == expr_of(SqlV::Str(v@)) { unimplemented!() } }
impl From<Option<String>> for SimpleExpr { #[verifier::external_body] fn from(v: Option<String>) -> (r: Self) ensures r == expr_of(SqlV::OptStr(opt_view(v))) { unimplemented!() } }
impl From<i64> for SimpleExpr { #[verifier::external_body] fn from(v: i64) -> (r: Self) ensures r == expr_of(SqlV::I64(v as int)) { unimplemented!() } }
impl From<i32> for SimpleExpr { #[verifier::external_body] fn from(v: i32) -> (r: Self) ensures r == expr_of(SqlV::I32(v as int)) { unimplemented!() } }

pub struct ActError {}
pub type Result<T> = std::result::Result<T, ActError>;
pub trait Iden: Sized { spec fn col_name(&self) -> Seq<char>; }
// a statement as the lists say it: table, (column, value) pairs, and the id it is restricted to (update)
pub enum Stmt { Insert { table: Seq<char>, pairs: Seq<(Seq<char>, SqlV)> }, Update { table: Seq<char>, pairs: Seq<(Seq<char>, SqlV)>, id_col: Seq<char>, id: Seq<char> } }
pub ghost struct DbLog { pub executed: Seq<Stmt> }
#[verifier::external_body]
pub struct Built { _p: u8 }
impl Built { pub uninterp spec fn view(&self) -> Stmt; }
pub open spec fn zip_cols<I: Iden>(cols: Seq<I>, vals: Seq<SimpleExpr>) -> Seq<(Seq<char>, SqlV)> {
    Seq::new(cols.len(), |i: int| (cols[i].col_name(), vals[i]@))
}
pub open spec fn pair_cols<I: Iden>(p: Seq<(I, SimpleExpr)>) -> Seq<(Seq<char>, SqlV)> {
    Seq::new(p.len(), |i: int| (p[i].0.col_name(), p[i].1@))
}
// R7: SeaQuery::insert().into_table(T).columns([..]).values([..]).map_err(map_db_err)?.build_rusqlite(SqliteQueryBuilder)
#[verifier::external_body]
pub fn sea_insert<I: Iden, const N: usize>(table: I, cols: [I; N], vals: [SimpleExpr; N]) -> (r: Result<Built>)
    ensures r is Ok ==> r->Ok_0@ == (Stmt::Insert { table: table.col_name(), pairs: zip_cols(cols@, vals@) }) { unimplemented!() }
// R7: SeaQuery::update().table(T).values([(col, value), ..]).and_where(SeaExpr::col(Id).eq(id)).build_rusqlite(SqliteQueryBuilder)
#[verifier::external_body]
pub fn sea_update<I: Iden, const N: usize>(table: I, pairs: [(I, SimpleExpr); N], id_col: I, id: &str) -> (r: Built)
    ensures r@ == (Stmt::Update { table: table.col_name(), pairs: pair_cols(pairs@), id_col: id_col.col_name(), id: id@ }) { unimplemented!() }
#[verifier::external_body]
pub struct Conn { _p: u8 }
impl Conn {
    // R7: conn.execute(sql.as_str(), &*sql_values.as_params()).map_err(map_db_err)?
    #[verifier::external_body]
    pub fn execute(&self, b: &Built, Tracked(db): Tracked<&mut DbLog>) -> (r: Result<usize>)
        ensures r is Ok ==> final(db).executed == old(db).executed.push(b@), r is Err ==> *final(db) == *old(db) { unimplemented!() }
}
#[verifier::external_body]
pub struct DbConnection { _p: u8 }
impl DbConnection {
    // R7: self.conn.get().unwrap()
    #[verifier::external_body]
    pub fn get_conn(&self) -> (r: Conn) { unimplemented!() }
}

// ---- enums stored as text / code (strum AsRefStr, serde_repr): ASSUMED conversions, named here
//@@ extract file=acts/src/event/message.rs item="enum MessageState" name=MessageState
//@@ opt structural
//@@ end
//@@ extract file=acts/src/store/data/message.rs item="enum MessageStatus" name=MessageStatus
//@@ opt structural
//@@ end
//@@ extract file=acts/src/package/mod.rs item="enum ActRunAs" name=ActRunAs
//@@ opt structural
//@@ end
//@@ extract file=acts/src/package/mod.rs item="enum ActPackageCatalog" name=ActPackageCatalog
//@@ opt structural
//@@ end
pub uninterp spec fn mstate_str(s: MessageState) -> Seq<char>;
pub uninterp spec fn runas_str(s: ActRunAs) -> Seq<char>;
pub uninterp spec fn catalog_str(s: ActPackageCatalog) -> Seq<char>;
pub open spec fn status_code(s: MessageStatus) -> int { match s { MessageStatus::Created => 0, MessageStatus::Acked => 1, MessageStatus::Completed => 2, MessageStatus::Error => 3 } }
impl MessageState { #[verifier::external_body] pub fn as_ref(&self) -> (r: &'static str) ensures r@ == mstate_str(*self) { unimplemented!() } }
impl ActRunAs { #[verifier::external_body] pub fn as_ref(&self) -> (r: &'static str) ensures r@ == runas_str(*self) { unimplemented!() } }
impl ActPackageCatalog { #[verifier::external_body] pub fn as_ref(&self) -> (r: &'static str) ensures r@ == catalog_str(*self) { unimplemented!() } }
impl<'a> vstd::std_specs::convert::FromSpecImpl<&'a str> for SimpleExpr { open spec fn obeys_from_spec() -> bool { true } open spec fn from_spec(v: &'a str) -> Self { expr_of(SqlV::Str(v@)) } }
impl<'a> From<&'a str> for SimpleExpr { #[verifier::external_body] fn from(v: &'a str) -> (r: Self) ensures r == expr_of(SqlV::Str(v@)) { unimplemented!() } }
impl vstd::std_specs::convert::FromSpecImpl<bool> for SimpleExpr { open spec fn obeys_from_spec() -> bool { true } open spec fn from_spec(v: bool) -> Self { expr_of(SqlV::Bool(v)) } }
impl From<bool> for SimpleExpr { #[verifier::external_body] fn from(v: bool) -> (r: Self) ensures r == expr_of(SqlV::Bool(v)) { unimplemented!() } }
// R7: `Into::<i8>::into(status).into()`: the status is stored as its i8 code (serde_repr / impl From<MessageStatus> for i8)
#[verifier::external_body]
pub fn status_value(s: MessageStatus) -> (r: SimpleExpr) ensures r == expr_of(SqlV::I8(status_code(s))) { unimplemented!() }

pub mod data {
use super::*;
//@@ extract file=acts/src/store/data/task.rs item="struct Task"
//@@ opt dropderive=Clone
//@@ end
//@@ extract file=acts/src/store/data/proc.rs item="struct Proc"
//@@ opt dropderive=Clone
//@@ end
//@@ extract file=acts/src/store/data/model.rs item="struct Model"
//@@ opt dropderive=Clone
//@@ end
//@@ extract file=acts/src/store/data/event.rs item="struct Event"
//@@ opt dropderive=Clone
//@@ end
//@@ extract file=acts/src/store/data/message.rs item="struct Message"
//@@ opt dropderive=Clone
//@@ end
//@@ extract file=acts/src/store/data/package.rs item="struct Package"
//@@ opt dropderive=Clone
//@@ end
}
impl Clone for data::Task { #[verifier::external_body] fn clone(&self) -> (r: Self) ensures r == *self { unimplemented!() } }
impl data::Task { #[verifier::external_body] pub fn id(&self) -> (r: &str) ensures r@ == self.id@ { unimplemented!() } }
impl Clone for data::Proc { #[verifier::external_body] fn clone(&self) -> (r: Self) ensures r == *self { unimplemented!() } }
impl data::Proc { #[verifier::external_body] pub fn id(&self) -> (r: &str) ensures r@ == self.id@ { unimplemented!() } }
impl Clone for data::Model { #[verifier::external_body] fn clone(&self) -> (r: Self) ensures r == *self { unimplemented!() } }
impl data::Model { #[verifier::external_body] pub fn id(&self) -> (r: &str) ensures r@ == self.id@ { unimplemented!() } }
impl Clone for data::Event { #[verifier::external_body] fn clone(&self) -> (r: Self) ensures r == *self { unimplemented!() } }
impl data::Event { #[verifier::external_body] pub fn id(&self) -> (r: &str) ensures r@ == self.id@ { unimplemented!() } }
impl Clone for data::Message { #[verifier::external_body] fn clone(&self) -> (r: Self) ensures r == *self { unimplemented!() } }
impl data::Message { #[verifier::external_body] pub fn id(&self) -> (r: &str) ensures r@ == self.id@ { unimplemented!() } }
impl Clone for data::Package { #[verifier::external_body] fn clone(&self) -> (r: Self) ensures r == *self { unimplemented!() } }
impl data::Package { #[verifier::external_body] pub fn id(&self) -> (r: &str) ensures r@ == self.id@ { unimplemented!() } }

// ---------------------------------------------------------------- tasks
pub mod task {
use super::*;
//@@ extract file=store/sqlite/src/collection/task.rs item="enum CollectionIden" name=task::CollectionIden
//@@ opt dropderive=Iden
//@@ rw R17 `enum CollectionIden` => `pub enum CollectionIden`
//@@ end
// `#[derive(Iden)] #[iden = "tasks"]`: the column name is the snake_case of the variant (ASSUMED, derive-generated)
impl Iden for CollectionIden {
    open spec fn col_name(&self) -> Seq<char> {
        match self { CollectionIden::Table => "tasks"@, CollectionIden::Id => "id"@, CollectionIden::Pid => "pid"@, CollectionIden::Tid => "tid"@, CollectionIden::NodeData => "node_data"@, CollectionIden::Kind => "kind"@, CollectionIden::Prev => "prev"@, CollectionIden::Name => "name"@, CollectionIden::State => "state"@, CollectionIden::Data => "data"@, CollectionIden::Err => "err"@, CollectionIden::StartTime => "start_time"@, CollectionIden::EndTime => "end_time"@, CollectionIden::Hooks => "hooks"@, CollectionIden::Timestamp => "timestamp"@, }
    }
}
// oracle: every column holds the field of the same name (the names U-sqlmap's from_row reads)
pub open spec fn cols_of(d: data::Task) -> Seq<(Seq<char>, SqlV)> {
    seq![("id"@, SqlV::Str(d.id@)), ("pid"@, SqlV::Str(d.pid@)), ("tid"@, SqlV::Str(d.tid@)), ("node_data"@, SqlV::Str(d.node_data@)), ("kind"@, SqlV::Str(d.kind@)), ("prev"@, SqlV::OptStr(opt_view(d.prev))), ("name"@, SqlV::Str(d.name@)), ("state"@, SqlV::Str(d.state@)), ("data"@, SqlV::Str(d.data@)), ("err"@, SqlV::OptStr(opt_view(d.err))), ("start_time"@, SqlV::I64(d.start_time as int)), ("end_time"@, SqlV::I64(d.end_time as int)), ("hooks"@, SqlV::Str(d.hooks@)), ("timestamp"@, SqlV::I64(d.timestamp as int))]
}
pub open spec fn set_cols_of(d: data::Task) -> Seq<(Seq<char>, SqlV)> {
    seq![("pid"@, SqlV::Str(d.pid@)), ("tid"@, SqlV::Str(d.tid@)), ("node_data"@, SqlV::Str(d.node_data@)), ("kind"@, SqlV::Str(d.kind@)), ("prev"@, SqlV::OptStr(opt_view(d.prev))), ("name"@, SqlV::Str(d.name@)), ("state"@, SqlV::Str(d.state@)), ("data"@, SqlV::Str(d.data@)), ("err"@, SqlV::OptStr(opt_view(d.err))), ("start_time"@, SqlV::I64(d.start_time as int)), ("end_time"@, SqlV::I64(d.end_time as int)), ("hooks"@, SqlV::Str(d.hooks@)), ("timestamp"@, SqlV::I64(d.timestamp as int))]
}
pub struct TaskCollection { pub conn: DbConnection }
impl TaskCollection {
//@@ extract file=store/sqlite/src/collection/task.rs in="impl DbCollection for TaskCollection" item="fn create" name=sqlite::Task::create
//@@ rw R7 `& Self :: Item` => `&data::Task`
//@@ rw R7 `self . conn . get ( ) . unwrap ( )` => `self.conn.get_conn()`
//@@ rw R7 `let ( sql , sql_values ) = SeaQuery :: insert ( ) . into_table ( $T:chain ) . columns ( [ $C:args ] ) . values ( [ $V:args ] ) . map_err ( map_db_err ) ? . build_rusqlite ( SqliteQueryBuilder ) ;` => `let built = sea_insert($T, [$C], [$V])?;`
//@@ rw R7 `conn . execute ( sql . as_str ( ) , & * sql_values . as_params ( ) ) . map_err ( map_db_err ) ?` => `conn.execute(&built)?`
//@@ rw R7 `Into :: < i8 > :: into ( data . status ) . into ( )` => `status_value(data.status)`
//@@ proof after=sea_insert#1
        proof {
            broadcast use axiom_expr_of;
            //# Q6-create-pairs-every-column-with-the-field-of-the-same-name
            assert(built@->Insert_pairs =~= cols_of(data));
        }
//@@ spec
    ensures
        //# Q6-create-writes-every-field-into-its-own-column
        ret is Ok ==> final(db).executed == old(db).executed.push(Stmt::Insert { table: "tasks"@, pairs: cols_of(*data) }),
        //# Q6-a-refused-statement-writes-nothing
        ret is Err ==> *final(db) == *old(db),
//@@ end
//@@ extract file=store/sqlite/src/collection/task.rs in="impl DbCollection for TaskCollection" item="fn update" name=sqlite::Task::update
//@@ rw R7 `& Self :: Item` => `&data::Task`
//@@ rw R7 `self . conn . get ( ) . unwrap ( )` => `self.conn.get_conn()`
//@@ rw R7 `let ( sql , sql_values ) = SeaQuery :: update ( ) . table ( $T:chain ) . values ( [ $V:args ] ) . and_where ( SeaExpr :: col ( $I:chain ) . eq ( data . id ( ) ) ) . build_rusqlite ( SqliteQueryBuilder ) ;` => `let built = sea_update($T, [$V], $I, data.id());`
//@@ rw R7 `conn . execute ( sql . as_str ( ) , & * sql_values . as_params ( ) ) . map_err ( map_db_err ) ?` => `conn.execute(&built)?`
//@@ rw R7 `Into :: < i8 > :: into ( model . status ) . into ( )` => `status_value(model.status)`
//@@ proof after=sea_update#1
        proof {
            broadcast use axiom_expr_of;
            //# Q6-update-pairs-every-column-with-the-field-of-the-same-name
            assert(built@->Update_pairs =~= set_cols_of(model));
        }
//@@ spec
    ensures
        //# Q6-update-sets-every-field-in-its-own-column-of-the-row-with-that-id
        ret is Ok ==> final(db).executed == old(db).executed.push(Stmt::Update { table: "tasks"@, pairs: set_cols_of(*data), id_col: "id"@, id: data.id@ }),
        //# Q6-a-refused-statement-writes-nothing
        ret is Err ==> *final(db) == *old(db),
//@@ end
}
}
// ---------------------------------------------------------------- procs
pub mod proc {
use super::*;
//@@ extract file=store/sqlite/src/collection/proc.rs item="enum CollectionIden" name=proc::CollectionIden
//@@ opt dropderive=Iden
//@@ rw R17 `enum CollectionIden` => `pub enum CollectionIden`
//@@ end
// `#[derive(Iden)] #[iden = "procs"]`: the column name is the snake_case of the variant (ASSUMED, derive-generated)
impl Iden for CollectionIden {
    open spec fn col_name(&self) -> Seq<char> {
        match self { CollectionIden::Table => "procs"@, CollectionIden::Id => "id"@, CollectionIden::State => "state"@, CollectionIden::Mid => "mid"@, CollectionIden::Name => "name"@, CollectionIden::StartTime => "start_time"@, CollectionIden::EndTime => "end_time"@, CollectionIden::Timestamp => "timestamp"@, CollectionIden::Model => "model"@, CollectionIden::Env => "env"@, CollectionIden::Err => "err"@, }
    }
}
// oracle: every column holds the field of the same name (the names U-sqlmap's from_row reads)
pub open spec fn cols_of(d: data::Proc) -> Seq<(Seq<char>, SqlV)> {
    seq![("id"@, SqlV::Str(d.id@)), ("state"@, SqlV::Str(d.state@)), ("mid"@, SqlV::Str(d.mid@)), ("name"@, SqlV::Str(d.name@)), ("start_time"@, SqlV::I64(d.start_time as int)), ("end_time"@, SqlV::I64(d.end_time as int)), ("timestamp"@, SqlV::I64(d.timestamp as int)), ("model"@, SqlV::Str(d.model@)), ("env"@, SqlV::Str(d.env@)), ("err"@, SqlV::OptStr(opt_view(d.err)))]
}
pub open spec fn set_cols_of(d: data::Proc) -> Seq<(Seq<char>, SqlV)> {
    seq![("state"@, SqlV::Str(d.state@)), ("mid"@, SqlV::Str(d.mid@)), ("name"@, SqlV::Str(d.name@)), ("start_time"@, SqlV::I64(d.start_time as int)), ("end_time"@, SqlV::I64(d.end_time as int)), ("timestamp"@, SqlV::I64(d.timestamp as int)), ("model"@, SqlV::Str(d.model@)), ("env"@, SqlV::Str(d.env@)), ("err"@, SqlV::OptStr(opt_view(d.err)))]
}
pub struct ProcCollection { pub conn: DbConnection }
impl ProcCollection {
//@@ extract file=store/sqlite/src/collection/proc.rs in="impl DbCollection for ProcCollection" item="fn create" name=sqlite::Proc::create
//@@ rw R7 `& Self :: Item` => `&data::Proc`
//@@ rw R7 `self . conn . get ( ) . unwrap ( )` => `self.conn.get_conn()`
//@@ rw R7 `let ( sql , sql_values ) = SeaQuery :: insert ( ) . into_table ( $T:chain ) . columns ( [ $C:args ] ) . values ( [ $V:args ] ) . map_err ( map_db_err ) ? . build_rusqlite ( SqliteQueryBuilder ) ;` => `let built = sea_insert($T, [$C], [$V])?;`
//@@ rw R7 `conn . execute ( sql . as_str ( ) , & * sql_values . as_params ( ) ) . map_err ( map_db_err ) ?` => `conn.execute(&built)?`
//@@ rw R7 `Into :: < i8 > :: into ( data . status ) . into ( )` => `status_value(data.status)`
//@@ proof after=sea_insert#1
        proof {
            broadcast use axiom_expr_of;
            //# Q6-create-pairs-every-column-with-the-field-of-the-same-name
            assert(built@->Insert_pairs =~= cols_of(data));
        }
//@@ spec
    ensures
        //# Q6-create-writes-every-field-into-its-own-column
        ret is Ok ==> final(db).executed == old(db).executed.push(Stmt::Insert { table: "procs"@, pairs: cols_of(*data) }),
        //# Q6-a-refused-statement-writes-nothing
        ret is Err ==> *final(db) == *old(db),
//@@ end
//@@ extract file=store/sqlite/src/collection/proc.rs in="impl DbCollection for ProcCollection" item="fn update" name=sqlite::Proc::update
//@@ rw R7 `& Self :: Item` => `&data::Proc`
//@@ rw R7 `self . conn . get ( ) . unwrap ( )` => `self.conn.get_conn()`
//@@ rw R7 `let ( sql , sql_values ) = SeaQuery :: update ( ) . table ( $T:chain ) . values ( [ $V:args ] ) . and_where ( SeaExpr :: col ( $I:chain ) . eq ( data . id ( ) ) ) . build_rusqlite ( SqliteQueryBuilder ) ;` => `let built = sea_update($T, [$V], $I, data.id());`
//@@ rw R7 `conn . execute ( sql . as_str ( ) , & * sql_values . as_params ( ) ) . map_err ( map_db_err ) ?` => `conn.execute(&built)?`
//@@ rw R7 `Into :: < i8 > :: into ( model . status ) . into ( )` => `status_value(model.status)`
//@@ proof after=sea_update#1
        proof {
            broadcast use axiom_expr_of;
            //# Q6-update-pairs-every-column-with-the-field-of-the-same-name
            assert(built@->Update_pairs =~= set_cols_of(model));
        }
//@@ spec
    ensures
        //# Q6-update-sets-every-field-in-its-own-column-of-the-row-with-that-id
        ret is Ok ==> final(db).executed == old(db).executed.push(Stmt::Update { table: "procs"@, pairs: set_cols_of(*data), id_col: "id"@, id: data.id@ }),
        //# Q6-a-refused-statement-writes-nothing
        ret is Err ==> *final(db) == *old(db),
//@@ end
}
}
// ---------------------------------------------------------------- models
pub mod model {
use super::*;
//@@ extract file=store/sqlite/src/collection/model.rs item="enum CollectionIden" name=model::CollectionIden
//@@ opt dropderive=Iden
//@@ rw R17 `enum CollectionIden` => `pub enum CollectionIden`
//@@ end
// `#[derive(Iden)] #[iden = "models"]`: the column name is the snake_case of the variant (ASSUMED, derive-generated)
impl Iden for CollectionIden {
    open spec fn col_name(&self) -> Seq<char> {
        match self { CollectionIden::Table => "models"@, CollectionIden::Id => "id"@, CollectionIden::Name => "name"@, CollectionIden::Ver => "ver"@, CollectionIden::Size => "size"@, CollectionIden::CreateTime => "create_time"@, CollectionIden::UpdateTime => "update_time"@, CollectionIden::Data => "data"@, CollectionIden::Timestamp => "timestamp"@, }
    }
}
// oracle: every column holds the field of the same name (the names U-sqlmap's from_row reads)
pub open spec fn cols_of(d: data::Model) -> Seq<(Seq<char>, SqlV)> {
    seq![("id"@, SqlV::Str(d.id@)), ("name"@, SqlV::Str(d.name@)), ("ver"@, SqlV::I32(d.ver as int)), ("size"@, SqlV::I32(d.size as int)), ("create_time"@, SqlV::I64(d.create_time as int)), ("update_time"@, SqlV::I64(d.update_time as int)), ("data"@, SqlV::Str(d.data@)), ("timestamp"@, SqlV::I64(d.timestamp as int))]
}
pub open spec fn set_cols_of(d: data::Model) -> Seq<(Seq<char>, SqlV)> {
    seq![("name"@, SqlV::Str(d.name@)), ("ver"@, SqlV::I32(d.ver as int)), ("size"@, SqlV::I32(d.size as int)), ("create_time"@, SqlV::I64(d.create_time as int)), ("update_time"@, SqlV::I64(d.update_time as int)), ("data"@, SqlV::Str(d.data@)), ("timestamp"@, SqlV::I64(d.timestamp as int))]
}
pub struct ModelCollection { pub conn: DbConnection }
impl ModelCollection {
//@@ extract file=store/sqlite/src/collection/model.rs in="impl DbCollection for ModelCollection" item="fn create" name=sqlite::Model::create
//@@ rw R7 `& Self :: Item` => `&data::Model`
//@@ rw R7 `self . conn . get ( ) . unwrap ( )` => `self.conn.get_conn()`
//@@ rw R7 `let ( sql , sql_values ) = SeaQuery :: insert ( ) . into_table ( $T:chain ) . columns ( [ $C:args ] ) . values ( [ $V:args ] ) . map_err ( map_db_err ) ? . build_rusqlite ( SqliteQueryBuilder ) ;` => `let built = sea_insert($T, [$C], [$V])?;`
//@@ rw R7 `conn . execute ( sql . as_str ( ) , & * sql_values . as_params ( ) ) . map_err ( map_db_err ) ?` => `conn.execute(&built)?`
//@@ rw R7 `Into :: < i8 > :: into ( data . status ) . into ( )` => `status_value(data.status)`
//@@ proof after=sea_insert#1
        proof {
            broadcast use axiom_expr_of;
            //# Q6-create-pairs-every-column-with-the-field-of-the-same-name
            assert(built@->Insert_pairs =~= cols_of(data));
        }
//@@ spec
    ensures
        //# Q6-create-writes-every-field-into-its-own-column
        ret is Ok ==> final(db).executed == old(db).executed.push(Stmt::Insert { table: "models"@, pairs: cols_of(*data) }),
        //# Q6-a-refused-statement-writes-nothing
        ret is Err ==> *final(db) == *old(db),
//@@ end
//@@ extract file=store/sqlite/src/collection/model.rs in="impl DbCollection for ModelCollection" item="fn update" name=sqlite::Model::update
//@@ rw R7 `& Self :: Item` => `&data::Model`
//@@ rw R7 `self . conn . get ( ) . unwrap ( )` => `self.conn.get_conn()`
//@@ rw R7 `let ( sql , sql_values ) = SeaQuery :: update ( ) . table ( $T:chain ) . values ( [ $V:args ] ) . and_where ( SeaExpr :: col ( $I:chain ) . eq ( data . id ( ) ) ) . build_rusqlite ( SqliteQueryBuilder ) ;` => `let built = sea_update($T, [$V], $I, data.id());`
//@@ rw R7 `conn . execute ( sql . as_str ( ) , & * sql_values . as_params ( ) ) . map_err ( map_db_err ) ?` => `conn.execute(&built)?`
//@@ rw R7 `Into :: < i8 > :: into ( model . status ) . into ( )` => `status_value(model.status)`
//@@ proof after=sea_update#1
        proof {
            broadcast use axiom_expr_of;
            //# Q6-update-pairs-every-column-with-the-field-of-the-same-name
            assert(built@->Update_pairs =~= set_cols_of(model));
        }
//@@ spec
    ensures
        //# Q6-update-sets-every-field-in-its-own-column-of-the-row-with-that-id
        ret is Ok ==> final(db).executed == old(db).executed.push(Stmt::Update { table: "models"@, pairs: set_cols_of(*data), id_col: "id"@, id: data.id@ }),
        //# Q6-a-refused-statement-writes-nothing
        ret is Err ==> *final(db) == *old(db),
//@@ end
}
}
// ---------------------------------------------------------------- events
pub mod event {
use super::*;
//@@ extract file=store/sqlite/src/collection/event.rs item="enum CollectionIden" name=event::CollectionIden
//@@ opt dropderive=Iden
//@@ rw R17 `enum CollectionIden` => `pub enum CollectionIden`
//@@ end
// `#[derive(Iden)] #[iden = "events"]`: the column name is the snake_case of the variant (ASSUMED, derive-generated)
impl Iden for CollectionIden {
    open spec fn col_name(&self) -> Seq<char> {
        match self { CollectionIden::Table => "events"@, CollectionIden::Id => "id"@, CollectionIden::Name => "name"@, CollectionIden::Mid => "mid"@, CollectionIden::Ver => "ver"@, CollectionIden::Uses => "uses"@, CollectionIden::Params => "params"@, CollectionIden::CreateTime => "create_time"@, CollectionIden::Timestamp => "timestamp"@, }
    }
}
// oracle: every column holds the field of the same name (the names U-sqlmap's from_row reads)
pub open spec fn cols_of(d: data::Event) -> Seq<(Seq<char>, SqlV)> {
    seq![("id"@, SqlV::Str(d.id@)), ("name"@, SqlV::Str(d.name@)), ("mid"@, SqlV::Str(d.mid@)), ("ver"@, SqlV::I32(d.ver as int)), ("uses"@, SqlV::Str(d.uses@)), ("params"@, SqlV::Str(d.params@)), ("create_time"@, SqlV::I64(d.create_time as int)), ("timestamp"@, SqlV::I64(d.timestamp as int))]
}
pub open spec fn set_cols_of(d: data::Event) -> Seq<(Seq<char>, SqlV)> {
    seq![("name"@, SqlV::Str(d.name@)), ("mid"@, SqlV::Str(d.mid@)), ("ver"@, SqlV::I32(d.ver as int)), ("uses"@, SqlV::Str(d.uses@)), ("params"@, SqlV::Str(d.params@)), ("create_time"@, SqlV::I64(d.create_time as int)), ("timestamp"@, SqlV::I64(d.timestamp as int))]
}
pub struct EventCollection { pub conn: DbConnection }
impl EventCollection {
//@@ extract file=store/sqlite/src/collection/event.rs in="impl DbCollection for EventCollection" item="fn create" name=sqlite::Event::create
//@@ rw R7 `& Self :: Item` => `&data::Event`
//@@ rw R7 `self . conn . get ( ) . unwrap ( )` => `self.conn.get_conn()`
//@@ rw R7 `let ( sql , sql_values ) = SeaQuery :: insert ( ) . into_table ( $T:chain ) . columns ( [ $C:args ] ) . values ( [ $V:args ] ) . map_err ( map_db_err ) ? . build_rusqlite ( SqliteQueryBuilder ) ;` => `let built = sea_insert($T, [$C], [$V])?;`
//@@ rw R7 `conn . execute ( sql . as_str ( ) , & * sql_values . as_params ( ) ) . map_err ( map_db_err ) ?` => `conn.execute(&built)?`
//@@ rw R7 `Into :: < i8 > :: into ( data . status ) . into ( )` => `status_value(data.status)`
//@@ proof after=sea_insert#1
        proof {
            broadcast use axiom_expr_of;
            //# Q6-create-pairs-every-column-with-the-field-of-the-same-name
            assert(built@->Insert_pairs =~= cols_of(data));
        }
//@@ spec
    ensures
        //# Q6-create-writes-every-field-into-its-own-column
        ret is Ok ==> final(db).executed == old(db).executed.push(Stmt::Insert { table: "events"@, pairs: cols_of(*data) }),
        //# Q6-a-refused-statement-writes-nothing
        ret is Err ==> *final(db) == *old(db),
//@@ end
//@@ extract file=store/sqlite/src/collection/event.rs in="impl DbCollection for EventCollection" item="fn update" name=sqlite::Event::update
//@@ rw R7 `& Self :: Item` => `&data::Event`
//@@ rw R7 `self . conn . get ( ) . unwrap ( )` => `self.conn.get_conn()`
//@@ rw R7 `let ( sql , sql_values ) = SeaQuery :: update ( ) . table ( $T:chain ) . values ( [ $V:args ] ) . and_where ( SeaExpr :: col ( $I:chain ) . eq ( data . id ( ) ) ) . build_rusqlite ( SqliteQueryBuilder ) ;` => `let built = sea_update($T, [$V], $I, data.id());`
//@@ rw R7 `conn . execute ( sql . as_str ( ) , & * sql_values . as_params ( ) ) . map_err ( map_db_err ) ?` => `conn.execute(&built)?`
//@@ rw R7 `Into :: < i8 > :: into ( model . status ) . into ( )` => `status_value(model.status)`
//@@ proof after=sea_update#1
        proof {
            broadcast use axiom_expr_of;
            //# Q6-update-pairs-every-column-with-the-field-of-the-same-name
            assert(built@->Update_pairs =~= set_cols_of(model));
        }
//@@ spec
    ensures
        //# Q6-update-sets-every-field-in-its-own-column-of-the-row-with-that-id
        ret is Ok ==> final(db).executed == old(db).executed.push(Stmt::Update { table: "events"@, pairs: set_cols_of(*data), id_col: "id"@, id: data.id@ }),
        //# Q6-a-refused-statement-writes-nothing
        ret is Err ==> *final(db) == *old(db),
//@@ end
}
}
// ---------------------------------------------------------------- messages
pub mod message {
use super::*;
//@@ extract file=store/sqlite/src/collection/message.rs item="enum CollectionIden" name=message::CollectionIden
//@@ opt dropderive=Iden
//@@ rw R17 `enum CollectionIden` => `pub enum CollectionIden`
//@@ end
// `#[derive(Iden)] #[iden = "messages"]`: the column name is the snake_case of the variant (ASSUMED, derive-generated)
impl Iden for CollectionIden {
    open spec fn col_name(&self) -> Seq<char> {
        match self { CollectionIden::Table => "messages"@, CollectionIden::Id => "id"@, CollectionIden::Tid => "tid"@, CollectionIden::Name => "name"@, CollectionIden::State => "state"@, CollectionIden::Type => "type"@, CollectionIden::Model => "model"@, CollectionIden::Pid => "pid"@, CollectionIden::Nid => "nid"@, CollectionIden::Mid => "mid"@, CollectionIden::Key => "key"@, CollectionIden::Uses => "uses"@, CollectionIden::Inputs => "inputs"@, CollectionIden::Outputs => "outputs"@, CollectionIden::Tag => "tag"@, CollectionIden::StartTime => "start_time"@, CollectionIden::EndTime => "end_time"@, CollectionIden::ChanId => "chan_id"@, CollectionIden::ChanPattern => "chan_pattern"@, CollectionIden::CreateTime => "create_time"@, CollectionIden::UpdateTime => "update_time"@, CollectionIden::RetryTimes => "retry_times"@, CollectionIden::Status => "status"@, CollectionIden::Timestamp => "timestamp"@, }
    }
}
// oracle: every column holds the field of the same name (the names U-sqlmap's from_row reads)
pub open spec fn cols_of(d: data::Message) -> Seq<(Seq<char>, SqlV)> {
    seq![("id"@, SqlV::Str(d.id@)), ("tid"@, SqlV::Str(d.tid@)), ("name"@, SqlV::Str(d.name@)), ("state"@, SqlV::Str(mstate_str(d.state))), ("type"@, SqlV::Str(d.r#type@)), ("model"@, SqlV::Str(d.model@)), ("pid"@, SqlV::Str(d.pid@)), ("nid"@, SqlV::Str(d.nid@)), ("mid"@, SqlV::Str(d.mid@)), ("key"@, SqlV::Str(d.key@)), ("uses"@, SqlV::Str(d.uses@)), ("inputs"@, SqlV::Str(d.inputs@)), ("outputs"@, SqlV::Str(d.outputs@)), ("tag"@, SqlV::Str(d.tag@)), ("start_time"@, SqlV::I64(d.start_time as int)), ("end_time"@, SqlV::I64(d.end_time as int)), ("chan_id"@, SqlV::Str(d.chan_id@)), ("chan_pattern"@, SqlV::Str(d.chan_pattern@)), ("create_time"@, SqlV::I64(d.create_time as int)), ("update_time"@, SqlV::I64(d.update_time as int)), ("retry_times"@, SqlV::I32(d.retry_times as int)), ("status"@, SqlV::I8(status_code(d.status))), ("timestamp"@, SqlV::I64(d.timestamp as int))]
}
pub open spec fn set_cols_of(d: data::Message) -> Seq<(Seq<char>, SqlV)> {
    seq![("tid"@, SqlV::Str(d.tid@)), ("name"@, SqlV::Str(d.name@)), ("state"@, SqlV::Str(mstate_str(d.state))), ("type"@, SqlV::Str(d.r#type@)), ("model"@, SqlV::Str(d.model@)), ("pid"@, SqlV::Str(d.pid@)), ("nid"@, SqlV::Str(d.nid@)), ("mid"@, SqlV::Str(d.mid@)), ("key"@, SqlV::Str(d.key@)), ("uses"@, SqlV::Str(d.uses@)), ("inputs"@, SqlV::Str(d.inputs@)), ("outputs"@, SqlV::Str(d.outputs@)), ("tag"@, SqlV::Str(d.tag@)), ("start_time"@, SqlV::I64(d.start_time as int)), ("end_time"@, SqlV::I64(d.end_time as int)), ("chan_id"@, SqlV::Str(d.chan_id@)), ("chan_pattern"@, SqlV::Str(d.chan_pattern@)), ("create_time"@, SqlV::I64(d.create_time as int)), ("update_time"@, SqlV::I64(d.update_time as int)), ("retry_times"@, SqlV::I32(d.retry_times as int)), ("status"@, SqlV::I8(status_code(d.status))), ("timestamp"@, SqlV::I64(d.timestamp as int))]
}
pub struct MessageCollection { pub conn: DbConnection }
impl MessageCollection {
//@@ extract file=store/sqlite/src/collection/message.rs in="impl DbCollection for MessageCollection" item="fn create" name=sqlite::Message::create
//@@ rw R7 `& Self :: Item` => `&data::Message`
//@@ rw R7 `self . conn . get ( ) . unwrap ( )` => `self.conn.get_conn()`
//@@ rw R7 `let ( sql , sql_values ) = SeaQuery :: insert ( ) . into_table ( $T:chain ) . columns ( [ $C:args ] ) . values ( [ $V:args ] ) . map_err ( map_db_err ) ? . build_rusqlite ( SqliteQueryBuilder ) ;` => `let built = sea_insert($T, [$C], [$V])?;`
//@@ rw R7 `conn . execute ( sql . as_str ( ) , & * sql_values . as_params ( ) ) . map_err ( map_db_err ) ?` => `conn.execute(&built)?`
//@@ rw R7 `Into :: < i8 > :: into ( data . status ) . into ( )` => `status_value(data.status)`
//@@ proof after=sea_insert#1
        proof {
            broadcast use axiom_expr_of;
            //# Q6-create-pairs-every-column-with-the-field-of-the-same-name
            assert(built@->Insert_pairs =~= cols_of(data));
        }
//@@ spec
    ensures
        //# Q6-create-writes-every-field-into-its-own-column
        ret is Ok ==> final(db).executed == old(db).executed.push(Stmt::Insert { table: "messages"@, pairs: cols_of(*data) }),
        //# Q6-a-refused-statement-writes-nothing
        ret is Err ==> *final(db) == *old(db),
//@@ end
//@@ extract file=store/sqlite/src/collection/message.rs in="impl DbCollection for MessageCollection" item="fn update" name=sqlite::Message::update
//@@ rw R7 `& Self :: Item` => `&data::Message`
//@@ rw R7 `self . conn . get ( ) . unwrap ( )` => `self.conn.get_conn()`
//@@ rw R7 `let ( sql , sql_values ) = SeaQuery :: update ( ) . table ( $T:chain ) . values ( [ $V:args ] ) . and_where ( SeaExpr :: col ( $I:chain ) . eq ( data . id ( ) ) ) . build_rusqlite ( SqliteQueryBuilder ) ;` => `let built = sea_update($T, [$V], $I, data.id());`
//@@ rw R7 `conn . execute ( sql . as_str ( ) , & * sql_values . as_params ( ) ) . map_err ( map_db_err ) ?` => `conn.execute(&built)?`
//@@ rw R7 `Into :: < i8 > :: into ( model . status ) . into ( )` => `status_value(model.status)`
//@@ proof after=sea_update#1
        proof {
            broadcast use axiom_expr_of;
            //# Q6-update-pairs-every-column-with-the-field-of-the-same-name
            assert(built@->Update_pairs =~= set_cols_of(model));
        }
//@@ spec
    ensures
        //# Q6-update-sets-every-field-in-its-own-column-of-the-row-with-that-id
        ret is Ok ==> final(db).executed == old(db).executed.push(Stmt::Update { table: "messages"@, pairs: set_cols_of(*data), id_col: "id"@, id: data.id@ }),
        //# Q6-a-refused-statement-writes-nothing
        ret is Err ==> *final(db) == *old(db),
//@@ end
}
}
// ---------------------------------------------------------------- packages
pub mod package {
use super::*;
//@@ extract file=store/sqlite/src/collection/package.rs item="enum CollectionIden" name=package::CollectionIden
//@@ opt dropderive=Iden
//@@ rw R17 `enum CollectionIden` => `pub enum CollectionIden`
//@@ end
// `#[derive(Iden)] #[iden = "packages"]`: the column name is the snake_case of the variant (ASSUMED, derive-generated)
impl Iden for CollectionIden {
    open spec fn col_name(&self) -> Seq<char> {
        match self { CollectionIden::Table => "packages"@, CollectionIden::Id => "id"@, CollectionIden::Desc => "desc"@, CollectionIden::Icon => "icon"@, CollectionIden::Doc => "doc"@, CollectionIden::Version => "version"@, CollectionIden::Schema => "schema"@, CollectionIden::RunAs => "run_as"@, CollectionIden::Resources => "resources"@, CollectionIden::Catalog => "catalog"@, CollectionIden::BuiltIn => "built_in"@, CollectionIden::CreateTime => "create_time"@, CollectionIden::UpdateTime => "update_time"@, CollectionIden::Timestamp => "timestamp"@, }
    }
}
// oracle: every column holds the field of the same name (the names U-sqlmap's from_row reads)
pub open spec fn cols_of(d: data::Package) -> Seq<(Seq<char>, SqlV)> {
    seq![("id"@, SqlV::Str(d.id@)), ("desc"@, SqlV::Str(d.desc@)), ("icon"@, SqlV::Str(d.icon@)), ("doc"@, SqlV::Str(d.doc@)), ("version"@, SqlV::Str(d.version@)), ("schema"@, SqlV::Str(d.schema@)), ("run_as"@, SqlV::Str(runas_str(d.run_as))), ("resources"@, SqlV::Str(d.resources@)), ("catalog"@, SqlV::Str(catalog_str(d.catalog))), ("built_in"@, SqlV::Bool(d.built_in)), ("create_time"@, SqlV::I64(d.create_time as int)), ("update_time"@, SqlV::I64(d.update_time as int)), ("timestamp"@, SqlV::I64(d.timestamp as int))]
}
pub open spec fn set_cols_of(d: data::Package) -> Seq<(Seq<char>, SqlV)> {
    seq![("desc"@, SqlV::Str(d.desc@)), ("icon"@, SqlV::Str(d.icon@)), ("doc"@, SqlV::Str(d.doc@)), ("version"@, SqlV::Str(d.version@)), ("schema"@, SqlV::Str(d.schema@)), ("run_as"@, SqlV::Str(runas_str(d.run_as))), ("resources"@, SqlV::Str(d.resources@)), ("catalog"@, SqlV::Str(catalog_str(d.catalog))), ("built_in"@, SqlV::Bool(d.built_in)), ("create_time"@, SqlV::I64(d.create_time as int)), ("update_time"@, SqlV::I64(d.update_time as int)), ("timestamp"@, SqlV::I64(d.timestamp as int))]
}
pub struct PackageCollection { pub conn: DbConnection }
impl PackageCollection {
//@@ extract file=store/sqlite/src/collection/package.rs in="impl DbCollection for PackageCollection" item="fn create" name=sqlite::Package::create
//@@ rw R7 `& Self :: Item` => `&data::Package`
//@@ rw R7 `self . conn . get ( ) . unwrap ( )` => `self.conn.get_conn()`
//@@ rw R7 `let ( sql , sql_values ) = SeaQuery :: insert ( ) . into_table ( $T:chain ) . columns ( [ $C:args ] ) . values ( [ $V:args ] ) . map_err ( map_db_err ) ? . build_rusqlite ( SqliteQueryBuilder ) ;` => `let built = sea_insert($T, [$C], [$V])?;`
//@@ rw R7 `conn . execute ( sql . as_str ( ) , & * sql_values . as_params ( ) ) . map_err ( map_db_err ) ?` => `conn.execute(&built)?`
//@@ rw R7 `Into :: < i8 > :: into ( data . status ) . into ( )` => `status_value(data.status)`
//@@ proof after=sea_insert#1
        proof {
            broadcast use axiom_expr_of;
            //# Q6-create-pairs-every-column-with-the-field-of-the-same-name
            assert(built@->Insert_pairs =~= cols_of(data));
        }
//@@ spec
    ensures
        //# Q6-create-writes-every-field-into-its-own-column
        ret is Ok ==> final(db).executed == old(db).executed.push(Stmt::Insert { table: "packages"@, pairs: cols_of(*data) }),
        //# Q6-a-refused-statement-writes-nothing
        ret is Err ==> *final(db) == *old(db),
//@@ end
//@@ extract file=store/sqlite/src/collection/package.rs in="impl DbCollection for PackageCollection" item="fn update" name=sqlite::Package::update
//@@ rw R7 `& Self :: Item` => `&data::Package`
//@@ rw R7 `self . conn . get ( ) . unwrap ( )` => `self.conn.get_conn()`
//@@ rw R7 `let ( sql , sql_values ) = SeaQuery :: update ( ) . table ( $T:chain ) . values ( [ $V:args ] ) . and_where ( SeaExpr :: col ( $I:chain ) . eq ( data . id ( ) ) ) . build_rusqlite ( SqliteQueryBuilder ) ;` => `let built = sea_update($T, [$V], $I, data.id());`
//@@ rw R7 `conn . execute ( sql . as_str ( ) , & * sql_values . as_params ( ) ) . map_err ( map_db_err ) ?` => `conn.execute(&built)?`
//@@ rw R7 `Into :: < i8 > :: into ( model . status ) . into ( )` => `status_value(model.status)`
//@@ proof after=sea_update#1
        proof {
            broadcast use axiom_expr_of;
            //# Q6-update-pairs-every-column-with-the-field-of-the-same-name
            assert(built@->Update_pairs =~= set_cols_of(model));
        }
//@@ spec
    ensures
        //# Q6-update-sets-every-field-in-its-own-column-of-the-row-with-that-id
        ret is Ok ==> final(db).executed == old(db).executed.push(Stmt::Update { table: "packages"@, pairs: set_cols_of(*data), id_col: "id"@, id: data.id@ }),
        //# Q6-a-refused-statement-writes-nothing
        ret is Err ==> *final(db) == *old(db),
//@@ end
}
}
} // verus!
fn main() {}
