// U-run: runtime-level handlers (C03-H5, C15-B3/B4, C17-T1, C06-E5/E6, C05-A4) over the scheduler heap.
//@@ unit U-run
//@@ default props=C03 rewrites=R1,R2,R3,R5,R13 ghost="Tracked(h): Tracked<&mut Heap>" ghostarg="Tracked(h)" loopinv="h.wf(), fwd(*old(h), *h)," bodyprelude="broadcast use {lemma_fwd_refl, lemma_fwd_trans};" attr="#[verifier::exec_allows_no_decreases_clause] #[verifier::loop_isolation(false)]"
//@@ heapmethods state err root create_message parent outputs set_err exec emit_error_h do_action
use vstd::prelude::*;
use std::sync::Arc;
verus! {
//@@ include prelude/std_specs.rs
//@@ include prelude/sched.rs

// ---- ghost logs of this unit live in the scheduler heap's generic logs:
//   proc_events  is reused for lifecycle events handed to the emitter: see LifeEv below (kept separately here)
pub enum LifeKind { Start, Complete, Error }
pub ghost struct RunLog {
    pub life: Seq<(LifeKind, MessageState)>,          // Emitter::emit_start_event / emit_complete_event / emit_error
    pub returns: Seq<(Seq<char>, Seq<char>)>,           // Runtime::return_to_act(ppid, ptid, ..)
    pub removed: Seq<Seq<char>>,                        // Cache::remove(pid)
    pub spawned: Seq<Action>,                           // tokio::spawn(do_action(action)) (R10: deferred)
}
impl Emitter {
    // event/emitter.rs: emit_start_event / emit_complete_event / emit_error dispatch to the channel handlers (spawned): logged
    #[verifier::external_body]
    pub fn emit_start_event(&self, m: &Message, Tracked(l): Tracked<&mut RunLog>) ensures *final(l) == (RunLog { life: old(l).life.push((LifeKind::Start, m.state)), ..*old(l) }) { unimplemented!() }
    #[verifier::external_body]
    pub fn emit_complete_event(&self, m: &Message, Tracked(l): Tracked<&mut RunLog>) ensures *final(l) == (RunLog { life: old(l).life.push((LifeKind::Complete, m.state)), ..*old(l) }) { unimplemented!() }
    #[verifier::external_body]
    pub fn emit_error(&self, m: &Message, Tracked(l): Tracked<&mut RunLog>) ensures *final(l) == (RunLog { life: old(l).life.push((LifeKind::Error, m.state)), ..*old(l) }) { unimplemented!() }
}
#[verifier::external_body]
pub struct Config { _p: u8 }
impl Config {
    pub uninterp spec fn s_keep(&self) -> bool;
    #[verifier::external_body]
    pub fn keep_processes(&self) -> (r: bool) ensures r == self.s_keep() { unimplemented!() }
}
pub struct RuntimeX { pub config: Arc<Config>, pub em: Emitter }
impl RuntimeX {
    #[verifier::external_body]
    pub fn emitter(&self) -> (r: &Emitter) { unimplemented!() }
    // runtime.rs: return_to_act (proved below as Runtime::return_to_act): logged here for the handler
    #[verifier::external_body]
    pub fn return_to_act(&self, pid: &String, tid: &String, proc: &Process, Tracked(l): Tracked<&mut RunLog>)
        ensures *final(l) == (RunLog { returns: old(l).returns.push((pid@, tid@)), ..*old(l) }) { unimplemented!() }
}
impl Process {
    pub uninterp spec fn s_id(&self) -> Seq<char>;
    pub uninterp spec fn s_parent_link(h: Heap) -> Option<(Seq<char>, Seq<char>)>;
    #[verifier::external_body]
    pub fn id(&self) -> (r: &str) ensures r@ == self.s_id() { unimplemented!() }
    #[verifier::external_body]
    pub fn err(&self, Tracked(h): Tracked<&Heap>) -> (r: Option<Error>) ensures r == h.proc_err { unimplemented!() }
    // process.rs: parent() = ($parent_pid, $parent_tid) of the root task data when both are present (B2)
    #[verifier::external_body]
    pub fn parent(&self, Tracked(h): Tracked<&Heap>) -> (r: Option<(String, String)>)
        ensures r is Some <==> Self::s_parent_link(*h) is Some, r is Some ==> (r->Some_0.0@, r->Some_0.1@) == Self::s_parent_link(*h)->Some_0 { unimplemented!() }
    // process.rs: outputs() = the root task's outputs
    pub uninterp spec fn s_outputs(h: Heap) -> Vars;
    #[verifier::external_body]
    pub fn outputs(&self, Tracked(h): Tracked<&Heap>) -> (r: Vars) ensures r == Self::s_outputs(*h) { unimplemented!() }
}
#[verifier::external_body]
pub struct CacheX { _p: u8 }
impl CacheX {
    // cache/cache.rs: remove = drop the cache entry + Store::remove_proc (proved in U-ret): logged
    #[verifier::external_body]
    pub fn remove(&self, pid: &str, Tracked(l): Tracked<&mut RunLog>) -> (r: Result<bool>)
        ensures *final(l) == (RunLog { removed: old(l).removed.push(pid@), ..*old(l) }) { unimplemented!() }
}
// R8: `cache.restore(&rt, |proc| { if proc.state().is_none() { proc.start(); } }).unwrap_or_else(..)` -- reload of waiting processes (C12/C13), a declared hole here
#[verifier::external_body]
pub fn restore_and_start(cache: &CacheX, rt: &RuntimeX) { unimplemented!() }
// R10: the boolean result of a logged failure
#[verifier::external_body]
pub fn ignore_bool(r: Result<bool>) { unimplemented!() }

pub open spec fn life_of(s: TaskState) -> Option<LifeKind> {
    if s is Running || s is Pending { Some(LifeKind::Start) } else if s is Error { Some(LifeKind::Error) } else if st_terminal(s) { Some(LifeKind::Complete) } else { None }
}
//@@ extract file=acts/src/scheduler/runtime.rs in="impl Runtime" item="fn initialize" closure=params:proc name=Runtime::on_proc::handler props=C03,C15,C17 sig="pub fn on_proc_handler(cache: Arc<CacheX>, rt: Arc<RuntimeX>, proc: &Arc<Process>, Tracked(l): Tracked<&mut RunLog>)"
//@@ opt ghost="Tracked(h): Tracked<&mut Heap>" ghostarg="Tracked(h)"
//@@ rw R4b `rt . emitter ( ) . emit_start_event ( & message )` => `rt.emitter().emit_start_event(&message, Tracked(l))`
//@@ rw R4b `rt . emitter ( ) . emit_error ( & message )` => `rt.emitter().emit_error(&message, Tracked(l))`
//@@ rw R4b `rt . emitter ( ) . emit_complete_event ( & message )` => `rt.emitter().emit_complete_event(&message, Tracked(l))`
//@@ rw R4b `rt . return_to_act ( & ppid , & ptid , proc )` => `rt.return_to_act(&ppid, &ptid, proc, Tracked(l))`
//@@ rw R10 `cache . remove ( proc . id ( ) ) . unwrap_or_else ( | err | $B:block ) ;` => `ignore_bool(cache.remove(proc.id(), Tracked(l)));`
//@@ rw R8 `cache . restore ( & rt , | proc | $B:block ) . unwrap_or_else ( | err | $E:args ) ;` => `restore_and_start(&cache, &rt);`
//@@ spec
        requires old(h).wf()
        ensures
            //# H5-heap-untouched
            *final(h) == *old(h),
            //# H5-one-event-by-state
            old(h).has(ROOT_TID@) ==> (match life_of(old(h).proc_state) {
                Some(k) => final(l).life == old(l).life.push((k, msg_state_of(old(h).st(ROOT_TID@)))),
                None => final(l).life == old(l).life }),
            //# H5-no-root-no-event
            !old(h).has(ROOT_TID@) ==> *final(l) == *old(l),
            //# B4-return-iff-ended-with-a-parent-link
            old(h).has(ROOT_TID@) ==> (if !(old(h).proc_state is Running) && !(old(h).proc_state is Pending) && Process::s_parent_link(*old(h)) is Some
                { final(l).returns == old(l).returns.push(Process::s_parent_link(*old(h))->Some_0) } else { final(l).returns == old(l).returns }),
            //# T1-removed-iff-ended-and-not-kept
            old(h).has(ROOT_TID@) ==> (if !(old(h).proc_state is Running) && !(old(h).proc_state is Pending) && !rt.config.s_keep()
                { final(l).removed == old(l).removed.push(proc.s_id()) } else { final(l).removed == old(l).removed }),
//@@ end


// ---- B3: return of a finished sub-process to the calling act
pub uninterp spec fn jstr(s: Seq<char>) -> JsonValue;
impl Vars {
    // R7: Vars::set with a String value
    #[verifier::external_body]
    pub fn set_str(&mut self, key: &str, value: String) ensures final(self)@ == old(self)@.insert(key@, jstr(value@)) { unimplemented!() }
}
// further Vars / Error API (model/vars.rs, error.rs) so that the unit follows code that builds the return options another way
pub trait VarVal: Sized { spec fn vv(&self) -> JsonValue; }
impl VarVal for String { open spec fn vv(&self) -> JsonValue { jstr(self@) } }
impl Vars {
    // model/vars.rs: with(name, value) = insert (replacing); extend(other) = every entry of `other` overwrites
    #[verifier::external_body]
    pub fn with<V: VarVal>(self, name: &str, value: V) -> (r: Self) ensures r@ == self@.insert(name@, value.vv()) { unimplemented!() }
    #[verifier::external_body]
    pub fn extend(self, vars: Vars) -> (r: Self) ensures r@ == self@.union_prefer_right(vars@) { unimplemented!() }
}
impl Default for Error {
    // derive(Default): empty code and message
    #[verifier::external_body]
    fn default() -> (r: Self) ensures r.ecode@.len() == 0 && r.message@.len() == 0 { unimplemented!() }
}
impl Action {
//@@ extract file=acts/src/event/action.rs in="impl Action" item="fn new" name=Action::new props=C15
//@@ opt noghost
//@@ spec
    ensures
        //# B3-action-fields
        ret.pid@ == pid@ && ret.tid@ == tid@ && ret.event == event && ret.options == *options,
//@@ end
}
// R10: `tokio::spawn(async move { let _ = scher.do_action(&action).map_err(..); })` -- the action is handed to Runtime::do_action later
#[verifier::external_body]
pub fn spawn_do_action(scher: &Arc<Runtime>, action: &Action, Tracked(l): Tracked<&mut RunLog>)
    ensures *final(l) == (RunLog { spawned: old(l).spawned.push(*action), ..*old(l) }) { unimplemented!() }
pub open spec fn return_event(s: TaskState) -> EventAction {
    if s is Aborted { EventAction::Abort } else if s is Skipped { EventAction::Skip } else if s is Error { EventAction::Error } else { EventAction::Next }
}
impl Runtime {
//@@ extract file=acts/src/scheduler/runtime.rs in="impl Runtime" item="fn return_to_act" name=Runtime::return_to_act props=C15
//@@ opt ghost="Tracked(h): Tracked<&Heap>, Tracked(l): Tracked<&mut RunLog>"
//@@ rw R7 `vars . set ( $K , err . ecode )` => `vars.set_str($K, err.ecode)`
//@@ rw R7 `vars . set ( $K , err . message )` => `vars.set_str($K, err.message)`
//@@ rw R10 `tokio :: spawn ( async move { let _ = scher . do_action ( & action ) . map_err ( $M:args ) ; } ) ;` => `spawn_do_action(&scher, &action, Tracked(l));`
//@@ spec
        ensures
            //# B3-one-action-to-the-calling-act
            final(l).spawned.len() == old(l).spawned.len() + 1 && final(l).spawned.last().pid@ == pid@ && final(l).spawned.last().tid@ == tid@
                && final(l).life == old(l).life && final(l).returns == old(l).returns && final(l).removed == old(l).removed,
            //# B3-ending-maps-to-action
            final(l).spawned.last().event == return_event(h.proc_state),
            //# B3-outputs-and-error-returned
            final(l).spawned.last().options@ == (if h.proc_state is Error && h.proc_err is Some {
                    Process::s_outputs(*h)@.insert(consts::ACT_ERR_CODE@, jstr(h.proc_err->Some_0.ecode@)).insert(consts::ACT_ERR_MESSAGE@, jstr(h.proc_err->Some_0.message@))
                } else { Process::s_outputs(*h)@ }),
//@@ end
}

// ---- E5/E6: an execution failure in the scheduler loop becomes a task error
// oracle (C06): an exception keeps its code and message; every other failure has an empty code and its text as message
pub open spec fn is_error_of(e: ActError, r: Error) -> bool {
    match e { ActError::Exception { ecode, message } => r.ecode == ecode && r.message == message, _ => r.ecode@.len() == 0 && r.message == err_text(e) }
}
pub uninterp spec fn err_text(e: ActError) -> String;
impl ActError {
    // thiserror Display (derive): ASSUMED a function of the error
    #[verifier::external_body]
    pub fn to_string(&self) -> (r: String) ensures r == err_text(*self) { unimplemented!() }
}
// `impl From<ActError> for Error` (error.rs), placed in an inherent impl so that `err.into()` can be rewritten to `Error::from(err)`
impl Error {
//@@ extract file=acts/src/error.rs in="impl From<ActError> for Error" item="fn from" name=Error::from_act_error props=C06
//@@ opt noghost
//@@ rw R7 `"" . to_string ( )` => `String::new()`
//@@ spec
    ensures
        //# E6-error-conversion
        is_error_of(val, ret),
//@@ end
}
impl Context {
    // Context::emit_error (proved in U-sched)
    #[verifier::external_body]
    pub fn emit_error_h(&self, Tracked(h): Tracked<&mut Heap>) -> (r: Result<()>)
        requires old(h).wf() ensures final(h).wf(), fwd(*old(h), *final(h)) { unimplemented!() }
}
//@@ extract file=acts/src/scheduler/scheduler.rs in="impl Scheduler" item="fn next" closure=params:err name=Scheduler::next::exec_failed props=C06,C02 sig="pub fn exec_failed(task: &Arc<Task>, ctx: &Context, err: ActError)"
//@@ rw R4b `ctx . emit_error ( )` => `ctx.emit_error_h()`
//@@ rw R7 `err . into ( )` => `Error::from(err)`
//@@ spec
        requires
            old(h).wf(), wf_task(*old(h), **task),
            // ASSUMED (race outside this technique): a dequeued task whose execution fails was not closed by a client action in the meantime
            !st_terminal(old(h).st(task.id@)) || old(h).st(task.id@) is Error
        ensures
            //# E5-failure-fwd
            final(h).wf() && fwd(*old(h), *final(h)),
//@@ proof after=set_err#1
            proof {
                //# E5-failure-becomes-the-task-error [C06]
                assert(h.st(task.id@) is Error && h.tasks[task.id@].err is Some && is_error_of(err, h.tasks[task.id@].err->Some_0));
            }
//@@ end

// ---- Z1 (C13, C01): the ONE scheduler loop shared by all processes runs the task it took from the queue in place, to its end, before it takes the
// next one.  This is the only thing that serialises the queue-driven tasks of a process (there is no per-process lock), so it is what makes the
// outcome of a process independent of the number of runtime threads.  Asynchrony: `tokio::spawn(async move BLOCK)` becomes `{ interleave_sched(); BLOCK }`
// (R10): BLOCK would run LATER, beside whatever the loop dequeues next -- the heap BLOCK starts from is then no longer the heap at dequeue time.
pub enum Signal { Terminal, Task(Arc<Task>) }
// what running one dequeued task does to the engine state: Task::exec (proved in U-sched) or, when it fails, the exec-failed handler proved above
pub uninterp spec fn ran_in_place(a: Heap, b: Heap, t: Tid) -> bool;
pub uninterp spec fn sched_closed(s: Scheduler) -> bool;
impl Scheduler {
    // queue.rs: Queue::next = the receiving end of the one channel (None when the channel is closed); which signal arrives is not modelled
    pub uninterp spec fn s_next_signal(&self) -> Option<Signal>;
    #[verifier::external_body]
    pub fn queue_next(&self, Tracked(h): Tracked<&Heap>) -> (r: Option<Signal>)
        ensures r == self.s_next_signal(), r is Some && r->Some_0 is Task ==> wf_task(*h, *r->Some_0->Task_0) { unimplemented!() }
    // R7: `*self.closed.lock().unwrap() = true;`
    #[verifier::external_body]
    pub fn set_closed(&self) ensures sched_closed(*self) { unimplemented!() }
}
// R7: `task.exec(ctx).unwrap_or_else(|err| { .. })` = run the task; on failure the handler `Scheduler::next::exec_failed` (proved above) takes over
#[verifier::external_body]
pub fn exec_or_fail(task: &Arc<Task>, ctx: &Context, Tracked(h): Tracked<&mut Heap>)
    requires old(h).wf(), wf_task(*old(h), **task), old(h).cur == task.id@
    ensures final(h).wf(), fwd(*old(h), *final(h)), ran_in_place(*old(h), *final(h), task.id@) { unimplemented!() }
// anything other tasks of the runtime do before a spawned block runs
#[verifier::external_body]
pub fn interleave_sched(Tracked(h): Tracked<&mut Heap>)
    requires old(h).wf() ensures final(h).wf(), fwd(*old(h), *final(h)), final(h).cur == old(h).cur { unimplemented!() }
pub open spec fn with_cur(h: Heap, t: Tid) -> Heap { Heap { cur: t, action: None, ctx_log: h.ctx_log.push(t), ..h } }
impl Scheduler {
//@@ extract file=acts/src/scheduler/scheduler.rs in="impl Scheduler" item="fn next" name=Scheduler::next props=C13,C01
//@@ opt heapmethods=queue_next,interleave_sched,exec_or_fail,create_context
//@@ rw R10 `pub async fn next` => `pub fn next`
//@@ rw R10 `self . queue . next ( ) . await` => `self.queue_next()`
//@@ rw R10 `tokio :: spawn ( async move $B:block ) ;` => `{ interleave_sched(); $B }`
//@@ rw R7 `task . exec ( ctx ) . unwrap_or_else ( | err | $B:block ) ;` => `exec_or_fail(&task, ctx);`
//@@ rw R7 `* self . closed . lock ( ) . unwrap ( ) = true ;` => `self.set_closed();`
//@@ spec
        requires old(h).wf()
        ensures
            //# Z1-loop-fwd
            final(h).wf() && fwd(*old(h), *final(h)),
            //# Z1-the-loop-runs-the-task-it-took-from-the-queue-in-place-to-its-end-before-it-takes-the-next-one [C13,C01]
            match self.s_next_signal() {
                Some(Signal::Task(t)) => ran_in_place(with_cur(*old(h), t.id@), *final(h), t.id@) && ret,
                Some(Signal::Terminal) => !ret && sched_closed(**self) && *final(h) == *old(h),
                None => ret && *final(h) == *old(h),
            },
//@@ end
}

// ---- A4: actions on an unknown process are refused
pub uninterp spec fn live_proc(pid: Seq<char>) -> bool;
impl Process {
    // Process::do_action (proved in U-sched)
    #[verifier::external_body]
    pub fn do_action(self: &Arc<Self>, action: &Action, Tracked(h): Tracked<&mut Heap>) -> (r: Result<()>)
        requires old(h).wf() ensures final(h).wf(), fwd(*old(h), *final(h)) { unimplemented!() }
}
impl Runtime {
    // R7: `self.cache.proc(&action.pid, self)` -- cache lookup with lazy load from the store (C12)
    #[verifier::external_body]
    pub fn proc_lookup(self: &Arc<Self>, pid: &String) -> (r: Option<Arc<Process>>) ensures r is Some <==> live_proc(pid@) { unimplemented!() }
//@@ extract file=acts/src/scheduler/runtime.rs in="impl Runtime" item="fn do_action" name=Runtime::do_action props=C05,C17
//@@ rw R7 `self . cache . proc ( & action . pid , self )` => `self.proc_lookup(&action.pid)`
//@@ spec
        requires old(h).wf()
        ensures
            //# A4-unknown-process-refused
            !live_proc(action.pid@) ==> ret is Err && *final(h) == *old(h),
            //# A4-fwd
            final(h).wf() && fwd(*old(h), *final(h)),
//@@ end
}
} // verus!
fn main() {}
