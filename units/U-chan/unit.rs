// U-chan: channel filters (C18) and store-before-handler (C09-K1).
// globset is ASSUMED through an uninterpreted match predicate glob_m(pattern, text).
//@@ unit U-chan
//@@ default props=C18 rewrites=R1,R2,R3,R5,R13
//@@ heapmethods create time_millis
use vstd::prelude::*;
use std::sync::Arc;
verus! {
//@@ include prelude/store.rs
//@@ include prelude/rows.rs
//@@ include prelude/storeabs.rs

pub uninterp spec fn glob_m(pattern: Seq<char>, text: Seq<char>) -> bool;
pub uninterp spec fn valid_glob(pattern: Seq<char>) -> bool;
pub trait StrLike: Sized { spec fn s(&self) -> Seq<char>; }
impl<'a> StrLike for &'a String { open spec fn s(&self) -> Seq<char> { (**self)@ } }
impl<'a> StrLike for &'a str { open spec fn s(&self) -> Seq<char> { (*self)@ } }
pub mod globset {
    use vstd::prelude::*;
    use super::{glob_m, valid_glob, StrLike};
    verus! {
    #[verifier::external_body]
    pub struct GlobMatcher { _p: u8 }
    #[verifier::external_body]
    pub struct Glob { _p: u8 }
    #[derive(Debug)]
    pub struct Error {}
    impl GlobMatcher {
        pub uninterp spec fn pattern(&self) -> Seq<char>;
        // TRUSTED: globset::GlobMatcher::is_match decides the glob of its pattern
        #[verifier::external_body]
        pub fn is_match<S: StrLike>(&self, text: S) -> (r: bool) ensures r == glob_m(self.pattern(), text.s()) { unimplemented!() }
    }
    impl Clone for GlobMatcher {
        #[verifier::external_body]
        fn clone(&self) -> (r: Self) ensures r.pattern() == self.pattern() { unimplemented!() }
    }
    impl Glob {
        pub uninterp spec fn pattern(&self) -> Seq<char>;
        // TRUSTED: Glob::new(p) parses p (Err for an invalid glob); compile_matcher keeps the pattern
        #[verifier::external_body]
        pub fn new(p: &str) -> (r: Result<Glob, Error>) ensures r is Ok <==> valid_glob(p@), r is Ok ==> r->Ok_0.pattern() == p@ { unimplemented!() }
        #[verifier::external_body]
        pub fn compile_matcher(&self) -> (r: GlobMatcher) ensures r.pattern() == self.pattern() { unimplemented!() }
    }
    }
}

#[verifier::external_body]
pub struct Vars { _p: u8 }
impl Vars {
    pub uninterp spec fn text(&self) -> Seq<char>;
    // TRUSTED: Vars::to_string is a function of the value
    #[verifier::external_body]
    pub fn to_string(&self) -> (r: String) ensures r@ == self.text() { unimplemented!() }
}
impl Clone for Vars { #[verifier::external_body] fn clone(&self) -> (r: Self) ensures r == *self { unimplemented!() } }
//@@ extract file=acts/src/event/message.rs item="struct Model" name=Model
//@@ opt dropderive=Clone,Default
//@@ end
impl Clone for Model { #[verifier::external_body] fn clone(&self) -> (r: Self) ensures r == *self { unimplemented!() } }
//@@ extract file=acts/src/event/message.rs item="struct Message" name=Message
//@@ opt dropderive=Clone,Default
//@@ end
impl Clone for Message { #[verifier::external_body] fn clone(&self) -> (r: Self) ensures r == *self { unimplemented!() } }
pub type Event<T> = T;     // Event<T> derefs to T; the channel code only reads message fields through it

pub uninterp spec fn state_str(s: MessageState) -> Seq<char>;
impl MessageState {
    // TRUSTED: strum::AsRefStr (derive): the snake_case name of the variant
    #[verifier::external_body]
    pub fn as_ref(&self) -> (r: &'static str) ensures r@ == state_str(*self) { unimplemented!() }
}
pub uninterp spec fn model_json(m: Model) -> Seq<char>;
pub mod serde_json {
    use vstd::prelude::*;
    use super::{Model, model_json};
    verus! {
    #[derive(Debug)]
    pub struct Error {}
    // TRUSTED: serde_json::to_string(&model) is a function of the model and does not fail
    #[verifier::external_body]
    pub fn to_string(m: &Model) -> (r: Result<String, Error>) ensures r is Ok, r->Ok_0@ == model_json(*m) { unimplemented!() }
    }
}
pub mod utils2 { }
#[verifier::external_body]
pub struct Runtime { _p: u8 }
#[verifier::external_body]
pub struct Cache { _p: u8 }
impl Runtime { #[verifier::external_body] pub fn cache(&self) -> (r: &Cache) { unimplemented!() } }
impl Cache { #[verifier::external_body] pub fn store(&self) -> (r: &Store) { unimplemented!() } }
// TRUSTED: timestamp() is some clock value
impl Message {
//@@ extract file=acts/src/event/message.rs in="impl Message" item="fn into" name=Message::into props=C09
//@@ opt ghost="Tracked(st): Tracked<&mut StoreAbs>" ghostarg="Tracked(st)"
//@@ rw R7 `utils :: time :: timestamp ( )` => `clock_timestamp()`
//@@ spec
    ensures
        //# K1-row-image
        ret.id == self.id && ret.tid == self.tid && ret.pid == self.pid && ret.nid == self.nid && ret.mid == self.mid && ret.key == self.key
            && ret.uses == self.uses && ret.name == self.name && ret.state == self.state && ret.r#type == self.r#type && ret.tag == self.tag
            && ret.start_time == self.start_time && ret.end_time == self.end_time,
        //# K1-row-content
        ret.model@ == model_json(self.model) && ret.inputs@ == self.inputs.text() && ret.outputs@ == self.outputs.text(),
        //# K1-row-fresh
        ret.status == MessageStatus::Created && ret.retry_times == 0 && ret.update_time == 0 && ret.chan_id@ == emit_id@ && ret.chan_pattern@ == pat@,
        //# K1-frame
        *final(st) == (StoreAbs { now: final(st).now, ..*old(st) }),
//@@ end
}
#[verifier::external_body]
pub fn clock_timestamp() -> i64 { unimplemented!() }

//@@ extract file=acts/src/export/channel.rs item="struct ChannelOptions" name=ChannelOptions
//@@ opt dropderive=Clone
//@@ end
//@@ extract file=acts/src/export/channel.rs item="struct Channel" name=Channel
//@@ end
pub type Globs = (globset::GlobMatcher, globset::GlobMatcher, globset::GlobMatcher, globset::GlobMatcher, globset::GlobMatcher);

// ---- oracle (from the statement): type, state, key and uses match their patterns and the tag pattern matches the message tag or the model tag
pub open spec fn delivers(p: (Seq<char>, Seq<char>, Seq<char>, Seq<char>, Seq<char>), e: Message) -> bool {
    glob_m(p.0, e.r#type@) && glob_m(p.1, state_str(e.state)) && (glob_m(p.2, e.tag@) || glob_m(p.2, e.model.tag@)) && glob_m(p.3, e.key@) && glob_m(p.4, e.uses@)
}
pub open spec fn globs_of(g: Globs) -> (Seq<char>, Seq<char>, Seq<char>, Seq<char>, Seq<char>) {
    (g.0.pattern(), g.1.pattern(), g.2.pattern(), g.3.pattern(), g.4.pattern())
}

//@@ extract file=acts/src/export/channel.rs item="fn is_match" name=channel::is_match
//@@ spec
    ensures
        //# N1-delivery-predicate
        ret == delivers(globs_of(*glob), *e),
//@@ end

impl ChannelOptions {
//@@ extract file=acts/src/export/channel.rs in="impl ChannelOptions" item="fn pattern" name=ChannelOptions::pattern
//@@ end
}

impl Channel {
//@@ extract file=acts/src/export/channel.rs in="impl Channel" item="fn channel" name=Channel::channel
//@@ spec
    requires
        valid_glob(options.r#type@) && valid_glob(options.state@) && valid_glob(options.tag@) && valid_glob(options.key@) && valid_glob(options.uses@),
    ensures
        //# N2-matchers-from-options
        globs_of(ret.glob) == (options.r#type@, options.state@, options.tag@, options.key@, options.uses@),
        //# N2-ack-id
        ret.ack == options.ack && ret.chan_id@ == options.id@,
//@@ end
}

//@@ extract file=acts/src/export/channel.rs item="fn store_if" name=channel::store_if props=C09
//@@ opt ghost="Tracked(st): Tracked<&mut StoreAbs>" ghostarg="Tracked(st)" heapmethods=into
//@@ rw R10 `. unwrap_or_else ( | $E:id | $B:block )` => `.is_ok()`
//@@ spec
    requires old(st).wf(),
    ensures
        //# K1-store-iff
        !(ack && chan_id@.len() > 0 && message.retry_times == 0) ==> final(st).messages == old(st).messages,
        //# K1-stored
        (ack && chan_id@.len() > 0 && message.retry_times == 0 && old(st).write_ok) ==> final(st).messages.dom().contains(message.id@)
            && final(st).messages[message.id@].status == MessageStatus::Created && final(st).messages[message.id@].retry_times == 0
            && final(st).messages[message.id@].chan_id@ == chan_id@ && final(st).messages[message.id@].id == message.id,
        //# K1-frame
        forall|k: Seq<char>| k != message.id@ && old(st).messages.dom().contains(k) ==> final(st).messages.dom().contains(k) && final(st).messages[k] == old(st).messages[k],
        //# K1-others
        final(st).tasks == old(st).tasks && final(st).procs == old(st).procs && final(st).models == old(st).models && final(st).events == old(st).events,
//@@ end

// handler with a ghost view of the store (R20: `f(e)` -> `f.call(e, Tracked(st))`): its precondition is the monitor
pub trait Handler {
    spec fn pre(&self, e: Message, st: StoreAbs) -> bool;
    spec fn called(&self, e: Message) -> bool;
    fn call(&self, e: &Message, Tracked(st): Tracked<&StoreAbs>)
        requires self.pre(*e, *st)
        ensures self.called(*e);
}

//@@ extract file=acts/src/export/channel.rs in="impl Channel" item="fn on_message" closure=1 name=Channel::on_message::handler props=C18,C09 sig="pub fn on_message_handler<F: Handler>(glob: Globs, runtime: Arc<Runtime>, ack: bool, chan_id: String, pattern: String, f: F, e: &Event<Message>)"
//@@ opt ghost="Tracked(st): Tracked<&mut StoreAbs>" ghostarg="Tracked(st)" heapmethods=store_if
//@@ rw R20 `f ( e )` => `f.call(e, Tracked(st))`
//@@ spec
    requires
        old(st).wf(),
        // monitor: the handler may only be invoked for a message this channel selects and, on an acknowledging channel, after the record exists
        forall|s: StoreAbs| delivers(globs_of(glob), *e)
            && ((ack && chan_id@.len() > 0 && e.retry_times == 0 && old(st).write_ok) ==> s.messages.dom().contains(e.id@) && s.messages[e.id@].status == MessageStatus::Created)
            ==> #[trigger] f.pre(*e, s),
    ensures
        //# N3-invoked-if-selected
        delivers(globs_of(glob), *e) ==> f.called(*e),
        //# N3-not-selected-no-effect
        !delivers(globs_of(glob), *e) ==> *final(st) == *old(st),
//@@ end

//@@ extract file=acts/src/export/channel.rs in="impl Channel" item="fn on_start" closure=1 name=Channel::on_start::handler props=C18,C09 sig="pub fn on_start_handler<F: Handler>(glob: Globs, runtime: Arc<Runtime>, ack: bool, chan_id: String, pattern: String, f: F, e: &Event<Message>)"
//@@ opt ghost="Tracked(st): Tracked<&mut StoreAbs>" ghostarg="Tracked(st)" heapmethods=store_if
//@@ rw R20 `f ( e )` => `f.call(e, Tracked(st))`
//@@ spec
    requires
        old(st).wf(),
        // monitor: the handler may only be invoked for a message this channel selects and, on an acknowledging channel, after the record exists
        forall|s: StoreAbs| delivers(globs_of(glob), *e)
            && ((ack && chan_id@.len() > 0 && e.retry_times == 0 && old(st).write_ok) ==> s.messages.dom().contains(e.id@) && s.messages[e.id@].status == MessageStatus::Created)
            ==> #[trigger] f.pre(*e, s),
    ensures
        //# N3-invoked-if-selected
        delivers(globs_of(glob), *e) ==> f.called(*e),
        //# N3-not-selected-no-effect
        !delivers(globs_of(glob), *e) ==> *final(st) == *old(st),
//@@ end

//@@ extract file=acts/src/export/channel.rs in="impl Channel" item="fn on_complete" closure=1 name=Channel::on_complete::handler props=C18,C09 sig="pub fn on_complete_handler<F: Handler>(glob: Globs, runtime: Arc<Runtime>, ack: bool, chan_id: String, pattern: String, f: F, e: &Event<Message>)"
//@@ opt ghost="Tracked(st): Tracked<&mut StoreAbs>" ghostarg="Tracked(st)" heapmethods=store_if
//@@ rw R20 `f ( e )` => `f.call(e, Tracked(st))`
//@@ spec
    requires
        old(st).wf(),
        // monitor: the handler may only be invoked for a message this channel selects and, on an acknowledging channel, after the record exists
        forall|s: StoreAbs| delivers(globs_of(glob), *e)
            && ((ack && chan_id@.len() > 0 && e.retry_times == 0 && old(st).write_ok) ==> s.messages.dom().contains(e.id@) && s.messages[e.id@].status == MessageStatus::Created)
            ==> #[trigger] f.pre(*e, s),
    ensures
        //# N3-invoked-if-selected
        delivers(globs_of(glob), *e) ==> f.called(*e),
        //# N3-not-selected-no-effect
        !delivers(globs_of(glob), *e) ==> *final(st) == *old(st),
//@@ end

//@@ extract file=acts/src/export/channel.rs in="impl Channel" item="fn on_error" closure=1 name=Channel::on_error::handler props=C18,C09 sig="pub fn on_error_handler<F: Handler>(glob: Globs, runtime: Arc<Runtime>, ack: bool, chan_id: String, pattern: String, f: F, e: &Event<Message>)"
//@@ opt ghost="Tracked(st): Tracked<&mut StoreAbs>" ghostarg="Tracked(st)" heapmethods=store_if
//@@ rw R20 `f ( e )` => `f.call(e, Tracked(st))`
//@@ spec
    requires
        old(st).wf(),
        // monitor: the handler may only be invoked for a message this channel selects and, on an acknowledging channel, after the record exists
        forall|s: StoreAbs| delivers(globs_of(glob), *e)
            && ((ack && chan_id@.len() > 0 && e.retry_times == 0 && old(st).write_ok) ==> s.messages.dom().contains(e.id@) && s.messages[e.id@].status == MessageStatus::Created)
            ==> #[trigger] f.pre(*e, s),
    ensures
        //# N3-invoked-if-selected
        delivers(globs_of(glob), *e) ==> f.called(*e),
        //# N3-not-selected-no-effect
        !delivers(globs_of(glob), *e) ==> *final(st) == *old(st),
//@@ end

} // verus!
fn main() {}
