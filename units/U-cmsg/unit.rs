// U-cmsg: the message a task event is turned into (C08: "Every message carries the pid, tid, node id, key, type, uses and state of the
// task it describes").  Task::create_message and the node getters it reads are cut out of /repo; the live fields of the task (behind
// locks) are uninterpreted functions of the task object, read once each.
// TRUSTED: Task::inputs / outputs / options / params / parent / err / state getters as plain reads, utils::longid (a fresh id),
// serde_json::json!, NodeKind::to_string (strum), the model structs as far as the getters look at them.
//@@ unit U-cmsg
//@@ default props=C08 rewrites=R1,R2,R3,R5,R13
use vstd::prelude::*;
use std::sync::Arc;
verus! {
//@@ include prelude/state.rs

#[verifier::external_body]
pub struct Vars { _p: u8 }
#[verifier::external_body]
pub struct JsonValue { _p: u8 }
pub uninterp spec fn jstr(s: Seq<char>) -> JsonValue;
pub uninterp spec fn jvars(v: Vars) -> JsonValue;
pub uninterp spec fn jstep(nid: Seq<char>, name: Seq<char>, tid: Seq<char>) -> JsonValue;
pub trait JVal: Sized { spec fn jv(&self) -> JsonValue; }
impl JVal for String { open spec fn jv(&self) -> JsonValue { jstr(self@) } }
impl JVal for Vars { open spec fn jv(&self) -> JsonValue { jvars(*self) } }
impl Vars {
    pub uninterp spec fn view(&self) -> Map<Seq<char>, JsonValue>;
    #[verifier::external_body]
    pub fn insert(&mut self, k: String, v: JsonValue) ensures final(self)@ == old(self)@.insert(k@, v) { unimplemented!() }
    #[verifier::external_body]
    pub fn set<V: JVal>(&mut self, k: &str, v: V) ensures final(self)@ == old(self)@.insert(k@, v.jv()) { unimplemented!() }
}
pub mod consts {
    use vstd::prelude::*;
    verus! {
    //@@ extract file=acts/src/utils/consts.rs item="const STEP_KEY" name=consts::STEP_KEY
    //@@ end
    //@@ extract file=acts/src/utils/consts.rs item="const ACT_OPTIONS_KEY" name=consts::ACT_OPTIONS_KEY
    //@@ end
    //@@ extract file=acts/src/utils/consts.rs item="const ACT_PARAMS_KEY" name=consts::ACT_PARAMS_KEY
    //@@ end
    //@@ extract file=acts/src/utils/consts.rs item="const ACT_ERR_CODE" name=consts::ACT_ERR_CODE
    //@@ end
    //@@ extract file=acts/src/utils/consts.rs item="const ACT_ERR_MESSAGE" name=consts::ACT_ERR_MESSAGE
    //@@ end
    }
}
#[verifier::external_body]
pub fn str_to_string(s: &str) -> (r: String) ensures r@ == s@ { unimplemented!() }
#[verifier::external_body]
pub fn clone_string(s: &String) -> (r: String) ensures r@ == s@ { unimplemented!() }
#[verifier::external_body]
pub fn empty_string() -> (r: String) ensures r@.len() == 0 { unimplemented!() }

// the model structs as far as the getters look at them
pub struct ActM { pub id: String, pub name: String, pub key: String, pub uses: String, pub tag: String }
pub struct NamedM { pub id: String, pub name: String, pub tag: String }
pub enum NodeContent { Workflow(NamedM), Branch(NamedM), Step(NamedM), Act(ActM) }
//@@ extract file=acts/src/scheduler/tree/node.rs item="enum NodeKind" name=NodeKind
//@@ opt structural dropderive=Clone
//@@ end
pub uninterp spec fn kind_text(k: NodeKind) -> Seq<char>;
impl NodeKind {
    // strum Display (derive): the lower-case name of the variant
    #[verifier::external_body]
    pub fn to_string(&self) -> (r: String) ensures r@ == kind_text(*self) { unimplemented!() }
}
pub struct Node { pub id: String, pub content: NodeContent, pub level: usize }
pub open spec fn content_id(c: NodeContent) -> Seq<char> { match c { NodeContent::Workflow(d) => d.id@, NodeContent::Branch(d) => d.id@, NodeContent::Step(d) => d.id@, NodeContent::Act(d) => d.id@ } }
pub open spec fn content_name(c: NodeContent) -> Seq<char> { match c { NodeContent::Workflow(d) => d.name@, NodeContent::Branch(d) => d.name@, NodeContent::Step(d) => d.name@, NodeContent::Act(d) => d.name@ } }
pub open spec fn content_tag(c: NodeContent) -> Seq<char> { match c { NodeContent::Workflow(d) => d.tag@, NodeContent::Branch(d) => d.tag@, NodeContent::Step(d) => d.tag@, NodeContent::Act(d) => d.tag@ } }
pub open spec fn kind_of(c: NodeContent) -> NodeKind { match c { NodeContent::Workflow(_) => NodeKind::Workflow, NodeContent::Branch(_) => NodeKind::Branch, NodeContent::Step(_) => NodeKind::Step, NodeContent::Act(_) => NodeKind::Act } }
// oracle (C08 / statement of `key`): the act's key, or the node id when the node has no key
pub open spec fn key_of(n: Node) -> Seq<char> { match n.content { NodeContent::Act(a) => if a.key@.len() == 0 { n.id@ } else { a.key@ }, _ => n.id@ } }
pub open spec fn uses_of(n: Node) -> Seq<char> { match n.content { NodeContent::Act(a) => a.uses@, _ => Seq::<char>::empty() } }
impl NodeContent {
//@@ extract file=acts/src/scheduler/tree/node.rs in="impl NodeContent" item="fn id" name=NodeContent::id
//@@ rw R7 `data . id . clone ( )` => `clone_string(&data.id)`
//@@ rw R7 `data . id . to_string ( )` => `clone_string(&data.id)`
//@@ spec
    ensures ret@ == content_id(*self)
//@@ end
//@@ extract file=acts/src/scheduler/tree/node.rs in="impl NodeContent" item="fn name" name=NodeContent::name
//@@ rw R7 `data . name . clone ( )` => `clone_string(&data.name)`
//@@ rw R7 `data . name . to_string ( )` => `clone_string(&data.name)`
//@@ spec
    ensures ret@ == content_name(*self)
//@@ end
//@@ extract file=acts/src/scheduler/tree/node.rs in="impl NodeContent" item="fn tag" name=NodeContent::tag
//@@ rw R7 `node . tag . clone ( )` => `clone_string(&node.tag)`
//@@ spec
    ensures ret@ == content_tag(*self)
//@@ end
//@@ extract file=acts/src/scheduler/tree/node.rs in="impl NodeContent" item="fn key" name=NodeContent::key
//@@ rw R7 `node . key . clone ( )` => `clone_string(&node.key)`
//@@ rw R7 `"" . to_string ( )` => `empty_string()`
//@@ spec
    ensures
        //# M5-only-an-act-has-a-key
        ret@ == (match *self { NodeContent::Act(a) => a.key@, _ => Seq::<char>::empty() }),
//@@ end
}
impl Node {
//@@ extract file=acts/src/scheduler/tree/node.rs in="impl Node" item="fn id" name=Node::id
//@@ spec
    ensures ret@ == self.id@
//@@ end
//@@ extract file=acts/src/scheduler/tree/node.rs in="impl Node" item="fn key" name=Node::key
//@@ rw R7 `self . id . clone ( )` => `clone_string(&self.id)`
//@@ spec
    ensures
        //# M5-the-key-is-the-acts-key-or-the-node-id
        ret@ == key_of(*self),
//@@ end
//@@ extract file=acts/src/scheduler/tree/node.rs in="impl Node" item="fn uses" name=Node::uses
//@@ rw R7 `act . uses . to_string ( )` => `clone_string(&act.uses)`
//@@ rw R7 `"" . to_string ( )` => `empty_string()`
//@@ spec
    ensures
        //# M5-uses-of-an-act-else-empty
        ret@ == uses_of(*self),
//@@ end
//@@ extract file=acts/src/scheduler/tree/node.rs in="impl Node" item="fn name" name=Node::name
//@@ spec
    ensures ret@ == content_name(self.content)
//@@ end
//@@ extract file=acts/src/scheduler/tree/node.rs in="impl Node" item="fn kind" name=Node::kind
//@@ spec
    ensures ret == kind_of(self.content)
//@@ end
//@@ extract file=acts/src/scheduler/tree/node.rs in="impl Node" item="fn tag" name=Node::tag
//@@ spec
    ensures ret@ == content_tag(self.content)
//@@ end
}

pub struct Error { pub ecode: String, pub message: String }
pub struct WorkflowM { pub id: String, pub name: String, pub tag: String }
//@@ extract file=acts/src/event/message.rs item="struct Model" name=Model
//@@ opt dropderive=Clone,Default
//@@ end
//@@ extract file=acts/src/event/message.rs item="struct Message" name=Message
//@@ opt dropderive=Clone,Default
//@@ end
pub struct ProcObj { pub id: String }
impl ProcObj {
    pub uninterp spec fn l_model(&self) -> WorkflowM;
    #[verifier::external_body] pub fn model(&self) -> (r: Box<WorkflowM>) ensures *r == self.l_model() { unimplemented!() }
}
pub struct Task { pub pid: String, pub id: String, pub node: Arc<Node>, pub proc: Arc<ProcObj> }
impl Task {
    // live fields (behind locks): uninterpreted functions of the object; create_message only READS them
    pub uninterp spec fn l_state(&self) -> TaskState;
    pub uninterp spec fn l_err(&self) -> Option<Error>;
    pub uninterp spec fn l_inputs(&self) -> Vars;
    pub uninterp spec fn l_outputs(&self) -> Vars;
    pub uninterp spec fn l_options(&self) -> Vars;
    pub uninterp spec fn l_params(&self) -> Vars;
    pub uninterp spec fn l_start(&self) -> i64;
    pub uninterp spec fn l_end(&self) -> i64;
    pub uninterp spec fn l_parent(&self) -> Option<Arc<Task>>;
    pub uninterp spec fn depth(&self) -> nat;      // length of the parent chain (finite: the task tree is a tree)
    #[verifier::external_body] pub fn state(&self) -> (r: TaskState) ensures r == self.l_state() { unimplemented!() }
    #[verifier::external_body] pub fn err(&self) -> (r: Option<Error>) ensures r == self.l_err() { unimplemented!() }
    #[verifier::external_body] pub fn inputs(&self) -> (r: Vars) ensures r == self.l_inputs() { unimplemented!() }
    #[verifier::external_body] pub fn outputs(&self) -> (r: Vars) ensures r == self.l_outputs() { unimplemented!() }
    #[verifier::external_body] pub fn options(&self) -> (r: Vars) ensures r == self.l_options() { unimplemented!() }
    #[verifier::external_body] pub fn params(&self) -> (r: Vars) ensures r == self.l_params() { unimplemented!() }
    #[verifier::external_body] pub fn start_time(&self) -> (r: i64) ensures r == self.l_start() { unimplemented!() }
    #[verifier::external_body] pub fn end_time(&self) -> (r: i64) ensures r == self.l_end() { unimplemented!() }
    #[verifier::external_body] pub fn parent(&self) -> (r: Option<Arc<Task>>) ensures r == self.l_parent(), r is Some ==> r->Some_0.depth() < self.depth() { unimplemented!() }
    #[verifier::external_body] pub fn is_kind(&self, k: NodeKind) -> (r: bool) ensures r == (kind_of(self.node.content) == k) { unimplemented!() }
}
pub mod utils {
    use vstd::prelude::*;
    verus! {
    #[verifier::external_body]
    pub fn longid() -> String { unimplemented!() }
    }
}
// R7: `json!({ STEP_NODE_ID: task.node.id(), STEP_NODE_NAME: task.node.name(), STEP_TASK_ID: task.id })`
#[verifier::external_body]
pub fn step_link(task: &Arc<Task>) -> (r: JsonValue) ensures r == jstep(task.node.id@, content_name(task.node.content), task.id@) { unimplemented!() }
// the enclosing step of an act (oracle: first task on the parent chain whose node is a step)
pub open spec fn enclosing_step(t: Task) -> Option<Arc<Task>>
    decreases t.depth()
{
    match t.l_parent() {
        None => None,
        Some(p) => if p.depth() < t.depth() { if kind_of(p.node.content) == NodeKind::Step { Some(p) } else { enclosing_step(*p) } } else { None },
    }
}
impl Task {
//@@ extract file=acts/src/scheduler/process/task.rs in="impl Task" item="fn create_message" name=Task::create_message
//@@ opt attr="#[verifier::loop_isolation(false)] #[verifier::allow_complex_invariants]"
//@@ proof at=start
        proof {
            // the five input keys are different strings (their lengths differ pairwise except options/message: first letters differ)
            reveal_strlit("step"); reveal_strlit("options"); reveal_strlit("params"); reveal_strlit("message"); reveal_strlit("ecode");
            assert(consts::ACT_ERR_CODE@.len() == 5 && consts::ACT_ERR_MESSAGE@.len() == 7 && consts::STEP_KEY@.len() == 4 && consts::ACT_PARAMS_KEY@.len() == 6 && consts::ACT_OPTIONS_KEY@.len() == 7);
            assert(consts::ACT_OPTIONS_KEY@[0] == 'o' && consts::ACT_ERR_MESSAGE@[0] == 'm');
        }
//@@ rw R7 `consts :: STEP_KEY . to_string ( )` => `str_to_string(consts::STEP_KEY)`
//@@ rw R7 `json ! ( { consts :: STEP_NODE_ID : task . node . id ( ) , consts :: STEP_NODE_NAME : task . node . name ( ) , consts :: STEP_TASK_ID : task . id , } )` => `step_link(&task)`
//@@ rw R7 `self . id . clone ( )` => `clone_string(&self.id)`
//@@ rw R7 `self . pid . clone ( )` => `clone_string(&self.pid)`
//@@ rw R7 `self . node . id ( ) . to_string ( )` => `str_to_string(self.node.id())`
//@@ rw R7 `self . node . tag ( ) . to_string ( )` => `self.node.tag()`
//@@ rw R7 `workflow . id . clone ( )` => `clone_string(&workflow.id)`
//@@ rw R7 `workflow . name . clone ( )` => `clone_string(&workflow.name)`
//@@ rw R7 `workflow . tag . clone ( )` => `clone_string(&workflow.tag)`
//@@ spec
    ensures
        //# M2-the-message-names-the-task-it-describes
        ret.tid@ == self.id@ && ret.pid@ == self.pid@ && ret.nid@ == self.node.id@,
        //# M2-key-type-uses-of-the-node
        ret.key@ == key_of(*self.node) && ret.r#type@ == kind_text(kind_of(self.node.content)) && ret.uses@ == uses_of(*self.node) && ret.name@ == content_name(self.node.content) && ret.tag@ == content_tag(self.node.content),
        //# M2-the-state-of-the-task
        ret.state == msg_state_of(self.l_state()),
        //# M2-the-model-of-the-process
        ret.mid@ == self.proc.l_model().id@ && ret.model.id@ == self.proc.l_model().id@ && ret.model.name@ == self.proc.l_model().name@ && ret.model.tag@ == self.proc.l_model().tag@,
        //# M2-times-outputs-and-a-fresh-delivery-count
        ret.start_time == self.l_start() && ret.end_time == self.l_end() && ret.outputs == self.l_outputs() && ret.retry_times == 0,
        //# M2-an-error-is-reported-with-its-code-and-message
        self.l_err() is Some ==> ret.inputs@.dom().contains(consts::ACT_ERR_CODE@) && ret.inputs@[consts::ACT_ERR_CODE@] == jstr(self.l_err()->Some_0.ecode@)
            && ret.inputs@.dom().contains(consts::ACT_ERR_MESSAGE@) && ret.inputs@[consts::ACT_ERR_MESSAGE@] == jstr(self.l_err()->Some_0.message@),
        //# M2-an-act-names-its-enclosing-step
        kind_of(self.node.content) == NodeKind::Act && enclosing_step(**self) is Some ==> ({ let s = enclosing_step(**self)->Some_0;
            ret.inputs@.dom().contains(consts::STEP_KEY@) && (consts::STEP_KEY@ != consts::ACT_ERR_CODE@ && consts::STEP_KEY@ != consts::ACT_ERR_MESSAGE@ && consts::STEP_KEY@ != consts::ACT_OPTIONS_KEY@ && consts::STEP_KEY@ != consts::ACT_PARAMS_KEY@
                ==> ret.inputs@[consts::STEP_KEY@] == jstep(s.node.id@, content_name(s.node.content), s.id@)) }),
        //# M2-inputs-of-a-task-without-error-that-is-not-an-act-are-its-own-inputs
        self.l_err() is None && kind_of(self.node.content) != NodeKind::Act ==> ret.inputs == self.l_inputs(),
//@@ loop 1
        invariant
            //# walking-up-to-the-enclosing-step
            (match parent { Some(p) => p.depth() < self.depth() && (if kind_of(p.node.content) == NodeKind::Step { Some(p) } else { enclosing_step(*p) }) == enclosing_step(**self),
                            None => enclosing_step(**self) is None })
                && inputs == self.l_inputs(),
        ensures
            //# step-link-set
            enclosing_step(**self) is Some ==> inputs@ == self.l_inputs()@.insert(consts::STEP_KEY@, jstep(enclosing_step(**self)->Some_0.node.id@, content_name(enclosing_step(**self)->Some_0.node.content), enclosing_step(**self)->Some_0.id@)),
            enclosing_step(**self) is None ==> inputs == self.l_inputs(),
        decreases (match parent { Some(p) => p.depth() + 1, None => 0 })
//@@ end
}
} // verus!
fn main() {}
