// U-tick: what one tick does (the closure Runtime::initialize registers with Emitter::on_tick, lifted: R9) -- C19 "no later than one tick
// after that while the task is still open" needs every running process to be ticked on every tick (W3b); C09 needs the retry step to be
// run on every tick with the configured interval and retry limit, and the redelivery to go to the emitter (K6).
// TRUSTED: Cache::procs() (the cached processes), Process::state / do_tick (do_tick is under contract in U-sched),
// Store::with_no_response_messages (under contract in U-msg) -- here only WHAT the tick asks of them is logged.
//@@ unit U-tick
//@@ default props=C19 rewrites=R1,R2,R3,R5,R13,R15 ghost="Tracked(l): Tracked<&mut TickLog>" ghostarg="Tracked(l)"
//@@ heapmethods do_tick with_no_response_messages
use vstd::prelude::*;
use std::sync::Arc;
verus! {
//@@ include prelude/state.rs
pub tracked struct TickLog {
    pub ghost ticked: Seq<Seq<char>>,            // Process::do_tick() calls (pid)
    pub ghost retry_runs: Seq<(i64, i32, int)>,  // with_no_response_messages(timeout_millis, max_retry, redelivery target)
}
#[verifier::external_body]
pub struct Process { _p: u8 }
impl Process {
    pub uninterp spec fn s_id(&self) -> Seq<char>;
    pub uninterp spec fn l_state(&self) -> TaskState;
    #[verifier::external_body] pub fn state(&self) -> (r: TaskState) ensures r == self.l_state() { unimplemented!() }
    #[verifier::external_body]
    pub fn do_tick(&self, Tracked(l): Tracked<&mut TickLog>) ensures *final(l) == (TickLog { ticked: old(l).ticked.push(self.s_id()), ..*old(l) }) { unimplemented!() }
}
#[verifier::external_body]
pub struct Emitter { _p: u8 }
impl Emitter { pub uninterp spec fn eid(&self) -> int; }
#[verifier::external_body]
pub struct Store { _p: u8 }
// R20: the redelivery callback `|m| { evt.emit_message(m); }` (exact token match): redelivers through THAT emitter
pub struct Redeliver { pub evt: Arc<Emitter> }
#[verifier::external_body]
pub fn redeliver_through(evt: &Arc<Emitter>) -> (r: Redeliver) ensures r.evt == *evt { unimplemented!() }
impl Store {
    #[verifier::external_body]
    pub fn with_no_response_messages(&self, timeout_millis: i64, max_message_retry_times: i32, f: Redeliver, Tracked(l): Tracked<&mut TickLog>) -> (r: Result<(), ()>)
        ensures *final(l) == (TickLog { retry_runs: old(l).retry_runs.push((timeout_millis, max_message_retry_times, f.evt.eid())), ..*old(l) }) { unimplemented!() }
}
#[verifier::external_body]
pub struct Cache { _p: u8 }
impl Cache {
    pub uninterp spec fn s_procs(&self) -> Seq<Arc<Process>>;
    #[verifier::external_body] pub fn procs(&self) -> (r: Vec<Arc<Process>>) ensures r@ == self.s_procs() { unimplemented!() }
    #[verifier::external_body] pub fn store(&self) -> (r: Arc<Store>) { unimplemented!() }
}
// oracle: the ids of the running processes, in cache order
pub open spec fn running_ids(ps: Seq<Arc<Process>>) -> Seq<Seq<char>>
    decreases ps.len()
{
    if ps.len() == 0 { Seq::empty() } else {
        let rest = running_ids(ps.drop_last());
        if ps.last().l_state() is Running { rest.push(ps.last().s_id()) } else { rest }
    }
}
//@@ extract file=acts/src/scheduler/runtime.rs in="impl Runtime" item="fn initialize" closure=params:_ name=Runtime::on_tick::handler props=C19,C09 sig="pub fn on_tick_handler(cache: Arc<Cache>, evt: Arc<Emitter>, default_interval_millis: i64, max_message_retry_times: i32)"
//@@ rw R20 `| m | { evt . emit_message ( m ) ; }` => `redeliver_through(&evt)`
//@@ spec
    ensures
        //# W3-every-running-process-is-ticked-once-on-every-tick-and-no-other [C19]
        final(l).ticked == old(l).ticked + running_ids(cache.s_procs()),
        //# K6-the-retry-step-runs-once-per-tick-with-the-configured-interval-and-limit-and-redelivers-through-the-emitter [C09]
        final(l).retry_runs == old(l).retry_runs.push((default_interval_millis, max_message_retry_times, evt.eid())),
//@@ loop 1
        invariant
            //# ticked-so-far
            __v1@ == cache.s_procs() && l.retry_runs == old(l).retry_runs && l.ticked == old(l).ticked + running_ids(cache.s_procs().take(__i1 as int)),
//@@ proof at=loop1
                proof {
                    let ps = cache.s_procs();
                    assert(ps.take(__i1 as int + 1).drop_last() =~= ps.take(__i1 as int));
                    assert(ps.take(__i1 as int + 1).last() == ps[__i1 as int]);
                    reveal_with_fuel(running_ids, 2);
                }
//@@ proof at=afterloop1
        proof { assert(cache.s_procs().take(cache.s_procs().len() as int) =~= cache.s_procs()); }
//@@ proof at=start
        proof { reveal_with_fuel(running_ids, 2); assert(cache.s_procs().take(0) =~= Seq::<Arc<Process>>::empty()); }
//@@ end
} // verus!
fn main() {}
