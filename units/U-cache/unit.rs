// U-cache: the process cache (acts/src/cache/cache.rs) -- C12 "a process dropped from the cache and reloaded ...", C13 "the results do
// not change with the configured cache capacity", C17 "no process row and no task row of it remains" (Cache::remove), C11 (a new process is
// written to the store when it is cached).
// Ghost state `CacheAbs`: the moka cache as a map pid -> process object, the set of process rows the store holds, and logs of the store
// operations the cache issues (Store::upsert_proc, Store::remove_proc, Store::load_proc, Store::load -- each under contract in
// U-persist / U-ret / U-load).  TRUSTED: moka get / insert / remove / contains_key / entry_count as an exact map DURING one call
// (evictions happen between calls: a lookup that misses takes the reload path, which is what the contracts describe).
//@@ unit U-cache
//@@ default props=C12 rewrites=R1,R2,R3,R5,R13,R15 ghost="Tracked(ca): Tracked<&mut CacheAbs>" ghostarg="Tracked(ca)"
//@@ heapmethods get insert remove contains_key entry_count run_pending_tasks load_proc load upsert_proc remove_proc get_proc push_proc_pri push_task_pri count call
use vstd::prelude::*;
use std::sync::Arc;
verus! {
#[derive(Debug)]
pub enum ActError { Store(String), Other }
pub type Result<T> = std::result::Result<T, ActError>;
#[verifier::external_body]
pub struct Process { _p: u8 }
impl Process {
    pub uninterp spec fn s_id(&self) -> Seq<char>;
    pub uninterp spec fn obj(&self) -> int;        // identity of the live object (two Arcs of one process have the same obj)
    #[verifier::external_body]
    pub fn id(&self) -> (r: &str) ensures r@ == self.s_id() { unimplemented!() }
}
#[verifier::external_body]
pub fn arc_clone(p: &Arc<Process>) -> (r: Arc<Process>) ensures *r == **p { unimplemented!() }
#[verifier::external_body]
pub struct Task { _p: u8 }
#[verifier::external_body]
pub struct Runtime { _p: u8 }
#[verifier::external_body]
pub fn str_to_string(s: &str) -> (r: String) ensures r@ == s@ { unimplemented!() }

pub tracked struct CacheAbs {
    pub ghost cached: Map<Seq<char>, Process>,       // moka: pid -> the cached process object
    pub ghost rows: Set<Seq<char>>,                  // pids that have a process row in the store (and can be rebuilt from it)
    pub ghost saved: Seq<Seq<char>>,                 // Store::upsert_proc(proc) calls (pid)
    pub ghost removed: Seq<Seq<char>>,               // Store::remove_proc(pid) calls
    pub ghost load_asked: Seq<int>,                  // Store::load(cap, rt): how many processes were asked for
    pub ghost on_load: Seq<Seq<char>>,               // restore: on_load(proc) calls (pid)
    pub ghost task_writes: Seq<bool>,                // push_task_pri(task, save)
}
// moka::sync::Cache<String, Arc<Process>>
#[verifier::external_body]
pub struct MokaCache { _p: u8 }
impl MokaCache {
    #[verifier::external_body]
    pub fn get(&self, pid: &str, Tracked(ca): Tracked<&mut CacheAbs>) -> (r: Option<Arc<Process>>)
        ensures r is Some <==> old(ca).cached.dom().contains(pid@), r is Some ==> *r->Some_0 == old(ca).cached[pid@], *final(ca) == *old(ca) { unimplemented!() }
    #[verifier::external_body]
    pub fn contains_key(&self, pid: &str, Tracked(ca): Tracked<&mut CacheAbs>) -> (r: bool)
        ensures r == old(ca).cached.dom().contains(pid@), *final(ca) == *old(ca) { unimplemented!() }
    #[verifier::external_body]
    pub fn insert(&self, pid: String, p: Arc<Process>, Tracked(ca): Tracked<&mut CacheAbs>)
        ensures *final(ca) == (CacheAbs { cached: old(ca).cached.insert(pid@, *p), ..*old(ca) }) { unimplemented!() }
    #[verifier::external_body]
    // moka remove: the entry is dropped; the value it held, if any, is handed back
    pub fn remove(&self, pid: &str, Tracked(ca): Tracked<&mut CacheAbs>) -> (r: Option<Arc<Process>>)
        ensures *final(ca) == (CacheAbs { cached: old(ca).cached.remove(pid@), ..*old(ca) }), r is Some <==> old(ca).cached.dom().contains(pid@) { unimplemented!() }
    #[verifier::external_body]
    pub fn run_pending_tasks(&self, Tracked(ca): Tracked<&mut CacheAbs>) ensures *final(ca) == *old(ca) { unimplemented!() }
    #[verifier::external_body]
    pub fn entry_count(&self, Tracked(ca): Tracked<&mut CacheAbs>) -> (r: u64)
        ensures r as nat == old(ca).cached.dom().len(), old(ca).cached.dom().finite(), *final(ca) == *old(ca) { unimplemented!() }
}
// cache/store.rs (the engine-side Store): each of these is under contract elsewhere; here only WHAT the cache asks of it is logged
#[verifier::external_body]
pub struct Store { _p: u8 }
impl Store {
    // Store::load_proc (U-load): rebuilds the process of THAT row; Ok(None) when there is no such row
    #[verifier::external_body]
    pub fn load_proc(&self, pid: &str, rt: &Arc<Runtime>, Tracked(ca): Tracked<&mut CacheAbs>) -> (r: Result<Option<Arc<Process>>>)
        ensures r is Ok && r->Ok_0 is Some ==> old(ca).rows.contains(pid@) && r->Ok_0->Some_0.s_id() == pid@,
            r is Ok && r->Ok_0 is None ==> !old(ca).rows.contains(pid@),
            *final(ca) == *old(ca) { unimplemented!() }
    // Store::load (U-load): up to `cap` unfinished processes rebuilt from their rows
    #[verifier::external_body]
    pub fn load(&self, cap: usize, rt: &Arc<Runtime>, Tracked(ca): Tracked<&mut CacheAbs>) -> (r: Result<Vec<Arc<Process>>>)
        ensures r is Ok ==> r->Ok_0@.len() <= cap && forall|i: int| 0 <= i < r->Ok_0@.len() ==> old(ca).rows.contains((#[trigger] r->Ok_0@[i]).s_id()),
            *final(ca) == (CacheAbs { load_asked: old(ca).load_asked.push(cap as int), ..*old(ca) }) { unimplemented!() }
    // Store::upsert_proc (U-persist): the process row becomes the image of the live process
    #[verifier::external_body]
    pub fn upsert_proc(&self, p: &Arc<Process>, Tracked(ca): Tracked<&mut CacheAbs>) -> (r: Result<bool>)
        ensures *final(ca) == (CacheAbs { saved: old(ca).saved.push(p.s_id()), rows: if r is Ok { old(ca).rows.insert(p.s_id()) } else { old(ca).rows }, ..*old(ca) }) { unimplemented!() }
    // Store::remove_proc (U-ret): deletes the process row and every task row of that pid
    #[verifier::external_body]
    pub fn remove_proc(&self, pid: &str, Tracked(ca): Tracked<&mut CacheAbs>) -> (r: Result<bool>)
        ensures *final(ca) == (CacheAbs { removed: old(ca).removed.push(pid@), rows: if r is Ok { old(ca).rows.remove(pid@) } else { old(ca).rows }, ..*old(ca) }) { unimplemented!() }
}
// R10: `.unwrap_or_else(|err| { <log>; None })`: a failed reload counts as "not there"
#[verifier::external_body]
pub fn ok_or_none(r: Result<Option<Arc<Process>>>) -> (o: Option<Arc<Process>>) ensures o == (if r is Ok { r->Ok_0 } else { None::<Arc<Process>> }) { unimplemented!() }
// R10: `.expect("fail to upsert process")`: a refused write panics (nothing is claimed after it)
#[verifier::external_body]
pub fn expect_ok(r: Result<bool>) ensures r is Ok { unimplemented!() }
// R20: the `on_load` callback of restore
pub trait OnLoad { fn call(&self, p: &Arc<Process>, Tracked(ca): Tracked<&mut CacheAbs>) ensures *final(ca) == (CacheAbs { on_load: old(ca).on_load.push(p.s_id()), ..*old(ca) }); }

pub struct Cache { pub cap: usize, pub procs: MokaCache, pub store: Arc<Store> }
impl Cache {
    // Cache::push_task_pri (U-persist): logged
    #[verifier::external_body]
    pub fn push_task_pri(&self, task: &Arc<Task>, save: bool, Tracked(ca): Tracked<&mut CacheAbs>) -> (r: Result<()>)
        ensures *final(ca) == (CacheAbs { task_writes: old(ca).task_writes.push(save), ..*old(ca) }) { unimplemented!() }
//@@ extract file=acts/src/cache/cache.rs in="impl Cache" item="fn cap" name=Cache::cap
//@@ opt noghost
//@@ spec
    ensures ret == self.cap
//@@ end
//@@ extract file=acts/src/cache/cache.rs in="impl Cache" item="fn count" name=Cache::count props=C13
//@@ spec
    requires old(ca).cached.dom().len() <= usize::MAX
    ensures
        //# L3-count-is-the-number-of-cached-processes
        ret as nat == old(ca).cached.dom().len() && *final(ca) == *old(ca),
//@@ end
//@@ extract file=acts/src/cache/cache.rs in="impl Cache" item="fn get_proc" name=Cache::get_proc
//@@ spec
    ensures ret is Some <==> old(ca).cached.dom().contains(pid@), ret is Some ==> *ret->Some_0 == old(ca).cached[pid@], *final(ca) == *old(ca)
//@@ end
//@@ extract file=acts/src/cache/cache.rs in="impl Cache" item="fn push_proc_pri" name=Cache::push_proc_pri props=C11,C12,C13
//@@ rw R10 `self . store . upsert_proc ( proc ) . expect ( $M:args ) ;` => `expect_ok(self.store.upsert_proc(proc));`
//@@ rw R7 `proc . id ( ) . to_string ( )` => `str_to_string(proc.id())`
//@@ rw R7 `proc . clone ( )` => `arc_clone(proc)`
//@@ spec
    ensures
        //# L3-the-process-is-cached-under-its-own-id
        final(ca).cached == old(ca).cached.insert(proc.s_id(), **proc),
        //# S2-a-new-process-is-written-to-the-store-before-it-is-cached-a-reloaded-one-is-not-written-again [C11,C12]
        final(ca).saved == (if save { old(ca).saved.push(proc.s_id()) } else { old(ca).saved }) && (save ==> final(ca).rows == old(ca).rows.insert(proc.s_id())) && (!save ==> final(ca).rows == old(ca).rows),
        //# L3-nothing-else
        final(ca).removed == old(ca).removed && final(ca).load_asked == old(ca).load_asked && final(ca).on_load == old(ca).on_load && final(ca).task_writes == old(ca).task_writes,
//@@ end
//@@ extract file=acts/src/cache/cache.rs in="impl Cache" item="fn push_proc" name=Cache::push_proc props=C11
//@@ spec
    ensures
        //# S2-a-started-process-is-saved-and-cached
        final(ca).cached == old(ca).cached.insert(proc.s_id(), **proc) && final(ca).saved == old(ca).saved.push(proc.s_id()),
//@@ end
//@@ extract file=acts/src/cache/cache.rs in="impl Cache" item="fn proc" name=Cache::proc props=C12,C13,C17
//@@ rw R7 `Some ( proc ) => Some ( proc . clone ( ) )` => `Some(proc) => Some(arc_clone(&proc))`
//@@ rw R10 `self . store . load_proc ( pid , rt ) . unwrap_or_else ( | err | $B:block )` => `ok_or_none(self.store.load_proc(pid, rt))`
//@@ spec
    ensures
        //# L3-a-cached-process-is-returned-as-it-is
        old(ca).cached.dom().contains(pid@) ==> ret is Some && *ret->Some_0 == old(ca).cached[pid@] && *final(ca) == *old(ca),
        //# L3-a-process-that-is-not-cached-is-rebuilt-from-its-own-row-and-cached-without-being-written-again
        !old(ca).cached.dom().contains(pid@) && ret is Some ==> old(ca).rows.contains(pid@) && ret->Some_0.s_id() == pid@
            && final(ca).cached == old(ca).cached.insert(pid@, *ret->Some_0) && final(ca).saved == old(ca).saved && final(ca).rows == old(ca).rows,
        //# T5-a-process-with-no-row-and-no-cache-entry-is-unknown
        !old(ca).cached.dom().contains(pid@) && !old(ca).rows.contains(pid@) ==> ret is None && *final(ca) == *old(ca),
        //# L3-a-lookup-removes-nothing
        final(ca).removed == old(ca).removed && (ret is None ==> *final(ca) == *old(ca)),
//@@ end
//@@ extract file=acts/src/cache/cache.rs in="impl Cache" item="fn remove" name=Cache::remove props=C17
//@@ spec
    ensures
        //# T2-the-cache-entry-is-dropped-and-the-rows-are-removed
        final(ca).cached == old(ca).cached.remove(pid@) && final(ca).removed == old(ca).removed.push(pid@),
        //# T2-no-other-process-is-touched
        forall|k: Seq<char>| k != pid@ ==> (final(ca).cached.dom().contains(k) <==> old(ca).cached.dom().contains(k)) && (final(ca).rows.contains(k) <==> old(ca).rows.contains(k)),
        //# T2-rows-gone-when-accepted
        ret is Ok ==> !final(ca).rows.contains(pid@),
//@@ end
//@@ extract file=acts/src/cache/cache.rs in="impl Cache" item="fn restore" name=Cache::restore props=C12,C13
//@@ rw R20 `< F : Fn ( & Arc < Process > ) >` => `<F: OnLoad>`
//@@ rw R19 `for ref proc in self . store . load ( cap , rt ) ? $B:block` => `for proc in self.store.load(cap, rt)?.iter() $B`
//@@ rw R20 `on_load ( proc ) ;` => `on_load.call(proc);`
//@@ spec
    requires old(ca).cached.dom().len() <= usize::MAX
    ensures
        //# L3-a-restored-copy-never-replaces-a-cached-process
        forall|k: Seq<char>| #[trigger] old(ca).cached.dom().contains(k) ==> final(ca).cached.dom().contains(k) && final(ca).cached[k] == old(ca).cached[k],
        //# L3-restore-loads-only-into-free-capacity
        final(ca).load_asked == old(ca).load_asked || (final(ca).load_asked.len() == old(ca).load_asked.len() + 1
            && final(ca).load_asked.last() == self.cap as int - old(ca).cached.dom().len() as int && final(ca).load_asked.last() > 0),
        //# L3-restore-writes-and-removes-nothing
        final(ca).saved == old(ca).saved && final(ca).removed == old(ca).removed && final(ca).rows == old(ca).rows,
        //# L3-every-restored-process-is-started-once
        final(ca).on_load.len() - old(ca).on_load.len() == final(ca).cached.dom().len() - old(ca).cached.dom().len()
            && forall|i: int| old(ca).on_load.len() <= i < final(ca).on_load.len() ==> final(ca).cached.dom().contains(#[trigger] final(ca).on_load[i]) && !old(ca).cached.dom().contains(final(ca).on_load[i]),
//@@ loop 1
        invariant
            //# restore-frame
            ca.saved == old(ca).saved && ca.removed == old(ca).removed && ca.rows == old(ca).rows && ca.load_asked == old(ca).load_asked.push(cap as int),
            //# cached-processes-kept
            forall|k: Seq<char>| #[trigger] old(ca).cached.dom().contains(k) ==> ca.cached.dom().contains(k) && ca.cached[k] == old(ca).cached[k],
            //# one-start-per-restored-process
            ca.cached.dom().finite() && old(ca).cached.dom().finite() && ca.on_load.len() >= old(ca).on_load.len()
                && ca.on_load.len() - old(ca).on_load.len() == ca.cached.dom().len() - old(ca).cached.dom().len(),
            //# started-processes-are-the-new-ones
            forall|i: int| old(ca).on_load.len() <= i < ca.on_load.len() ==> ca.cached.dom().contains(#[trigger] ca.on_load[i]) && !old(ca).cached.dom().contains(ca.on_load[i]),
//@@ end
//@@ extract file=acts/src/cache/cache.rs in="impl Cache" item="fn upsert" name=Cache::upsert props=C11
//@@ spec
    ensures
        //# S2-a-task-upsert-writes-the-task-through
        final(ca).task_writes == old(ca).task_writes.push(true),
//@@ end
}
} // verus!
fn main() {}
