// U-gen: act generators (C16-G1/G3): parallel / sequence / block packages.
//@@ unit U-gen
//@@ default props=C16 rewrites=R1,R2,R3,R5,R13 ghost="Tracked(g): Tracked<&mut GenLog>" ghostarg="Tracked(g)"
//@@ heapmethods build_acts
use vstd::prelude::*;
use std::sync::Arc;
verus! {
//@@ include prelude/std_specs.rs
//@@ include prelude/consts.rs

#[verifier::external_body]
pub struct JsonValue { _p: u8 }
impl Clone for JsonValue { #[verifier::external_body] fn clone(&self) -> (r: Self) ensures r == *self { unimplemented!() } }
pub uninterp spec fn jv<T>(v: T) -> JsonValue;       // serde_json::json!(v)
#[verifier::external_body]
pub struct Vars { _p: u8 }
impl Vars {
    pub uninterp spec fn view(&self) -> Map<Seq<char>, JsonValue>;
    // model/vars.rs (ASSUMED map semantics): new / with / append (serde_json::Map::append MOVES all entries out of `other`)
    #[verifier::external_body]
    pub fn new() -> (r: Self) ensures r@ == Map::<Seq<char>, JsonValue>::empty() { unimplemented!() }
    #[verifier::external_body]
    pub fn with<T>(self, name: &str, value: T) -> (r: Self) ensures r@ == self@.insert(name@, jv(value)) { unimplemented!() }
    // extend: the entries of `vars` are copied in and overwrite existing keys (serde_json::Map::extend)
    #[verifier::external_body]
    pub fn extend(self, vars: Vars) -> (r: Self) ensures r@ == self@.union_prefer_right(vars@) { unimplemented!() }
    #[verifier::external_body]
    pub fn set<T>(&mut self, name: &str, value: T) ensures final(self)@ == old(self)@.insert(name@, jv(value)) { unimplemented!() }
    #[verifier::external_body]
    pub fn append(&mut self, other: &mut Vars)
        ensures final(self)@ == old(self)@.union_prefer_right(old(other)@), final(other)@ == Map::<Seq<char>, JsonValue>::empty() { unimplemented!() }
}
// model/act.rs Act: the fields the generators touch
pub struct Act { pub id: String, pub uses: String, pub params: JsonValue, pub options: Vars, pub rest: ActRest }
#[verifier::external_body]
pub struct ActRest { _p: u8 }
impl Clone for Vars { #[verifier::external_body] fn clone(&self) -> (r: Self) ensures r == *self { unimplemented!() } }
impl Clone for Act { #[verifier::external_body] fn clone(&self) -> (r: Self) ensures r == *self { unimplemented!() } }
impl Default for Act { #[verifier::external_body] fn default() -> (r: Self) { unimplemented!() } }
pub struct ActError {}
pub type Result<T> = std::result::Result<T, ActError>;
//@@ extract file=acts/src/package/core/block.rs item="enum RunningMode" name=RunningMode
//@@ opt structural
//@@ end
//@@ extract file=acts/src/package/core/block.rs item="struct BlockPackage" name=BlockPackage
//@@ opt dropderive=Clone
//@@ end
//@@ extract file=acts/src/package/core/parallel.rs item="struct ParallelPackage" name=ParallelPackage
//@@ opt dropderive=Clone
//@@ end
//@@ extract file=acts/src/package/core/sequence.rs item="struct SequencePackage" name=SequencePackage
//@@ opt dropderive=Clone
//@@ end
pub uninterp spec fn block_params(mode: RunningMode, acts: Seq<Act>) -> JsonValue;
pub mod serde_json {
    use vstd::prelude::*;
    use super::{BlockPackage, JsonValue, ActError, block_params};
    verus! {
    // TRUSTED: serde_json::to_value(BlockPackage{..}) is a function of the block (derive-generated Serialize)
    #[verifier::external_body]
    pub fn to_value(b: BlockPackage) -> (r: Result<JsonValue, ActError>) ensures r is Ok ==> r->Ok_0 == block_params(b.mode, b.acts@) { unimplemented!() }
    }
}
pub ghost struct GenLog { pub built: Seq<(Seq<Act>, bool)> }        // Context::build_acts(acts, is_sequence) calls
#[verifier::external_body]
pub struct Context { _p: u8 }
#[verifier::external_body]
pub struct Task { _p: u8 }
impl Context {
    pub uninterp spec fn s_options(&self) -> Vars;
    // context.rs: build_acts (run-time node construction: U-tree): logged
    #[verifier::external_body]
    pub fn build_acts(&self, acts: &Vec<Act>, is_sequence: bool, Tracked(g): Tracked<&mut GenLog>) -> (r: Result<()>)
        ensures *final(g) == (GenLog { built: old(g).built.push((acts@, is_sequence)) }) { unimplemented!() }
    pub uninterp spec fn s_task(&self) -> Arc<Task>;
    #[verifier::external_body]
    pub fn task(&self) -> (r: Arc<Task>) ensures r == self.s_task() { unimplemented!() }
}
impl Task {
    // task.rs: options() = the act node's options (for a generated block act: {$index, $value})
    pub uninterp spec fn s_options(&self) -> Vars;
    #[verifier::external_body]
    pub fn options(&self) -> (r: Vars) ensures r == self.s_options() { unimplemented!() }
}
// one generated group act: the block package in sequence mode over the generator's acts, with its own index and value
pub open spec fn group_act(a: Act, i: int, value: JsonValue, acts: Seq<Act>) -> bool {
    a.uses@ == "acts.core.block"@ && a.params == block_params(RunningMode::Sequence, acts)
        && a.options@ == Map::<Seq<char>, JsonValue>::empty().insert(consts::ACT_INDEX@, jv(i as usize)).insert(consts::ACT_VALUE@, jv(&value))
}
pub open spec fn generated(log: GenLog, old_log: GenLog, ins: Seq<JsonValue>, acts: Seq<Act>, seq: bool) -> bool {
    &&& log.built.len() == old_log.built.len() + 1 && log.built.last().1 == seq && log.built.last().0.len() == ins.len()
    &&& forall|i: int| 0 <= i < ins.len() ==> group_act(#[trigger] log.built.last().0[i], i, ins[i], acts)
}

impl ParallelPackage {
//@@ extract file=acts/src/package/core/parallel.rs in="impl ActPackageFn for ParallelPackage" item="fn execute" name=ParallelPackage::execute
//@@ rw R12 `for ( index , value ) in self . r#in . iter ( ) . enumerate ( ) $B:block` => `{ let mut index: usize = 0; while index < self.r#in.len() { let value = &self.r#in[index]; $B index = index + 1; } }`
//@@ rw R7 `let mut acts = Vec :: new ( ) ;` => `let mut acts: Vec<Act> = Vec::new();`
//@@ spec
    ensures
        //# G1-one-group-per-element-all-at-once
        ret is Ok ==> generated(*final(g), *old(g), self.r#in@, self.acts@, false),
//@@ loop 1
    invariant
        //# groups-so-far
        index <= self.r#in@.len() && acts@.len() == index && *g == *old(g) && forall|i: int| 0 <= i < index ==> group_act(#[trigger] acts@[i], i, self.r#in@[i], self.acts@),
    decreases self.r#in@.len() - index
//@@ end
}
impl SequencePackage {
//@@ extract file=acts/src/package/core/sequence.rs in="impl ActPackageFn for SequencePackage" item="fn execute" name=SequencePackage::execute
//@@ rw R12 `for ( index , value ) in self . r#in . iter ( ) . enumerate ( ) $B:block` => `{ let mut index: usize = 0; while index < self.r#in.len() { let value = &self.r#in[index]; $B index = index + 1; } }`
//@@ rw R7 `let mut acts = Vec :: new ( ) ;` => `let mut acts: Vec<Act> = Vec::new();`
//@@ spec
    ensures
        //# G1-one-group-per-element-in-list-order
        ret is Ok ==> generated(*final(g), *old(g), self.r#in@, self.acts@, true),
//@@ loop 1
    invariant
        //# groups-so-far
        index <= self.r#in@.len() && acts@.len() == index && *g == *old(g) && forall|i: int| 0 <= i < index ==> group_act(#[trigger] acts@[i], i, self.r#in@[i], self.acts@),
    decreases self.r#in@.len() - index
//@@ end
}


impl BlockPackage {
//@@ extract file=acts/src/package/core/block.rs in="impl ActPackageFn for BlockPackage" item="fn execute" name=BlockPackage::execute
//@@ rw R23 `for act in acts . iter_mut ( ) $B:block` => `{ let mut __k: usize = 0; while __k < acts.len() { let mut act_v = acts[__k].clone(); { let act = &mut act_v; $B } acts.set(__k, act_v); __k = __k + 1; } }`
//@@ spec
    ensures
        //# G3-built-as-the-block-says
        ret is Ok ==> final(g).built.len() == old(g).built.len() + 1 && final(g).built.last().1 == (self.mode == RunningMode::Sequence) && final(g).built.last().0.len() == self.acts@.len(),
        //# G3-every-inner-act-sees-the-groups-options
        ret is Ok ==> forall|i: int, k: Seq<char>| 0 <= i < self.acts@.len() && #[trigger] ctx.s_task().s_options()@.dom().contains(k)
            ==> (#[trigger] final(g).built.last().0[i]).options@.dom().contains(k) && final(g).built.last().0[i].options@[k] == ctx.s_task().s_options()@[k],
//@@ loop 1
    invariant
        //# options-appended-so-far
        __k <= acts@.len() && acts@.len() == self.acts@.len() && *g == *old(g) && option == ctx.s_task().s_options()
            && forall|i: int, k: Seq<char>| 0 <= i < __k && #[trigger] option@.dom().contains(k) ==> (#[trigger] acts@[i]).options@.dom().contains(k) && acts@[i].options@[k] == option@[k],
    decreases acts@.len() - __k
//@@ end
}
} // verus!
fn main() {}
