// U-sqlq: the SQL translation of a query filter on the SQLite back end (store/sqlite/src/collection.rs: into_query, into_cond,
// json_to_sea_value) -- C10: "a query returns exactly the records satisfying its AND/OR filter ... The two backends return the same answers".
// The sea_query builders are a ghost condition tree; the three functions are cut out of /repo and proved EQUAL to a translation written from the
// statement: every comparison becomes the SQL operator of the same name on the column of the same name with the value of the same JSON scalar,
// `== null` / `!= null` become IS NULL / IS NOT NULL, an AND condition becomes ALL, an OR condition ANY, and the conditions are ANDed.
// TRUSTED: sea_query's builder methods build what their names say (Cond::all / any / add, Expr::col(..).eq / ne / lt / lte / gt / gte / is_null /
// is_not_null, into_condition), serde_json::Number accessors; the SQL engine evaluates the condition tree (not modelled).
//@@ unit U-sqlq
//@@ default props=C10 rewrites=R1,R2,R3,R5,R13,R15
use vstd::prelude::*;
verus! {
//@@ include prelude/sqlcond.rs
//@@ extract file=store/sqlite/src/collection.rs item="fn json_to_sea_value" name=json_to_sea_value
//@@ spec
    ensures
        //# Q5-a-json-scalar-becomes-the-sql-value-of-the-same-kind-and-value
        match tr_value(value) { Some(v) => ret is Some && val_view(ret->Some_0) == v, None => ret is None },
//@@ end
//@@ extract file=store/sqlite/src/collection.rs item="fn into_cond" name=into_cond
//@@ spec
    requires translatable(*expr)
    ensures
        //# Q5-a-comparison-becomes-the-sql-operator-of-the-same-name-on-the-same-column-and-value
        ret@ == tr_expr(*expr),
//@@ end
//@@ extract file=store/sqlite/src/collection.rs item="fn into_query" name=into_query
//@@ opt attr="#[verifier::loop_isolation(false)]"
//@@ spec
    requires forall|i: int, j: int| 0 <= i < q.conds@.len() && 0 <= j < q.conds@[i].conds@.len() ==> translatable(#[trigger] q.conds@[i].conds@[j])
    ensures
        //# Q5-and-becomes-all-or-becomes-any-and-the-conditions-are-anded
        ret@ == tr_query(*q),
//@@ proof at=start
        let ghost q0 = *q;
        proof {
            assert(q0.conds@.take(0).map_values(|c: Cond| tr_cond(c)) =~= Seq::<SqlCond>::empty());
            if q0.conds@.len() == 0 { assert(q0.conds@.map_values(|c: Cond| tr_cond(c)) =~= Seq::<SqlCond>::empty()); }
        }
//@@ proof at=beforeloop2
                proof { assert(cond.conds@.take(0).map_values(|e: Expr| tr_expr(e)) =~= Seq::<SqlCond>::empty()); }
//@@ loop 1
        invariant
            //# conditions-translated-so-far
            __v1@ == q0.conds@ && filter@ == SqlCond::All(q0.conds@.take(__i1 as int).map_values(|c: Cond| tr_cond(c))),
//@@ proof at=loop1
                proof {
                    let cs = q0.conds@;
                    assert(cs.take(__i1 as int + 1).map_values(|c: Cond| tr_cond(c)) =~= cs.take(__i1 as int).map_values(|c: Cond| tr_cond(c)).push(tr_cond(cs[__i1 as int])));
                }
//@@ loop 2
        invariant
            //# expressions-translated-so-far
            __v2@ == cond.conds@ && *cond == q0.conds@[__i1 as int - 1] && 0 < __i1 <= q0.conds@.len()
                && sea_cond@ == (match cond.r#type { CondType::And => SqlCond::All(cond.conds@.take(__i2 as int).map_values(|e: Expr| tr_expr(e))),
                                                    CondType::Or => SqlCond::Any(cond.conds@.take(__i2 as int).map_values(|e: Expr| tr_expr(e))) }),
//@@ proof at=loop2
                    proof {
                        let es = cond.conds@;
                        assert(es.take(__i2 as int + 1).map_values(|e: Expr| tr_expr(e)) =~= es.take(__i2 as int).map_values(|e: Expr| tr_expr(e)).push(tr_expr(es[__i2 as int])));
                        assert(translatable(q0.conds@[__i1 as int - 1].conds@[__i2 as int]));
                    }
//@@ proof at=afterloop2
                proof { assert(cond.conds@.take(cond.conds@.len() as int) =~= cond.conds@); }
//@@ proof at=afterloop1
        proof { assert(q0.conds@.take(q0.conds@.len() as int) =~= q0.conds@); }
//@@ end
} // verus!
fn main() {}
