// U-value: the script boundary for numbers (C14): the `Number` arm of `impl IntoJs for ActValue` (acts/src/env/value.rs), lifted (R9b),
// hands a workflow number to the script engine with the same value: "numbers that are exact in a double, i.e. integers up to 2^53
// and finite floats ... seen with the same value inside conditions and scripts".
// TRUSTED: serde_json::Number accessors and the rquickjs constructors JsValue::new_int / new_float as modelled below; an i64 of
// magnitude <= 2^53 converts to f64 exactly (`as f64`).  Strings, arrays, objects and the JS -> JSON direction are not in this unit
// (iterator chains over rquickjs types); they are covered by the bounded driver replay/value_roundtrip.rs only.
//@@ unit U-value
//@@ default props=C14 rewrites=R1,R2,R3,R5,R13
use vstd::prelude::*;
verus! {
pub enum NumV { I(int), U(int), F(int) }      // i64-valued, u64-valued beyond i64, float (opaque id)
#[verifier::external_body]
pub struct Number { _p: u8 }
impl Number {
    pub uninterp spec fn view(&self) -> NumV;
    #[verifier::external_body]
    pub fn is_i64(&self) -> (r: bool) ensures r == (self@ is I) { unimplemented!() }
    #[verifier::external_body]
    pub fn is_u64(&self) -> (r: bool) ensures r == (self@ is I && self@->I_0 >= 0 || self@ is U) { unimplemented!() }
    #[verifier::external_body]
    pub fn is_f64(&self) -> (r: bool) ensures r == (self@ is F) { unimplemented!() }
    #[verifier::external_body]
    pub fn as_i64(&self) -> (r: Option<i64>)
        ensures match self@ { NumV::I(i) => r == Some(i as i64) && i64::MIN <= i <= i64::MAX, _ => r is None } { unimplemented!() }
    #[verifier::external_body]
    pub fn as_u64(&self) -> (r: Option<u64>)
        ensures match self@ { NumV::I(i) => (i >= 0 ==> r == Some(i as u64)) && (i < 0 ==> r is None), NumV::U(u) => r == Some(u as u64) && i64::MAX < u <= u64::MAX, _ => r is None } { unimplemented!() }
    #[verifier::external_body]
    pub fn as_f64(&self) -> (r: Option<f64>) ensures r is Some, fval(r->Some_0) == num_float(self@) { unimplemented!() }
}
// the mathematical value of an f64 (abstract) and the float a JSON number converts to
pub uninterp spec fn fval(x: f64) -> FloatV;
pub enum FloatV { Exact(int), Other(int) }          // an integer-valued double, or any other double (opaque id)
pub uninterp spec fn num_float(n: NumV) -> FloatV;
// ASSUMED (IEEE 754): an integer of magnitude <= 2^53 is exact in a double
pub const TWO53: i64 = 9007199254740992;
#[verifier::external_body]
pub broadcast proof fn axiom_int_exact(i: int) requires -9007199254740992 <= i <= 9007199254740992 ensures #[trigger] num_float(NumV::I(i)) == FloatV::Exact(i) {}
// R7: `x as f64` on an i64 / u64
#[verifier::external_body]
pub fn i64_as_f64(x: i64) -> (r: f64) ensures -9007199254740992 <= x <= 9007199254740992 ==> fval(r) == FloatV::Exact(x as int) { unimplemented!() }
#[verifier::external_body]
pub fn u64_as_f64(x: u64) -> (r: f64) ensures x <= 9007199254740992 ==> fval(r) == FloatV::Exact(x as int) { unimplemented!() }

// rquickjs, as far as the arm uses it
pub enum JsV { Null, Bool(bool), Int(int), Float(FloatV), Str(Seq<char>), Other(int) }
#[verifier::external_body]
pub struct Ctx { _p: u8 }
impl Clone for Ctx { #[verifier::external_body] fn clone(&self) -> (r: Self) { unimplemented!() } }
#[verifier::external_body]
pub struct JsValue { _p: u8 }
impl JsValue {
    pub uninterp spec fn view(&self) -> JsV;
    #[verifier::external_body]
    pub fn new_int(ctx: Ctx, v: i32) -> (r: JsValue) ensures r@ == JsV::Int(v as int) { unimplemented!() }
    #[verifier::external_body]
    pub fn new_float(ctx: Ctx, v: f64) -> (r: JsValue) ensures r@ == JsV::Float(fval(v)) { unimplemented!() }
    #[verifier::external_body]
    pub fn new_null(ctx: Ctx) -> (r: JsValue) ensures r@ == JsV::Null { unimplemented!() }
    #[verifier::external_body]
    pub fn new_bool(ctx: Ctx, v: bool) -> (r: JsValue) ensures r@ == JsV::Bool(v) { unimplemented!() }
    #[verifier::external_body]
    pub fn from_string(s: JsString) -> (r: JsValue) ensures r@ == JsV::Str(s.text()) { unimplemented!() }
    // accessors: Some with the value when the JS value has that type
    #[verifier::external_body]
    pub fn as_bool(&self) -> (r: Option<bool>) ensures self@ is Bool ==> r == Some(self@->Bool_0) { unimplemented!() }
    #[verifier::external_body]
    pub fn as_int(&self) -> (r: Option<i32>) ensures self@ is Int ==> r is Some && r->Some_0 as int == self@->Int_0 { unimplemented!() }
    #[verifier::external_body]
    pub fn as_float(&self) -> (r: Option<f64>) ensures self@ is Float ==> r is Some && fval(r->Some_0) == self@->Float_0 { unimplemented!() }
    #[verifier::external_body]
    pub fn as_string(&self) -> (r: Option<&JsString>) ensures self@ is Str ==> r is Some && r->Some_0.text() == self@->Str_0 { unimplemented!() }
}
#[verifier::external_body]
pub struct JsString { _p: u8 }
impl JsString {
    pub uninterp spec fn text(&self) -> Seq<char>;
    #[verifier::external_body]
    pub fn from_str(ctx: Ctx, s: &String) -> (r: JsResult<JsString>) ensures r is Ok, r->Ok_0.text() == s@ { unimplemented!() }
    // rquickjs String::to_string: the text of a well-formed string
    #[verifier::external_body]
    pub fn to_string(&self) -> (r: JsResult<String>) ensures r is Ok, r->Ok_0@ == self.text() { unimplemented!() }
}
// R7: `.unwrap_or(String::from(""))` on the Result of to_string
#[verifier::external_body]
pub fn or_empty(r: JsResult<String>) -> (s: String) ensures r is Ok ==> s == r->Ok_0 { unimplemented!() }
// scalar arms of into_js
//@@ extract file=acts/src/env/value.rs in="impl<'js> IntoJs<'js> for ActValue" item="fn into_js" arm="serde_json::Value::Null" name=ActValue::into_js::null sig="pub fn into_js_null(ctx: &Ctx) -> JsValue"
//@@ spec
    ensures
        //# J1-null-is-seen-as-null
        ret@ == JsV::Null,
//@@ end
//@@ extract file=acts/src/env/value.rs in="impl<'js> IntoJs<'js> for ActValue" item="fn into_js" arm="serde_json::Value::Bool(v)" name=ActValue::into_js::bool sig="pub fn into_js_bool(v: bool, ctx: &Ctx) -> JsValue"
//@@ spec
    ensures
        //# J1-a-boolean-is-seen-with-the-same-value
        ret@ == JsV::Bool(v),
//@@ end
//@@ extract file=acts/src/env/value.rs in="impl<'js> IntoJs<'js> for ActValue" item="fn into_js" arm="serde_json::Value::String(v)" name=ActValue::into_js::string sig="pub fn into_js_string(v: String, ctx: &Ctx) -> JsValue"
//@@ spec
    ensures
        //# J1-a-string-is-seen-with-the-same-text
        ret@ == JsV::Str(v@),
//@@ end
// ---- oracle (statement): the number the script sees is the workflow's number
pub open spec fn js_number_is(js: JsV, n: NumV) -> bool {
    match n {
        NumV::I(i) => js == JsV::Int(i) || js == JsV::Float(FloatV::Exact(i)),
        NumV::U(u) => js == JsV::Float(FloatV::Exact(u)),
        NumV::F(_) => js == JsV::Float(num_float(n)),
    }
}

//@@ extract file=acts/src/env/value.rs in="impl<'js> IntoJs<'js> for ActValue" item="fn into_js" arm="serde_json::Value::Number(v)" name=ActValue::into_js::number sig="pub fn into_js_number(v: Number, ctx: &Ctx) -> JsValue"
//@@ rw R7 `$X:id as f64` => `i64_as_f64($X)`
//@@ spec
    ensures
        //# J1-an-integer-up-to-2^53-or-a-float-is-seen-with-the-same-value
        (match v@ { NumV::I(i) => -9007199254740992 <= i <= 9007199254740992, NumV::U(_) => false, NumV::F(_) => true }) ==> js_number_is(ret@, v@),
//@@ end
// ---- JS -> JSON, Object arm of `impl FromJs for ActValue`
pub enum JsonT { Null, Bool(bool), Int(int), Float(FloatV), Str(Seq<char>), Obj(Map<Seq<char>, JsonT>), Other(int) }
#[verifier::external_body]
pub struct JsonValue { _p: u8 }
impl JsonValue { pub uninterp spec fn view(&self) -> JsonT; }

// ---- JS -> JSON, scalar arms of `impl FromJs for ActValue`
pub trait ToJson: Sized { spec fn tj(&self) -> JsonT; }
impl ToJson for bool { open spec fn tj(&self) -> JsonT { JsonT::Bool(*self) } }
impl ToJson for i32 { open spec fn tj(&self) -> JsonT { JsonT::Int(*self as int) } }
impl ToJson for i64 { open spec fn tj(&self) -> JsonT { JsonT::Int(*self as int) } }
impl ToJson for f64 { open spec fn tj(&self) -> JsonT { JsonT::Float(fval(*self)) } }
impl ToJson for String { open spec fn tj(&self) -> JsonT { JsonT::Str(self@) } }
// R7: `serde_json::json!(x)` of a scalar; `serde_json::json!(null)`
#[verifier::external_body]
pub fn json_of<T: ToJson>(x: T) -> (r: JsonValue) ensures r@ == x.tj() { unimplemented!() }
#[verifier::external_body]
pub fn json_null() -> (r: JsonValue) ensures r@ == JsonT::Null { unimplemented!() }
// oracle (statement): "a value returned or set by a script is stored unchanged"
pub open spec fn scalar_image(js: JsV) -> JsonT {
    match js { JsV::Null => JsonT::Null, JsV::Bool(b) => JsonT::Bool(b), JsV::Int(i) => JsonT::Int(i), JsV::Float(f) => JsonT::Float(f), JsV::Str(s) => JsonT::Str(s), JsV::Other(k) => JsonT::Other(k) }
}
//@@ extract file=acts/src/env/value.rs in="impl<'js> FromJs<'js> for ActValue" item="fn from_js" arm="rquickjs::Type::Null | rquickjs::Type::Undefined | rquickjs::Type::Uninitialized" name=ActValue::from_js::null sig="pub fn from_js_null(ctx: &Ctx, v: JsValue) -> JsResult<JsonValue>"
//@@ rw R7 `serde_json :: json ! ( null )` => `json_null()`
//@@ spec
    ensures
        //# J2-null-and-undefined-are-stored-as-null
        ret is Ok && ret->Ok_0@ == JsonT::Null,
//@@ end
//@@ extract file=acts/src/env/value.rs in="impl<'js> FromJs<'js> for ActValue" item="fn from_js" arm="rquickjs::Type::Bool" name=ActValue::from_js::bool sig="pub fn from_js_bool(ctx: &Ctx, v: JsValue) -> JsResult<JsonValue>"
//@@ rw R7 `serde_json :: json ! ( $A:args )` => `json_of($A)`
//@@ spec
    requires v@ is Bool
    ensures
        //# J2-a-boolean-is-stored-unchanged
        ret is Ok && ret->Ok_0@ == scalar_image(v@),
//@@ end
//@@ extract file=acts/src/env/value.rs in="impl<'js> FromJs<'js> for ActValue" item="fn from_js" arm="rquickjs::Type::Int" name=ActValue::from_js::int sig="pub fn from_js_int(ctx: &Ctx, v: JsValue) -> JsResult<JsonValue>"
//@@ rw R7 `serde_json :: json ! ( $A:args )` => `json_of($A)`
//@@ spec
    requires v@ is Int
    ensures
        //# J2-an-integer-is-stored-unchanged
        ret is Ok && ret->Ok_0@ == scalar_image(v@),
//@@ end
//@@ extract file=acts/src/env/value.rs in="impl<'js> FromJs<'js> for ActValue" item="fn from_js" arm="rquickjs::Type::Float" name=ActValue::from_js::float sig="pub fn from_js_float(ctx: &Ctx, v: JsValue) -> JsResult<JsonValue>"
//@@ rw R7 `serde_json :: json ! ( $A:args )` => `json_of($A)`
//@@ spec
    requires v@ is Float
    ensures
        //# J2-a-float-is-stored-as-the-same-double
        ret is Ok && ret->Ok_0@ == scalar_image(v@),
//@@ end
//@@ extract file=acts/src/env/value.rs in="impl<'js> FromJs<'js> for ActValue" item="fn from_js" arm="rquickjs::Type::String" name=ActValue::from_js::string sig="pub fn from_js_string(ctx: &Ctx, v: JsValue) -> JsResult<JsonValue>"
//@@ rw R7 `. unwrap_or ( String :: from ( "" ) )` => `.or_empty_s()`
//@@ rw R7 `serde_json :: json ! ( $A:args )` => `json_of($A)`
//@@ spec
    requires v@ is Str
    ensures
        //# J2-a-string-is-stored-with-the-same-text
        ret is Ok && ret->Ok_0@ == scalar_image(v@),
//@@ end
pub trait OrEmpty { fn or_empty_s(self) -> String; }
impl OrEmpty for JsResult<String> {
    #[verifier::external_body]
    fn or_empty_s(self) -> (s: String) ensures self is Ok ==> s == self->Ok_0 { unimplemented!() }
}
#[verifier::external_body]
pub struct JsonMap { _p: u8 }
impl JsonMap {
    pub uninterp spec fn view(&self) -> Map<Seq<char>, JsonT>;
    #[verifier::external_body]
    pub fn new() -> (r: Self) ensures r@ == Map::<Seq<char>, JsonT>::empty() { unimplemented!() }
    #[verifier::external_body]
    pub fn insert(&mut self, k: String, v: JsonValue) ensures final(self)@ == old(self)@.insert(k@, v@) { unimplemented!() }
}
// R7: `serde_json::Value::Object(value)`
#[verifier::external_body]
pub fn json_object(m: JsonMap) -> (r: JsonValue) ensures r@ == JsonT::Obj(m@) { unimplemented!() }
#[derive(Debug)]
pub struct JsError {}
pub type JsResult<T> = std::result::Result<T, JsError>;
// a JS object: its own enumerable string keys (in order) and members
#[verifier::external_body]
pub struct JsObject { _p: u8 }
impl JsObject {
    pub uninterp spec fn keys_spec(&self) -> Seq<Seq<char>>;
    pub uninterp spec fn member(&self, k: Seq<char>) -> JsValue;
    #[verifier::external_body]
    pub fn new(ctx: Ctx) -> (r: JsResult<JsObject>) { unimplemented!() }
}
// the JSON image of a JS value (the result of ActValue::from_js: the function this arm belongs to; recursion = its own contract)
pub uninterp spec fn json_of_js(v: JsValue) -> JsonT;
pub uninterp spec fn js_obj_of(v: JsValue) -> JsObject;
// R7: `v.as_object().unwrap_or(&inner)` for a value of type Object
#[verifier::external_body]
pub fn js_as_object<'a>(v: &'a JsValue, inner: &'a JsObject) -> (r: &'a JsObject) ensures *r == js_obj_of(*v) { unimplemented!() }
// R7 (exact token match): `object.keys::<String>().filter_map(|v| v.ok()).collect::<Vec<_>>()` = the object's keys
#[verifier::external_body]
pub fn js_keys(o: &JsObject) -> (r: Vec<String>) ensures r@.map_values(|s: String| s@) == o.keys_spec(), o.keys_spec().no_duplicates() { unimplemented!() }
// R7 (exact token match): `keys.iter().filter_map(|key| match object.get::<String, JsValue>(key.clone()) { Ok(value) => Ok((key, value)), Err(err) => Err(err) }.ok()).collect::<Vec<_>>()`
// = every key with its member read as a JsValue (null and undefined members included: a JsValue read never drops them)
#[verifier::external_body]
pub fn js_members(o: &JsObject, keys: &Vec<String>) -> (r: Vec<(String, JsValue)>)
    ensures r@.len() == keys@.len(), forall|i: int| 0 <= i < keys@.len() ==> (#[trigger] r@[i]).0@ == keys@[i]@ && r@[i].1 == o.member(keys@[i]@) { unimplemented!() }
#[verifier::external_body]
pub fn clone_string(s: &String) -> (r: String) ensures r@ == s@ { unimplemented!() }
pub struct ActValue {}
impl ActValue {
    // the recursive call: ASSUMED to meet the contract of the whole function (result = JSON image of the JS value)
    #[verifier::external_body]
    pub fn from_js_value(ctx: &Ctx, v: JsValue) -> (r: JsResult<JsonValue>) ensures r is Ok ==> r->Ok_0@ == json_of_js(v) { unimplemented!() }
}
// oracle (statement): "a value returned or set by a script is stored unchanged": the JSON object has exactly the keys of the JS
// object and under each key the JSON image of the member
pub open spec fn object_image(o: JsObject, m: Map<Seq<char>, JsonT>) -> bool {
    &&& forall|k: Seq<char>| m.dom().contains(k) <==> o.keys_spec().contains(k)
    &&& forall|k: Seq<char>| o.keys_spec().contains(k) ==> #[trigger] m[k] == json_of_js(o.member(k))
}

//@@ extract file=acts/src/env/value.rs in="impl<'js> FromJs<'js> for ActValue" item="fn from_js" arm="rquickjs::Type::Object" name=ActValue::from_js::object sig="pub fn from_js_object(ctx: &Ctx, v: JsValue) -> JsResult<JsonValue>"
//@@ opt rewrites=R1,R2,R3,R5,R13,R15
//@@ rw R7 `serde_json :: Map :: < String , serde_json :: Value > :: new ( )` => `JsonMap::new()`
//@@ rw R7 `v . as_object ( ) . unwrap_or ( & inner )` => `js_as_object(&v, &inner)`
//@@ rw R7 `object . keys :: < String > ( ) . filter_map ( | v | v . ok ( ) ) . collect :: < Vec < _ > > ( )` => `js_keys(object)`
//@@ rw R7 `keys . iter ( ) . filter_map ( | key | { match object . get :: < String , JsValue > ( key . clone ( ) ) { Ok ( value ) => Ok ( ( key , value ) ) , Err ( err ) => Err ( err ) , } . ok ( ) } ) . collect :: < Vec < _ > > ( )` => `js_members(object, &keys)`
//@@ rw R7 `value . insert ( k . clone ( ) , ActValue :: from_js ( ctx , v ) ? . into ( ) )` => `value.insert(clone_string(k), ActValue::from_js_value(ctx, js_clone(v))?)`
//@@ rw R7 `Ok ( serde_json :: Value :: Object ( value ) )` => `Ok(json_object(value))`
//@@ spec
    ensures
        //# J2-an-object-returned-by-a-script-keeps-every-member
        ret is Ok ==> exists|m: Map<Seq<char>, JsonT>| ret->Ok_0@ == JsonT::Obj(m) && #[trigger] object_image(js_obj_of(v), m),
//@@ proof at=afterloop1
                proof {
                    let ks = object.keys_spec();
                    let kv = keys@.map_values(|s: String| s@);
                    assert forall|k: Seq<char>| value@.dom().contains(k) <==> ks.contains(k) by {
                        if ks.contains(k) { let j = choose|j: int| 0 <= j < ks.len() && ks[j] == k; assert(kv[j] == keys@[j]@); }
                        if value@.dom().contains(k) { let j = choose|j: int| 0 <= j < __i1 && #[trigger] keys@[j]@ == k; assert(kv[j] == keys@[j]@); assert(ks[j] == k); }
                    }
                    assert forall|k: Seq<char>| ks.contains(k) implies #[trigger] value@[k] == json_of_js(object.member(k)) by {
                        let j = choose|j: int| 0 <= j < ks.len() && ks[j] == k; assert(kv[j] == keys@[j]@);
                        assert(value@[keys@[j]@] == json_of_js(object.member(keys@[j]@)));
                    }
                    assert(object_image(js_obj_of(v), value@));
                }
//@@ loop 1
        invariant
            //# members-so-far
            __v1@.len() == keys@.len() && keys@.map_values(|s: String| s@) == object.keys_spec() && object.keys_spec().no_duplicates() && *object == js_obj_of(v)
                && (forall|i: int| 0 <= i < keys@.len() ==> (#[trigger] __v1@[i]).0@ == keys@[i]@ && __v1@[i].1 == object.member(keys@[i]@))
                && (forall|k: Seq<char>| value@.dom().contains(k) <==> exists|j: int| 0 <= j < __i1 && #[trigger] keys@[j]@ == k)
                && (forall|j: int| 0 <= j < __i1 ==> value@[(#[trigger] keys@[j])@] == json_of_js(object.member(keys@[j]@))),
//@@ end
// R15 iterates the member list by reference; the JsValue handle handed to the recursive call is the same value
#[verifier::external_body]
pub fn js_clone(v: &JsValue) -> (r: JsValue) ensures r == *v { unimplemented!() }
// ---- JSON -> JS, Array arm of `impl IntoJs for ActValue`: "arrays ... are seen with the same value inside conditions and scripts"
// a JS array under construction (rquickjs Array: interior mutability behind a handle; modelled as a mutable sequence)
#[verifier::external_body]
pub struct JsArrayM { _p: u8 }
impl JsArrayM {
    pub uninterp spec fn view(&self) -> Seq<JsValue>;
    // R7: `JsArray::new(ctx.clone()).unwrap()`
    #[verifier::external_body]
    pub fn new(ctx: Ctx) -> (r: Self) ensures r@ == Seq::<JsValue>::empty() { unimplemented!() }
    // R7: `arr.set(idx, val).unwrap()`: element idx is written (appending when idx is the length)
    #[verifier::external_body]
    pub fn set_at(&mut self, idx: usize, val: JsValue)
        requires idx <= old(self)@.len()
        ensures final(self)@ == (if idx < old(self)@.len() { old(self)@.update(idx as int, val) } else { old(self)@.push(val) }) { unimplemented!() }
}
pub uninterp spec fn js_arr_of(v: JsValue) -> Seq<JsValue>;
// R7: `JsValue::from_array(arr)`
#[verifier::external_body]
pub fn js_from_array(arr: JsArrayM) -> (r: JsValue) ensures js_arr_of(r) == arr@ { unimplemented!() }
// the JS image of a JSON value (the result of ActValue::into_js: the function this arm belongs to; recursion = its own contract)
pub uninterp spec fn js_of_json(v: JsonValue) -> JsValue;
// R7: `ActValue(v.clone()).into_js(ctx).unwrap()`: the recursive call, ASSUMED to meet the contract of the whole function
#[verifier::external_body]
pub fn elem_into_js(v: &JsonValue, ctx: &Ctx) -> (r: JsValue) ensures r == js_of_json(*v) { unimplemented!() }
//@@ extract file=acts/src/env/value.rs in="impl<'js> IntoJs<'js> for ActValue" item="fn into_js" arm="serde_json::Value::Array(v)" name=ActValue::into_js::array sig="pub fn into_js_array(v: Vec<JsonValue>, ctx: &Ctx) -> JsValue"
//@@ opt rewrites=R1,R2,R3,R5,R13,R15
//@@ rw R7 `let arr = JsArray :: new ( ctx . clone ( ) ) . unwrap ( ) ;` => `let mut arr = JsArrayM::new(ctx.clone());`
//@@ rw R12 `for ( idx , v ) in v . iter ( ) . enumerate ( ) $B:block` => `let mut idx: usize = 0; for v in v.iter() { $B idx = idx + 1; }`
//@@ rw R7 `ActValue ( v . clone ( ) ) . into_js ( ctx ) . unwrap ( )` => `elem_into_js(v, ctx)`
//@@ rw R7 `arr . set ( idx , val ) . unwrap ( ) ;` => `arr.set_at(idx, val);`
//@@ rw R7 `JsValue :: from_array ( arr )` => `js_from_array(arr)`
//@@ spec
    ensures
        //# J1-an-array-is-seen-with-the-same-length-and-every-element-in-its-place
        js_arr_of(ret).len() == v@.len() && forall|i: int| 0 <= i < v@.len() ==> #[trigger] js_arr_of(ret)[i] == js_of_json(v@[i]),
//@@ loop 1
        invariant
            //# elements-so-far
            idx == __i1 && arr@.len() == __i1 && (forall|i: int| 0 <= i < __i1 ==> #[trigger] arr@[i] == js_of_json(__v1@[i])),
//@@ end
// ---- JSON -> JS, Object arm of `impl IntoJs for ActValue`
// a JSON object handed to a script: its entries (serde_json::Map iterates each key once)
#[verifier::external_body]
pub struct JsonObjIn { _p: u8 }
impl JsonObjIn {
    pub uninterp spec fn view(&self) -> Map<Seq<char>, JsonValue>;
    // R12: `for (k, v) in v`: the entries of the map, each key once
    #[verifier::external_body]
    pub fn entries(&self) -> (r: Vec<(String, JsonValue)>)
        ensures forall|i: int| 0 <= i < r@.len() ==> self@.dom().contains((#[trigger] r@[i]).0@) && self@[r@[i].0@] == r@[i].1,
            forall|i: int, j: int| 0 <= i < j < r@.len() ==> (#[trigger] r@[i]).0@ != (#[trigger] r@[j]).0@,
            forall|k: Seq<char>| self@.dom().contains(k) ==> exists|i: int| 0 <= i < r@.len() && (#[trigger] r@[i]).0@ == k { unimplemented!() }
}
// a JS object under construction (rquickjs Object handle; modelled as a mutable map)
#[verifier::external_body]
pub struct JsObjectM { _p: u8 }
impl JsObjectM {
    pub uninterp spec fn view(&self) -> Map<Seq<char>, JsValue>;
    // R7: `JsObject::new(ctx.clone()).unwrap()`
    #[verifier::external_body]
    pub fn new(ctx: Ctx) -> (r: Self) ensures r@ == Map::<Seq<char>, JsValue>::empty() { unimplemented!() }
    // R7: `obj.set(k.into_atom(ctx).unwrap(), <value>).unwrap()`: the member named k is written
    #[verifier::external_body]
    pub fn set_member(&mut self, k: String, v: JsValue) ensures final(self)@ == old(self)@.insert(k@, v) { unimplemented!() }
}
pub uninterp spec fn js_members_of(v: JsValue) -> Map<Seq<char>, JsValue>;
// R7: `JsValue::from_object(obj)`
#[verifier::external_body]
pub fn js_from_object(obj: JsObjectM) -> (r: JsValue) ensures js_members_of(r) == obj@ { unimplemented!() }
//@@ extract file=acts/src/env/value.rs in="impl<'js> IntoJs<'js> for ActValue" item="fn into_js" arm="serde_json::Value::Object(v)" name=ActValue::into_js::object sig="pub fn into_js_object(v: JsonObjIn, ctx: &Ctx) -> JsValue"
//@@ opt rewrites=R1,R2,R3,R5,R13,R15 attr="#[verifier::loop_isolation(false)]"
//@@ rw R7 `let obj = JsObject :: new ( ctx . clone ( ) ) . unwrap ( ) ;` => `let mut obj = JsObjectM::new(ctx.clone());`
//@@ rw R12 `for ( k , v ) in v $B:block` => `for (k, v) in v.entries().iter() $B`
//@@ rw R7 `obj . set ( k . into_atom ( ctx ) . unwrap ( ) , ActValue ( v ) . into_js ( ctx ) . unwrap ( ) ) . unwrap ( ) ;` => `obj.set_member(clone_string(k), elem_into_js(v, ctx));`
//@@ rw R7 `JsValue :: from_object ( obj )` => `js_from_object(obj)`
//@@ spec
    ensures
        //# J1-an-object-is-seen-with-exactly-its-keys-and-every-member-converted
        js_members_of(ret).dom() =~= v@.dom() && forall|k: Seq<char>| v@.dom().contains(k) ==> #[trigger] js_members_of(ret)[k] == js_of_json(v@[k]),
//@@ loop 1
        invariant
            //# members-so-far
            (forall|k: Seq<char>| #[trigger] obj@.dom().contains(k) <==> exists|i: int| 0 <= i < __i1 && (#[trigger] __v1@[i]).0@ == k)
                && (forall|i: int| 0 <= i < __i1 ==> obj@[(#[trigger] __v1@[i]).0@] == js_of_json(__v1@[i].1)),
//@@ end
} // verus!
fn main() {}
