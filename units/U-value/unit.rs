// U-value: the script boundary for numbers (C14): the `Number` arm of `impl IntoJs for ActValue` (acts/src/env/value.rs), lifted (R9b),
// hands a workflow number to the script engine with the same value: "numbers that are exact in a double, i.e. integers up to 2^53
// and finite floats ... seen with the same value inside conditions and scripts".
// TRUSTED: serde_json::Number accessors and the rquickjs constructors JsValue::new_int / new_float as modelled below; an i64 of
// magnitude <= 2^53 converts to f64 exactly (`as f64`).  Strings, arrays, objects and the JS -> JSON direction are not in this unit
// (iterator chains over rquickjs types); they are covered by the bounded driver replay/value_roundtrip.rs only.
//@@ unit U-value
//@@ default props=C14 rewrites=R1,R2,R3,R5,R13
use vstd::prelude::*;
verus! {
pub enum NumV { I(int), U(int), F(int) }      // i64-valued, u64-valued beyond i64, float (opaque id)
#[verifier::external_body]
pub struct Number { _p: u8 }
impl Number {
    pub uninterp spec fn view(&self) -> NumV;
    #[verifier::external_body]
    pub fn is_i64(&self) -> (r: bool) ensures r == (self@ is I) { unimplemented!() }
    #[verifier::external_body]
    pub fn is_u64(&self) -> (r: bool) ensures r == (self@ is I && self@->I_0 >= 0 || self@ is U) { unimplemented!() }
    #[verifier::external_body]
    pub fn is_f64(&self) -> (r: bool) ensures r == (self@ is F) { unimplemented!() }
    #[verifier::external_body]
    pub fn as_i64(&self) -> (r: Option<i64>)
        ensures match self@ { NumV::I(i) => r == Some(i as i64) && i64::MIN <= i <= i64::MAX, _ => r is None } { unimplemented!() }
    #[verifier::external_body]
    pub fn as_u64(&self) -> (r: Option<u64>)
        ensures match self@ { NumV::I(i) => (i >= 0 ==> r == Some(i as u64)) && (i < 0 ==> r is None), NumV::U(u) => r == Some(u as u64) && i64::MAX < u <= u64::MAX, _ => r is None } { unimplemented!() }
    #[verifier::external_body]
    pub fn as_f64(&self) -> (r: Option<f64>) ensures r is Some, fval(r->Some_0) == num_float(self@) { unimplemented!() }
}
// the mathematical value of an f64 (abstract) and the float a JSON number converts to
pub uninterp spec fn fval(x: f64) -> FloatV;
pub enum FloatV { Exact(int), Other(int) }          // an integer-valued double, or any other double (opaque id)
pub uninterp spec fn num_float(n: NumV) -> FloatV;
// ASSUMED (IEEE 754): an integer of magnitude <= 2^53 is exact in a double
pub const TWO53: i64 = 9007199254740992;
#[verifier::external_body]
pub broadcast proof fn axiom_int_exact(i: int) requires -9007199254740992 <= i <= 9007199254740992 ensures #[trigger] num_float(NumV::I(i)) == FloatV::Exact(i) {}
// R7: `x as f64` on an i64 / u64
#[verifier::external_body]
pub fn i64_as_f64(x: i64) -> (r: f64) ensures -9007199254740992 <= x <= 9007199254740992 ==> fval(r) == FloatV::Exact(x as int) { unimplemented!() }
#[verifier::external_body]
pub fn u64_as_f64(x: u64) -> (r: f64) ensures x <= 9007199254740992 ==> fval(r) == FloatV::Exact(x as int) { unimplemented!() }

// rquickjs, as far as the arm uses it
pub enum JsV { Int(int), Float(FloatV) }
#[verifier::external_body]
pub struct Ctx { _p: u8 }
impl Clone for Ctx { #[verifier::external_body] fn clone(&self) -> (r: Self) { unimplemented!() } }
#[verifier::external_body]
pub struct JsValue { _p: u8 }
impl JsValue {
    pub uninterp spec fn view(&self) -> JsV;
    #[verifier::external_body]
    pub fn new_int(ctx: Ctx, v: i32) -> (r: JsValue) ensures r@ == JsV::Int(v as int) { unimplemented!() }
    #[verifier::external_body]
    pub fn new_float(ctx: Ctx, v: f64) -> (r: JsValue) ensures r@ == JsV::Float(fval(v)) { unimplemented!() }
}
// ---- oracle (statement): the number the script sees is the workflow's number
pub open spec fn js_number_is(js: JsV, n: NumV) -> bool {
    match n {
        NumV::I(i) => js == JsV::Int(i) || js == JsV::Float(FloatV::Exact(i)),
        NumV::U(u) => js == JsV::Float(FloatV::Exact(u)),
        NumV::F(_) => js == JsV::Float(num_float(n)),
    }
}

//@@ extract file=acts/src/env/value.rs in="impl<'js> IntoJs<'js> for ActValue" item="fn into_js" arm="serde_json::Value::Number(v)" name=ActValue::into_js::number sig="pub fn into_js_number(v: Number, ctx: &Ctx) -> JsValue"
//@@ rw R7 `$X:id as f64` => `i64_as_f64($X)`
//@@ spec
    ensures
        //# J1-an-integer-up-to-2^53-or-a-float-is-seen-with-the-same-value
        (match v@ { NumV::I(i) => -9007199254740992 <= i <= 9007199254740992, NumV::U(_) => false, NumV::F(_) => true }) ==> js_number_is(ret@, v@),
//@@ end
} // verus!
fn main() {}
