// U-load: what comes back from the store (C12 L1/L2): Store::load_tasks, Store::load, Store::load_proc rebuild each process and each
// task as the image of ITS OWN row (state, times, timestamp, prev, data, hooks, err, node, model, env), field for field.
// The live objects under construction are a ghost table (`Live`): constructors add an entry, each one-line setter of
// process.rs / task.rs (TRUSTED primitive layer) writes one field of it, push_task appends the finished task to its process.
// Parsed values remember the text they were parsed from (`src`), so "the field of the object is the parse of the column of
// the row" is an equality of texts; the parsers themselves (serde) are outside the unit.
//@@ unit U-load
//@@ default props=C12 rewrites=R1,R2,R3,R5,R13,R15 ghost="Tracked(st): Tracked<&StoreAbs>, Tracked(l): Tracked<&mut Live>" ghostarg="Tracked(st)"
//@@ heapmethods query find
//@@ heapmethods2 "Tracked(l)" new_with_timestamp load set_pure_state set_start_time set_end_time set_env set_pure_err push_task set_prev set_data set_hooks
use vstd::prelude::*;
use std::sync::Arc;
use std::collections::HashMap;
verus! {
//@@ include prelude/std_specs.rs
//@@ include prelude/store.rs
//@@ include prelude/rows.rs
//@@ include prelude/storeabs.rs
//@@ include prelude/state.rs HAVE_MESSAGE_STATE=1

// R19b: the loop variable is lowered from an owned row to a borrowed one; fields that were moved out are cloned (same value)
#[verifier::external_body]
pub fn clone_string(s: &String) -> (r: String) ensures r@ == s@ { unimplemented!() }
#[verifier::external_body]
pub fn clone_opt_string(s: &Option<String>) -> (r: Option<String>) ensures opt_view(r) == opt_view(*s) { unimplemented!() }
pub open spec fn opt_view(o: Option<String>) -> Option<Seq<char>> { match o { Some(s) => Some(s@), None => None } }
// ---- the state column (scheduler/state.rs): Display / From<String>; round trip proved in unit K-state
pub uninterp spec fn state_str(s: TaskState) -> Seq<char>;
pub uninterp spec fn state_of_str(s: Seq<char>) -> TaskState;
impl TaskState {
    // TRUSTED: Display for TaskState = state_to_str
    #[verifier::external_body] pub fn to_string(&self) -> (r: String) ensures r@ == state_str(*self) { unimplemented!() }
}
impl vstd::std_specs::convert::FromSpecImpl<String> for TaskState {
    open spec fn obeys_from_spec() -> bool { true }
    open spec fn from_spec(s: String) -> Self { state_of_str(s@) }
}
impl From<String> for TaskState { #[verifier::external_body] fn from(s: String) -> (r: Self) ensures r == state_of_str(s@) { unimplemented!() } }

// ---- parsed values remember their source text (serde_json::from_str / Workflow::from_json / Node::from_str are outside the unit)
pub trait Parsed: Sized { spec fn src(&self) -> Seq<char>; }
#[verifier::external_body] pub struct Vars { _p: u8 }
#[verifier::external_body] pub struct JsonValue { _p: u8 }
#[verifier::external_body] pub struct Error { _p: u8 }
#[verifier::external_body] pub struct Workflow { _p: u8 }
#[verifier::external_body] pub struct HooksMap { _p: u8 }
impl Clone for Workflow { #[verifier::external_body] fn clone(&self) -> (r: Self) ensures r == *self { unimplemented!() } }
impl Parsed for Vars { uninterp spec fn src(&self) -> Seq<char>; }
impl Parsed for JsonValue { uninterp spec fn src(&self) -> Seq<char>; }
impl Parsed for Error { uninterp spec fn src(&self) -> Seq<char>; }
impl Parsed for Workflow { uninterp spec fn src(&self) -> Seq<char>; }
impl Parsed for HooksMap { uninterp spec fn src(&self) -> Seq<char>; }
// R7: `serde_json::from_str(&X).map_err(|err| ActError::Store(err.to_string()))` -- a value parsed from the text X, or a store error
#[verifier::external_body]
pub fn parse_json<T: Parsed>(s: &String) -> (r: Result<T>) ensures r is Ok ==> r->Ok_0.src() == s@ { unimplemented!() }
impl Workflow {
    #[verifier::external_body]
    pub fn from_json(s: &String) -> (r: Result<Workflow>) ensures r is Ok ==> r->Ok_0.src() == s@ { unimplemented!() }
}
// `env_local.into()`: serde_json::Value -> Vars keeps the value (ASSUMED: From<Value> for Vars wraps the same JSON object)
pub uninterp spec fn vars_of_value(v: JsonValue) -> Vars;
impl vstd::std_specs::convert::FromSpecImpl<JsonValue> for Vars {
    open spec fn obeys_from_spec() -> bool { true }
    open spec fn from_spec(v: JsonValue) -> Self { vars_of_value(v) }
}
impl From<JsonValue> for Vars { #[verifier::external_body] fn from(v: JsonValue) -> (r: Self) ensures r == vars_of_value(v) { unimplemented!() } }
#[verifier::external_body]
pub broadcast proof fn axiom_vars_of_value(v: JsonValue) ensures #[trigger] vars_of_value(v).src() == v.src() {}

// ---- live objects under construction
pub ghost struct TaskImg { pub tid: Seq<char>, pub state: TaskState, pub start_time: int, pub end_time: int, pub timestamp: int,
    pub prev: Option<Seq<char>>, pub data: Seq<char>, pub hooks: Seq<char>, pub err: Option<Seq<char>>, pub node: Seq<char> }
pub ghost struct ProcImg { pub state: TaskState, pub start_time: int, pub end_time: int, pub timestamp: int, pub env: Seq<char>,
    pub err: Option<Seq<char>>, pub model: Option<Seq<char>>, pub tasks: Seq<TaskImg> }
pub ghost struct Live { pub procs: Map<Seq<char>, ProcImg>, pub building: Map<(Seq<char>, Seq<char>), TaskImg> }
pub uninterp spec fn empty_vars_text() -> Seq<char>;
pub open spec fn fresh_proc(ts: int) -> ProcImg {
    ProcImg { state: TaskState::None, start_time: 0, end_time: 0, timestamp: ts, env: empty_vars_text(), err: None, model: None, tasks: Seq::empty() }
}
#[verifier::external_body] pub struct Runtime { _p: u8 }
#[verifier::external_body] pub struct NodeTree { _p: u8 }
#[verifier::external_body] pub struct Node { _p: u8 }
impl Node {
    pub uninterp spec fn s_text(&self) -> Seq<char>;
    // tree/node.rs: Node::from_str(text, tree) = the tree's node with the id found in `text`, else a detached node built from it
    #[verifier::external_body]
    pub fn from_str(s: &String, tree: &NodeTree) -> (r: Arc<Node>) ensures r.s_text() == s@ { unimplemented!() }
}
pub mod scheduler {
    use vstd::prelude::*;
    use std::sync::Arc;
    use super::*;
    verus! {
    pub struct Process { pub id: String }
    pub struct Task { pub pid: String, pub id: String, pub timestamp: i64 }
    impl Process {
        // TRUSTED primitive layer (process.rs), one line each
        #[verifier::external_body]
        pub fn new_with_timestamp(pid: &String, timestamp: i64, rt: &Arc<Runtime>, Tracked(l): Tracked<&mut Live>) -> (r: Arc<Process>)
            ensures r.id@ == pid@, *final(l) == (Live { procs: old(l).procs.insert(pid@, fresh_proc(timestamp as int)), ..*old(l) }) { unimplemented!() }
        // Process::new = new_with_timestamp(pid, utils::time::timestamp(), rt): a NEW timestamp (the row's is not used)
        #[verifier::external_body]
        pub fn new(pid: &str, rt: &Arc<Runtime>, Tracked(l): Tracked<&mut Live>) -> (r: Arc<Process>)
            ensures r.id@ == pid@, exists|ts: int| *final(l) == (Live { procs: old(l).procs.insert(pid@, #[trigger] fresh_proc(ts)), ..*old(l) }) { unimplemented!() }
        #[verifier::external_body]
        pub fn id(&self) -> (r: &String) ensures *r == self.id { unimplemented!() }
        #[verifier::external_body]
        pub fn tree(&self) -> (r: NodeTree) { unimplemented!() }
        #[verifier::external_body]
        pub fn load(&self, model: &Workflow, Tracked(l): Tracked<&mut Live>) -> (r: Result<()>)
            requires old(l).procs.dom().contains(self.id@)
            ensures r is Ok ==> *final(l) == (Live { procs: old(l).procs.insert(self.id@, ProcImg { model: Some(model.src()), ..old(l).procs[self.id@] }), ..*old(l) }),
                    r is Err ==> *final(l) == *old(l) { unimplemented!() }
        #[verifier::external_body]
        pub fn set_pure_state(&self, s: TaskState, Tracked(l): Tracked<&mut Live>)
            requires old(l).procs.dom().contains(self.id@)
            ensures *final(l) == (Live { procs: old(l).procs.insert(self.id@, ProcImg { state: s, ..old(l).procs[self.id@] }), ..*old(l) }) { unimplemented!() }
        #[verifier::external_body]
        pub fn set_start_time(&self, t: i64, Tracked(l): Tracked<&mut Live>)
            requires old(l).procs.dom().contains(self.id@)
            ensures *final(l) == (Live { procs: old(l).procs.insert(self.id@, ProcImg { start_time: t as int, ..old(l).procs[self.id@] }), ..*old(l) }) { unimplemented!() }
        #[verifier::external_body]
        pub fn set_end_time(&self, t: i64, Tracked(l): Tracked<&mut Live>)
            requires old(l).procs.dom().contains(self.id@)
            ensures *final(l) == (Live { procs: old(l).procs.insert(self.id@, ProcImg { end_time: t as int, ..old(l).procs[self.id@] }), ..*old(l) }) { unimplemented!() }
        #[verifier::external_body]
        pub fn set_env(&self, v: &Vars, Tracked(l): Tracked<&mut Live>)
            requires old(l).procs.dom().contains(self.id@)
            ensures *final(l) == (Live { procs: old(l).procs.insert(self.id@, ProcImg { env: v.src(), ..old(l).procs[self.id@] }), ..*old(l) }) { unimplemented!() }
        #[verifier::external_body]
        pub fn set_pure_err(&self, e: &Error, Tracked(l): Tracked<&mut Live>)
            requires old(l).procs.dom().contains(self.id@)
            ensures *final(l) == (Live { procs: old(l).procs.insert(self.id@, ProcImg { err: Some(e.src()), ..old(l).procs[self.id@] }), ..*old(l) }) { unimplemented!() }
        // push_task: the finished task (with its `timestamp` field) joins the process
        #[verifier::external_body]
        pub fn push_task(&self, task: Arc<Task>, Tracked(l): Tracked<&mut Live>)
            requires old(l).procs.dom().contains(self.id@), old(l).building.dom().contains((task.pid@, task.id@))
            ensures *final(l) == (Live {
                procs: old(l).procs.insert(self.id@, ProcImg { tasks: old(l).procs[self.id@].tasks.push(TaskImg { timestamp: task.timestamp as int, ..old(l).building[(task.pid@, task.id@)] }), ..old(l).procs[self.id@] }),
                building: old(l).building.remove((task.pid@, task.id@)) }) { unimplemented!() }
    }
    pub open spec fn fresh_task(tid: Seq<char>, node: Seq<char>) -> TaskImg {
        TaskImg { tid, state: TaskState::None, start_time: 0, end_time: 0, timestamp: 0, prev: None, data: empty_vars_text(), hooks: empty_vars_text(), err: None, node }
    }
    pub open spec fn upd(l: Live, k: (Seq<char>, Seq<char>), t: TaskImg) -> Live { Live { building: l.building.insert(k, t), ..l } }
    impl Task {
        // TRUSTED primitive layer (task.rs), one line each
        #[verifier::external_body]
        pub fn new(proc: &Arc<Process>, tid: &String, node: Arc<Node>, rt: &Arc<Runtime>, Tracked(l): Tracked<&mut Live>) -> (r: Task)
            ensures r.pid@ == proc.id@, r.id@ == tid@, *final(l) == upd(*old(l), (proc.id@, tid@), fresh_task(tid@, node.s_text())) { unimplemented!() }
        pub open spec fn key(&self) -> (Seq<char>, Seq<char>) { (self.pid@, self.id@) }
        #[verifier::external_body]
        pub fn set_pure_state(&self, s: TaskState, Tracked(l): Tracked<&mut Live>)
            requires old(l).building.dom().contains(self.key())
            ensures *final(l) == upd(*old(l), self.key(), TaskImg { state: s, ..old(l).building[self.key()] }) { unimplemented!() }
        #[verifier::external_body]
        pub fn set_start_time(&self, t: i64, Tracked(l): Tracked<&mut Live>)
            requires old(l).building.dom().contains(self.key())
            ensures *final(l) == upd(*old(l), self.key(), TaskImg { start_time: t as int, ..old(l).building[self.key()] }) { unimplemented!() }
        #[verifier::external_body]
        pub fn set_end_time(&self, t: i64, Tracked(l): Tracked<&mut Live>)
            requires old(l).building.dom().contains(self.key())
            ensures *final(l) == upd(*old(l), self.key(), TaskImg { end_time: t as int, ..old(l).building[self.key()] }) { unimplemented!() }
        #[verifier::external_body]
        pub fn set_prev(&self, p: Option<String>, Tracked(l): Tracked<&mut Live>)
            requires old(l).building.dom().contains(self.key())
            ensures *final(l) == upd(*old(l), self.key(), TaskImg { prev: opt_view(p), ..old(l).building[self.key()] }) { unimplemented!() }
        #[verifier::external_body]
        pub fn set_data(&self, v: &Vars, Tracked(l): Tracked<&mut Live>)
            requires old(l).building.dom().contains(self.key())
            ensures *final(l) == upd(*old(l), self.key(), TaskImg { data: v.src(), ..old(l).building[self.key()] }) { unimplemented!() }
        #[verifier::external_body]
        pub fn set_hooks(&self, v: &HooksMap, Tracked(l): Tracked<&mut Live>)
            requires old(l).building.dom().contains(self.key())
            ensures *final(l) == upd(*old(l), self.key(), TaskImg { hooks: v.src(), ..old(l).building[self.key()] }) { unimplemented!() }
        #[verifier::external_body]
        pub fn set_pure_err(&self, e: &Error, Tracked(l): Tracked<&mut Live>)
            requires old(l).building.dom().contains(self.key())
            ensures *final(l) == upd(*old(l), self.key(), TaskImg { err: Some(e.src()), ..old(l).building[self.key()] }) { unimplemented!() }
    }
    }
}

pub open spec fn pid_query(q: Query, pid: Seq<char>) -> bool {
    q.conds@.len() == 1 && q.conds@[0].r#type == CondType::And && q.conds@[0].conds@.len() == 1 && q.limit == 100000
    && q.conds@[0].conds@[0].op == ExprOp::EQ && q.conds@[0].conds@[0].key@ == "pid"@ && q.conds@[0].conds@[0].value@ == JsonV::Str(pid)
}
// ---- oracle (statement): the reloaded object is the image of its own row
pub open spec fn task_img_of(t: data::Task) -> TaskImg {
    TaskImg { tid: t.tid@, state: state_of_str(t.state@), start_time: t.start_time as int, end_time: t.end_time as int, timestamp: t.timestamp as int,
        prev: opt_view(t.prev), data: t.data@, hooks: t.hooks@, err: opt_view(t.err), node: t.node_data@ }
}
pub open spec fn task_imgs(rows: Seq<data::Task>) -> Seq<TaskImg> { rows.map_values(|t: data::Task| task_img_of(t)) }
// the fields of the process row that a reload restores (load: all of them; load_proc: not end_time / timestamp, see DESIGN)
pub open spec fn proc_fields_of(p: data::Proc, img: ProcImg) -> bool {
    img.state == state_of_str(p.state@) && img.start_time == p.start_time as int && img.env == p.env@ && img.err == opt_view(p.err) && img.model == Some(p.model@)
}

// the query of the bulk restore: processes that are not finished (state none / ready / running / pending), at most `cap`
pub open spec fn live_expr(e: Expr, s: TaskState) -> bool { e.op == ExprOp::EQ && e.key@ == "state"@ && e.value@ == JsonV::Str(state_str(s)) }
pub open spec fn live_query(q: Query, cap: usize) -> bool {
    q.conds@.len() == 1 && q.conds@[0].r#type == CondType::Or && q.conds@[0].conds@.len() == 4 && q.limit == cap
    && live_expr(q.conds@[0].conds@[0], TaskState::None) && live_expr(q.conds@[0].conds@[1], TaskState::Ready)
    && live_expr(q.conds@[0].conds@[2], TaskState::Running) && live_expr(q.conds@[0].conds@[3], TaskState::Pending)
}
// the reloaded process is the image of its own row, with the tasks of its own pid
#[verifier::opaque]
pub open spec fn loaded_img(st: StoreAbs, p: data::Proc, img: ProcImg, full: bool) -> bool {
    &&& proc_fields_of(p, img)
    &&& (full ==> img.end_time == p.end_time as int && img.timestamp == p.timestamp as int)
    &&& exists|q: Query, rows: Seq<data::Task>| pid_query(q, p.id@) && #[trigger] query_result_ok(st.tasks, q, rows) && img.tasks == task_imgs(rows)
}

pub open spec fn loaded_open(st: StoreAbs, p: data::Proc, img: ProcImg, full: bool) -> bool {
    &&& proc_fields_of(p, img)
    &&& (full ==> img.end_time == p.end_time as int && img.timestamp == p.timestamp as int)
    &&& exists|q: Query, rows: Seq<data::Task>| pid_query(q, p.id@) && #[trigger] query_result_ok(st.tasks, q, rows) && img.tasks == task_imgs(rows)
}
impl Store {
//@@ extract file=acts/src/cache/store.rs in="impl Store" item="fn load" name=Store::load
//@@ opt ret=res
//@@ rw R7 `serde_json :: from_str ( & $X:chain ) . map_err ( | err | ActError :: Store ( err . to_string ( ) ) ) ?` => `parse_json(&$X)?`
//@@ rw R7 `let env_local : serde_json :: Value =` => `let env_local: JsonValue =`
//@@ rw R7 `let mut ret = Vec :: new ( ) ;` => `let mut ret: Vec<Arc<scheduler::Process>> = Vec::new();`
//@@ rw R19 `for p in procs . rows $B:block` => `for p in procs.rows.iter() $B`
//@@ rw R19b `let state = p . state . clone ( ) ;` => `let state = clone_string(&p.state);`
//@@ rw R19b `if let Some ( err ) = p . err` => `if let Some(err) = clone_opt_string(&p.err)`
//@@ rw R4b `self . load_tasks ( & proc , rt )` => `self.load_tasks(&proc, rt, Tracked(st), Tracked(l))`
//@@ spec
    ensures
        //# L1-every-process-is-the-image-of-its-own-row
        res is Ok && cap > 0 ==> exists|q: Query, rows: Seq<data::Proc>| live_query(q, cap) && #[trigger] query_result_ok(st.procs, q, rows) && res->Ok_0@.len() == rows.len()
            && forall|i: int| 0 <= i < rows.len() ==> res->Ok_0@[i].id@ == (#[trigger] rows[i]).id@ && final(l).procs.dom().contains(rows[i].id@)
                && loaded_img(*st, rows[i], final(l).procs[rows[i].id@], true),
        //# L1-nothing-without-capacity
        cap == 0 ==> res is Ok && res->Ok_0@.len() == 0 && *final(l) == *old(l),
//@@ proof at=beforeloop1
            proof { assert(live_query(query, cap)); reveal(query_result_ok); }
//@@ loop 1
    invariant
        //# processes-loaded-so-far
        cap > 0 && __v1@ == procs.rows@ && sel_distinct(procs.rows@) && ret@.len() == __i1
            && forall|j: int| 0 <= j < __i1 ==> ret@[j].id@ == (#[trigger] __v1@[j]).id@ && l.procs.dom().contains(__v1@[j].id@) && loaded_img(*st, __v1@[j], l.procs[__v1@[j].id@], true),
//@@ proof before=set_env#1
                proof { axiom_vars_of_value(env_local); }
//@@ proof before=load_tasks#1
                let ghost lb = *l;
                proof {
                    let row = __v1@[__i1 - 1];
                    let img = l.procs[row.id@];
                    assert(proc.id@ == row.id@);
                    //# L1-the-model-is-parsed-from-the-rows-own-model-column
                    assert(img.model == Some(row.model@));
                    //# L1-the-state-is-the-rows-own-state
                    assert(img.state == state_of_str(row.state@));
                    //# L1-the-env-is-the-rows-own-env
                    assert(img.env == row.env@);
                    //# L1-the-error-is-the-rows-own-error
                    assert(img.err == opt_view(row.err));
                    assert(img.tasks =~= Seq::<TaskImg>::empty());
                }
//@@ proof after=load_tasks#1
                proof {
                    let i = __i1 - 1;
                    reveal(loaded_img);
                    let (q2, trows) = choose|q: Query, rows: Seq<data::Task>| pid_query(q, proc.id@) && #[trigger] query_result_ok(st.tasks, q, rows)
                        && l.procs[proc.id@] == (ProcImg { tasks: lb.procs[proc.id@].tasks + task_imgs(rows), ..lb.procs[proc.id@] });
                    assert(lb.procs[proc.id@].tasks + task_imgs(trows) =~= task_imgs(trows));
                    assert(loaded_img(*st, __v1@[i], l.procs[__v1@[i].id@], true));
                    assert forall|j: int| 0 <= j < i implies l.procs.dom().contains((#[trigger] __v1@[j]).id@) && loaded_img(*st, __v1@[j], l.procs[__v1@[j].id@], true) by {
                        assert(__v1@[j].rid() != __v1@[i].rid());
                    }
                }
//@@ end
//@@ extract file=acts/src/cache/store.rs in="impl Store" item="fn load_proc" name=Store::load_proc
//@@ rw R7 `serde_json :: from_str ( & $X:chain ) . map_err ( | err | ActError :: Store ( err . to_string ( ) ) ) ?` => `parse_json(&$X)?`
//@@ rw R7 `let env_local : serde_json :: Value =` => `let env_local: JsonValue =`
//@@ rw R4b `scheduler :: Process :: new ( pid , rt )` => `scheduler::Process::new(pid, rt, Tracked(l))`
//@@ rw R4b `self . load_tasks ( & proc , rt )` => `self.load_tasks(&proc, rt, Tracked(st), Tracked(l))`
//@@ spec
    requires st.wf()
    ensures
        //# L1-the-process-is-the-image-of-its-own-row
        ret is Ok && ret->Ok_0 is Some ==> st.procs.dom().contains(pid@) && ret->Ok_0->Some_0.id@ == pid@ && final(l).procs.dom().contains(pid@)
            && loaded_open(*st, st.procs[pid@], final(l).procs[pid@], false),
        //# L1-an-unknown-process-is-not-invented
        !st.procs.dom().contains(pid@) ==> (ret is Ok ==> ret->Ok_0 is None) && *final(l) == *old(l),
//@@ proof before=set_env#1
                proof { axiom_vars_of_value(env_local); }
//@@ proof before=load_tasks#1
                let ghost lb = *l;
                proof {
                    assert(p == st.procs[pid@] && p.rid() == pid@);
                    let img = l.procs[pid@];
                    assert(img.model == Some(p.model@));
                    assert(img.state == state_of_str(p.state@));
                    assert(img.env == p.env@);
                    assert(img.start_time == p.start_time as int);
                    assert(l.procs[pid@].tasks =~= Seq::<TaskImg>::empty());
                }
//@@ proof after=load_tasks#1
                proof {
                    let (q2, trows) = choose|q: Query, rows: Seq<data::Task>| pid_query(q, proc.id@) && #[trigger] query_result_ok(st.tasks, q, rows)
                        && l.procs[proc.id@] == (ProcImg { tasks: lb.procs[proc.id@].tasks + task_imgs(rows), ..lb.procs[proc.id@] });
                    assert(lb.procs[proc.id@].tasks + task_imgs(trows) =~= task_imgs(trows));
                    assert(pid_query(q2, pid@) && query_result_ok(st.tasks, q2, trows) && l.procs[pid@].tasks == task_imgs(trows));
                }
//@@ end
//@@ extract file=acts/src/cache/store.rs in="impl Store" item="fn load_tasks" name=Store::load_tasks
//@@ rw R7 `serde_json :: from_str ( & $X:chain ) . map_err ( | err | ActError :: Store ( err . to_string ( ) ) ) ?` => `parse_json(&$X)?`
//@@ rw R7 `let tree = & proc . tree ( ) ;` => `let tree = &proc.tree();`
//@@ rw R7 `let hooks : HashMap < TaskLifeCycle , Vec < StatementBatch > > =` => `let hooks: HooksMap =`
//@@ rw R19 `for t in tasks . rows $B:block` => `for t in tasks.rows.iter() $B`
//@@ rw R19b `t . state . into ( )` => `clone_string(&t.state).into()`
//@@ rw R19b `task . set_prev ( t . prev )` => `task.set_prev(clone_opt_string(&t.prev))`
//@@ rw R19b `if let Some ( err ) = t . err` => `if let Some(err) = clone_opt_string(&t.err)`
//@@ rw R4b `scheduler :: Task :: new ( proc , & t . tid , node , rt )` => `scheduler::Task::new(proc, &t.tid, node, rt, Tracked(l))`
//@@ spec
    requires old(l).procs.dom().contains(proc.id@)
    ensures
        //# L2-every-task-is-the-image-of-its-own-row
        ret is Ok ==> exists|q: Query, rows: Seq<data::Task>| pid_query(q, proc.id@) && #[trigger] query_result_ok(st.tasks, q, rows)
            && final(l).procs[proc.id@] == (ProcImg { tasks: old(l).procs[proc.id@].tasks + task_imgs(rows), ..old(l).procs[proc.id@] }),
        //# L2-nothing-else-is-touched
        final(l).procs.dom() == old(l).procs.dom() && forall|p: Seq<char>| p != proc.id@ && old(l).procs.dom().contains(p) ==> #[trigger] final(l).procs[p] == old(l).procs[p],
        //# L2-the-process-keeps-its-own-fields
        final(l).procs[proc.id@].state == old(l).procs[proc.id@].state && final(l).procs[proc.id@].model == old(l).procs[proc.id@].model
            && final(l).procs[proc.id@].env == old(l).procs[proc.id@].env && final(l).procs[proc.id@].err == old(l).procs[proc.id@].err
            && final(l).procs[proc.id@].start_time == old(l).procs[proc.id@].start_time && final(l).procs[proc.id@].end_time == old(l).procs[proc.id@].end_time
            && final(l).procs[proc.id@].timestamp == old(l).procs[proc.id@].timestamp,
//@@ proof at=beforeloop1
        proof { assert(pid_query(query, proc.id@)); }
//@@ proof before=set_pure_state#1
            proof { assert(state == state_of_str(__v1@[__i1 - 1].state@)); }
//@@ proof before=push_task#1
            proof {
                let b = l.building[(task.pid@, task.id@)];
                let w = task_img_of(__v1@[__i1 - 1]);
                assert(b.tid == w.tid);
                assert(b.state == w.state);
                assert(b.start_time == w.start_time && b.end_time == w.end_time);
                assert(b.prev == w.prev);
                assert(b.data == w.data);
                assert(b.hooks == w.hooks);
                assert(b.err == w.err);
                assert(b.node == w.node);
                assert(task.timestamp as int == w.timestamp);
            }
//@@ proof after=push_task#1
            proof {
                let i = __i1 - 1;
                assert(__v1@.subrange(0, i + 1) =~= __v1@.subrange(0, i).push(__v1@[i]));
                assert(task_imgs(__v1@.subrange(0, i + 1)) =~= task_imgs(__v1@.subrange(0, i)).push(task_img_of(__v1@[i])));
                assert(l.procs[proc.id@].tasks =~= old(l).procs[proc.id@].tasks + task_imgs(__v1@.subrange(0, i + 1)));
            }
//@@ proof at=afterloop1
        proof { assert(__v1@.subrange(0, __i1 as int) =~= tasks.rows@); }
//@@ loop 1
    invariant
        //# tasks-loaded-so-far
        __v1@ == tasks.rows@ && old(l).procs.dom().contains(proc.id@) &&
        l.procs.dom() == old(l).procs.dom() && (forall|p: Seq<char>| p != proc.id@ && old(l).procs.dom().contains(p) ==> #[trigger] l.procs[p] == old(l).procs[p])
            && l.procs[proc.id@] == (ProcImg { tasks: old(l).procs[proc.id@].tasks + task_imgs(__v1@.subrange(0, __i1 as int)), ..old(l).procs[proc.id@] }),
//@@ end
}
} // verus!
fn main() {}
