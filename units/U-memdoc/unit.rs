// U-memdoc: what the in-memory store keeps of a record (C10: "create followed by find returns a record equal in every field"; C11/C12: the
// rows the engine reloads from, the in-memory store being the default).  `DbDocument::doc` of every record type puts EVERY field of the
// record under the key of the same name (find rebuilds the record from that document by serde; a field without a key comes back as its
// default, e.g. `err: None`).
// TRUSTED: serde_json::json!(x) is the JSON value of x; HashMap insert; map_to_model / serde rebuild the record from the document.
//@@ unit U-memdoc
//@@ default props=C10,C11,C12 rewrites=R1,R2,R3,R5,R13
use vstd::prelude::*;
verus! {
pub enum JsonV { Null, Bool(bool), Int(int), Str(Seq<char>), Code(int) }
#[verifier::external_body]
pub struct JsonValue { _p: u8 }
impl JsonValue { pub uninterp spec fn view(&self) -> JsonV; }
pub struct ActError {}
pub type Result<T> = std::result::Result<T, ActError>;
pub trait Serialize: Sized { spec fn to_json(&self) -> JsonV; }
pub open spec fn opt_json(o: Option<String>) -> JsonV { match o { Some(s) => JsonV::Str(s@), None => JsonV::Null } }
impl Serialize for String { open spec fn to_json(&self) -> JsonV { JsonV::Str(self@) } }
impl Serialize for Option<String> { open spec fn to_json(&self) -> JsonV { opt_json(*self) } }
impl Serialize for i64 { open spec fn to_json(&self) -> JsonV { JsonV::Int(*self as int) } }
impl Serialize for i32 { open spec fn to_json(&self) -> JsonV { JsonV::Int(*self as int) } }
impl Serialize for bool { open spec fn to_json(&self) -> JsonV { JsonV::Bool(*self) } }
// enums stored through their derive-generated Serialize (serde rename / serde_repr): an opaque code per variant
//@@ extract file=acts/src/event/message.rs item="enum MessageState" name=MessageState
//@@ opt structural dropderive=Clone
//@@ end
//@@ extract file=acts/src/store/data/message.rs item="enum MessageStatus" name=MessageStatus
//@@ opt structural dropderive=Clone,Copy
//@@ end
//@@ extract file=acts/src/package/mod.rs item="enum ActRunAs" name=ActRunAs
//@@ opt structural dropderive=Clone
//@@ end
//@@ extract file=acts/src/package/mod.rs item="enum ActPackageCatalog" name=ActPackageCatalog
//@@ opt structural dropderive=Clone
//@@ end
pub uninterp spec fn mstate_json(s: MessageState) -> JsonV;
pub uninterp spec fn status_json(s: MessageStatus) -> JsonV;
pub uninterp spec fn runas_json(s: ActRunAs) -> JsonV;
pub uninterp spec fn catalog_json(s: ActPackageCatalog) -> JsonV;
impl Serialize for MessageState { open spec fn to_json(&self) -> JsonV { mstate_json(*self) } }
impl Serialize for MessageStatus { open spec fn to_json(&self) -> JsonV { status_json(*self) } }
impl Serialize for ActRunAs { open spec fn to_json(&self) -> JsonV { runas_json(*self) } }
impl Serialize for ActPackageCatalog { open spec fn to_json(&self) -> JsonV { catalog_json(*self) } }
impl Clone for MessageState { #[verifier::external_body] fn clone(&self) -> (r: Self) ensures r == *self { unimplemented!() } }
impl Clone for MessageStatus { #[verifier::external_body] fn clone(&self) -> (r: Self) ensures r == *self { unimplemented!() } }
impl Copy for MessageStatus {}
impl Clone for ActRunAs { #[verifier::external_body] fn clone(&self) -> (r: Self) ensures r == *self { unimplemented!() } }
impl Clone for ActPackageCatalog { #[verifier::external_body] fn clone(&self) -> (r: Self) ensures r == *self { unimplemented!() } }
// R7: serde_json::json!(x) (x by value or clone: the macro only reads it)
#[verifier::external_body]
pub fn json_of<T: Serialize>(v: T) -> (r: JsonValue) ensures r@ == v.to_json() { unimplemented!() }
#[verifier::external_body]
pub fn json_of_ref<T: Serialize>(v: &T) -> (r: JsonValue) ensures r@ == v.to_json() { unimplemented!() }
// R7: `x.clone()` of a String / Option<String> field
#[verifier::external_body]
pub fn clone_string(s: &String) -> (r: String) ensures r@ == s@ { unimplemented!() }
#[verifier::external_body]
pub fn clone_opt_string(s: &Option<String>) -> (r: Option<String>) ensures r == *s { unimplemented!() }
// std HashMap<String, JsonValue> as a map from key text to JSON value (ASSUMED std semantics of new / insert)
#[verifier::external_body]
pub struct HashMap { _p: u8 }
impl HashMap {
    pub uninterp spec fn view(&self) -> Map<Seq<char>, JsonV>;
    #[verifier::external_body]
    pub fn new() -> (r: Self) ensures r@ == Map::<Seq<char>, JsonV>::empty() { unimplemented!() }
    #[verifier::external_body]
    pub fn insert(&mut self, k: String, v: JsonValue) ensures final(self)@ == old(self)@.insert(k@, v@) { unimplemented!() }
}
#[verifier::external_body]
pub fn str_to_string(s: &str) -> (r: String) ensures r@ == s@ { unimplemented!() }

pub mod data {
use super::*;
//@@ extract file=acts/src/store/data/task.rs item="struct Task"
//@@ end
//@@ extract file=acts/src/store/data/proc.rs item="struct Proc"
//@@ end
//@@ extract file=acts/src/store/data/model.rs item="struct Model"
//@@ end
//@@ extract file=acts/src/store/data/event.rs item="struct Event"
//@@ end
//@@ extract file=acts/src/store/data/message.rs item="struct Message"
//@@ end
//@@ extract file=acts/src/store/data/package.rs item="struct Package"
//@@ end
}
pub use data::*;

// the keys of a tasks document are pairwise different texts (string literals are opaque to the solver until revealed)
pub proof fn lemma_task_keys()
    ensures "id"@ != "pid"@, "id"@ != "tid"@, "id"@ != "node_data"@, "id"@ != "kind"@, "id"@ != "prev"@, "id"@ != "name"@, "id"@ != "state"@, "id"@ != "data"@, "id"@ != "err"@, "id"@ != "start_time"@, "id"@ != "end_time"@, "id"@ != "hooks"@, "id"@ != "timestamp"@, "pid"@ != "tid"@, "pid"@ != "node_data"@, "pid"@ != "kind"@, "pid"@ != "prev"@, "pid"@ != "name"@, "pid"@ != "state"@, "pid"@ != "data"@, "pid"@ != "err"@, "pid"@ != "start_time"@, "pid"@ != "end_time"@, "pid"@ != "hooks"@, "pid"@ != "timestamp"@, "tid"@ != "node_data"@, "tid"@ != "kind"@, "tid"@ != "prev"@, "tid"@ != "name"@, "tid"@ != "state"@, "tid"@ != "data"@, "tid"@ != "err"@, "tid"@ != "start_time"@, "tid"@ != "end_time"@, "tid"@ != "hooks"@, "tid"@ != "timestamp"@, "node_data"@ != "kind"@, "node_data"@ != "prev"@, "node_data"@ != "name"@, "node_data"@ != "state"@, "node_data"@ != "data"@, "node_data"@ != "err"@, "node_data"@ != "start_time"@, "node_data"@ != "end_time"@, "node_data"@ != "hooks"@, "node_data"@ != "timestamp"@, "kind"@ != "prev"@, "kind"@ != "name"@, "kind"@ != "state"@, "kind"@ != "data"@, "kind"@ != "err"@, "kind"@ != "start_time"@, "kind"@ != "end_time"@, "kind"@ != "hooks"@, "kind"@ != "timestamp"@, "prev"@ != "name"@, "prev"@ != "state"@, "prev"@ != "data"@, "prev"@ != "err"@, "prev"@ != "start_time"@, "prev"@ != "end_time"@, "prev"@ != "hooks"@, "prev"@ != "timestamp"@, "name"@ != "state"@, "name"@ != "data"@, "name"@ != "err"@, "name"@ != "start_time"@, "name"@ != "end_time"@, "name"@ != "hooks"@, "name"@ != "timestamp"@, "state"@ != "data"@, "state"@ != "err"@, "state"@ != "start_time"@, "state"@ != "end_time"@, "state"@ != "hooks"@, "state"@ != "timestamp"@, "data"@ != "err"@, "data"@ != "start_time"@, "data"@ != "end_time"@, "data"@ != "hooks"@, "data"@ != "timestamp"@, "err"@ != "start_time"@, "err"@ != "end_time"@, "err"@ != "hooks"@, "err"@ != "timestamp"@, "start_time"@ != "end_time"@, "start_time"@ != "hooks"@, "start_time"@ != "timestamp"@, "end_time"@ != "hooks"@, "end_time"@ != "timestamp"@, "hooks"@ != "timestamp"@
{
    reveal_strlit("id"); reveal_strlit("pid"); reveal_strlit("tid"); reveal_strlit("node_data"); reveal_strlit("kind"); reveal_strlit("prev"); reveal_strlit("name"); reveal_strlit("state"); reveal_strlit("data"); reveal_strlit("err"); reveal_strlit("start_time"); reveal_strlit("end_time"); reveal_strlit("hooks"); reveal_strlit("timestamp");
    assert("id"@.len() != "pid"@.len()); assert("id"@.len() != "tid"@.len()); assert("id"@.len() != "node_data"@.len()); assert("id"@.len() != "kind"@.len()); assert("id"@.len() != "prev"@.len()); assert("id"@.len() != "name"@.len()); assert("id"@.len() != "state"@.len()); assert("id"@.len() != "data"@.len()); assert("id"@.len() != "err"@.len()); assert("id"@.len() != "start_time"@.len()); assert("id"@.len() != "end_time"@.len()); assert("id"@.len() != "hooks"@.len()); assert("id"@.len() != "timestamp"@.len()); assert("pid"@[0] != "tid"@[0]); assert("pid"@.len() != "node_data"@.len()); assert("pid"@.len() != "kind"@.len()); assert("pid"@.len() != "prev"@.len()); assert("pid"@.len() != "name"@.len()); assert("pid"@.len() != "state"@.len()); assert("pid"@.len() != "data"@.len()); assert("pid"@[0] != "err"@[0]); assert("pid"@.len() != "start_time"@.len()); assert("pid"@.len() != "end_time"@.len()); assert("pid"@.len() != "hooks"@.len()); assert("pid"@.len() != "timestamp"@.len()); assert("tid"@.len() != "node_data"@.len()); assert("tid"@.len() != "kind"@.len()); assert("tid"@.len() != "prev"@.len()); assert("tid"@.len() != "name"@.len()); assert("tid"@.len() != "state"@.len()); assert("tid"@.len() != "data"@.len()); assert("tid"@[0] != "err"@[0]); assert("tid"@.len() != "start_time"@.len()); assert("tid"@.len() != "end_time"@.len()); assert("tid"@.len() != "hooks"@.len()); assert("tid"@.len() != "timestamp"@.len()); assert("node_data"@.len() != "kind"@.len()); assert("node_data"@.len() != "prev"@.len()); assert("node_data"@.len() != "name"@.len()); assert("node_data"@.len() != "state"@.len()); assert("node_data"@.len() != "data"@.len()); assert("node_data"@.len() != "err"@.len()); assert("node_data"@.len() != "start_time"@.len()); assert("node_data"@.len() != "end_time"@.len()); assert("node_data"@.len() != "hooks"@.len()); assert("node_data"@[0] != "timestamp"@[0]); assert("kind"@[0] != "prev"@[0]); assert("kind"@[0] != "name"@[0]); assert("kind"@.len() != "state"@.len()); assert("kind"@[0] != "data"@[0]); assert("kind"@.len() != "err"@.len()); assert("kind"@.len() != "start_time"@.len()); assert("kind"@.len() != "end_time"@.len()); assert("kind"@.len() != "hooks"@.len()); assert("kind"@.len() != "timestamp"@.len()); assert("prev"@[0] != "name"@[0]); assert("prev"@.len() != "state"@.len()); assert("prev"@[0] != "data"@[0]); assert("prev"@.len() != "err"@.len()); assert("prev"@.len() != "start_time"@.len()); assert("prev"@.len() != "end_time"@.len()); assert("prev"@.len() != "hooks"@.len()); assert("prev"@.len() != "timestamp"@.len()); assert("name"@.len() != "state"@.len()); assert("name"@[0] != "data"@[0]); assert("name"@.len() != "err"@.len()); assert("name"@.len() != "start_time"@.len()); assert("name"@.len() != "end_time"@.len()); assert("name"@.len() != "hooks"@.len()); assert("name"@.len() != "timestamp"@.len()); assert("state"@.len() != "data"@.len()); assert("state"@.len() != "err"@.len()); assert("state"@.len() != "start_time"@.len()); assert("state"@.len() != "end_time"@.len()); assert("state"@[0] != "hooks"@[0]); assert("state"@.len() != "timestamp"@.len()); assert("data"@.len() != "err"@.len()); assert("data"@.len() != "start_time"@.len()); assert("data"@.len() != "end_time"@.len()); assert("data"@.len() != "hooks"@.len()); assert("data"@.len() != "timestamp"@.len()); assert("err"@.len() != "start_time"@.len()); assert("err"@.len() != "end_time"@.len()); assert("err"@.len() != "hooks"@.len()); assert("err"@.len() != "timestamp"@.len()); assert("start_time"@.len() != "end_time"@.len()); assert("start_time"@.len() != "hooks"@.len()); assert("start_time"@.len() != "timestamp"@.len()); assert("end_time"@.len() != "hooks"@.len()); assert("end_time"@.len() != "timestamp"@.len()); assert("hooks"@.len() != "timestamp"@.len());
}
// ---------------------------------------------------------------- tasks
pub open spec fn task_doc_of(d: data::Task) -> Map<Seq<char>, JsonV> {
    Map::<Seq<char>, JsonV>::empty().insert("id"@, JsonV::Str(d.id@)).insert("pid"@, JsonV::Str(d.pid@)).insert("tid"@, JsonV::Str(d.tid@)).insert("node_data"@, JsonV::Str(d.node_data@)).insert("kind"@, JsonV::Str(d.kind@)).insert("prev"@, opt_json(d.prev)).insert("name"@, JsonV::Str(d.name@)).insert("state"@, JsonV::Str(d.state@)).insert("data"@, JsonV::Str(d.data@)).insert("err"@, opt_json(d.err)).insert("start_time"@, JsonV::Int(d.start_time as int)).insert("end_time"@, JsonV::Int(d.end_time as int)).insert("hooks"@, JsonV::Str(d.hooks@)).insert("timestamp"@, JsonV::Int(d.timestamp as int))
}
impl data::Task {
//@@ extract file=acts/src/store/db/mem/impl/task.rs in="impl DbDocument for Task" item="fn doc" name=mem::Task::doc
//@@ rw R7 `Result < HashMap < String , JsonValue > >` => `Result<HashMap>`
//@@ rw R7 `$K:lit . to_string ( )` => `str_to_string($K)`
//@@ rw R7 `json ! ( self . $F:id . clone ( ) )` => `json_of_ref(&self.$F)`
//@@ rw R7 `json ! ( self . $F:id )` => `json_of_ref(&self.$F)`
//@@ proof before=Ok#1
        proof {
            lemma_task_keys();
            //# Q7-the-document-has-every-field-under-its-own-name
            assert(map@ =~= task_doc_of(*self));
        }
//@@ spec
    ensures
        //# Q7-doc-keeps-every-field-of-the-record
        ret is Ok && ret->Ok_0@ == task_doc_of(*self),
//@@ end
}
// the keys of a procs document are pairwise different texts (string literals are opaque to the solver until revealed)
pub proof fn lemma_proc_keys()
    ensures "id"@ != "state"@, "id"@ != "mid"@, "id"@ != "name"@, "id"@ != "start_time"@, "id"@ != "end_time"@, "id"@ != "timestamp"@, "id"@ != "model"@, "id"@ != "env"@, "id"@ != "err"@, "state"@ != "mid"@, "state"@ != "name"@, "state"@ != "start_time"@, "state"@ != "end_time"@, "state"@ != "timestamp"@, "state"@ != "model"@, "state"@ != "env"@, "state"@ != "err"@, "mid"@ != "name"@, "mid"@ != "start_time"@, "mid"@ != "end_time"@, "mid"@ != "timestamp"@, "mid"@ != "model"@, "mid"@ != "env"@, "mid"@ != "err"@, "name"@ != "start_time"@, "name"@ != "end_time"@, "name"@ != "timestamp"@, "name"@ != "model"@, "name"@ != "env"@, "name"@ != "err"@, "start_time"@ != "end_time"@, "start_time"@ != "timestamp"@, "start_time"@ != "model"@, "start_time"@ != "env"@, "start_time"@ != "err"@, "end_time"@ != "timestamp"@, "end_time"@ != "model"@, "end_time"@ != "env"@, "end_time"@ != "err"@, "timestamp"@ != "model"@, "timestamp"@ != "env"@, "timestamp"@ != "err"@, "model"@ != "env"@, "model"@ != "err"@, "env"@ != "err"@
{
    reveal_strlit("id"); reveal_strlit("state"); reveal_strlit("mid"); reveal_strlit("name"); reveal_strlit("start_time"); reveal_strlit("end_time"); reveal_strlit("timestamp"); reveal_strlit("model"); reveal_strlit("env"); reveal_strlit("err");
    assert("id"@.len() != "state"@.len()); assert("id"@.len() != "mid"@.len()); assert("id"@.len() != "name"@.len()); assert("id"@.len() != "start_time"@.len()); assert("id"@.len() != "end_time"@.len()); assert("id"@.len() != "timestamp"@.len()); assert("id"@.len() != "model"@.len()); assert("id"@.len() != "env"@.len()); assert("id"@.len() != "err"@.len()); assert("state"@.len() != "mid"@.len()); assert("state"@.len() != "name"@.len()); assert("state"@.len() != "start_time"@.len()); assert("state"@.len() != "end_time"@.len()); assert("state"@.len() != "timestamp"@.len()); assert("state"@[0] != "model"@[0]); assert("state"@.len() != "env"@.len()); assert("state"@.len() != "err"@.len()); assert("mid"@.len() != "name"@.len()); assert("mid"@.len() != "start_time"@.len()); assert("mid"@.len() != "end_time"@.len()); assert("mid"@.len() != "timestamp"@.len()); assert("mid"@.len() != "model"@.len()); assert("mid"@[0] != "env"@[0]); assert("mid"@[0] != "err"@[0]); assert("name"@.len() != "start_time"@.len()); assert("name"@.len() != "end_time"@.len()); assert("name"@.len() != "timestamp"@.len()); assert("name"@.len() != "model"@.len()); assert("name"@.len() != "env"@.len()); assert("name"@.len() != "err"@.len()); assert("start_time"@.len() != "end_time"@.len()); assert("start_time"@.len() != "timestamp"@.len()); assert("start_time"@.len() != "model"@.len()); assert("start_time"@.len() != "env"@.len()); assert("start_time"@.len() != "err"@.len()); assert("end_time"@.len() != "timestamp"@.len()); assert("end_time"@.len() != "model"@.len()); assert("end_time"@.len() != "env"@.len()); assert("end_time"@.len() != "err"@.len()); assert("timestamp"@.len() != "model"@.len()); assert("timestamp"@.len() != "env"@.len()); assert("timestamp"@.len() != "err"@.len()); assert("model"@.len() != "env"@.len()); assert("model"@.len() != "err"@.len()); assert("env"@[1] != "err"@[1]);
}
// ---------------------------------------------------------------- procs
pub open spec fn proc_doc_of(d: data::Proc) -> Map<Seq<char>, JsonV> {
    Map::<Seq<char>, JsonV>::empty().insert("id"@, JsonV::Str(d.id@)).insert("state"@, JsonV::Str(d.state@)).insert("mid"@, JsonV::Str(d.mid@)).insert("name"@, JsonV::Str(d.name@)).insert("start_time"@, JsonV::Int(d.start_time as int)).insert("end_time"@, JsonV::Int(d.end_time as int)).insert("timestamp"@, JsonV::Int(d.timestamp as int)).insert("model"@, JsonV::Str(d.model@)).insert("env"@, JsonV::Str(d.env@)).insert("err"@, opt_json(d.err))
}
impl data::Proc {
//@@ extract file=acts/src/store/db/mem/impl/proc.rs in="impl DbDocument for Proc" item="fn doc" name=mem::Proc::doc
//@@ rw R7 `Result < HashMap < String , JsonValue > >` => `Result<HashMap>`
//@@ rw R7 `$K:lit . to_string ( )` => `str_to_string($K)`
//@@ rw R7 `json ! ( self . $F:id . clone ( ) )` => `json_of_ref(&self.$F)`
//@@ rw R7 `json ! ( self . $F:id )` => `json_of_ref(&self.$F)`
//@@ proof before=Ok#1
        proof {
            lemma_proc_keys();
            //# Q7-the-document-has-every-field-under-its-own-name
            assert(map@ =~= proc_doc_of(*self));
        }
//@@ spec
    ensures
        //# Q7-doc-keeps-every-field-of-the-record
        ret is Ok && ret->Ok_0@ == proc_doc_of(*self),
//@@ end
}
// the keys of a models document are pairwise different texts (string literals are opaque to the solver until revealed)
pub proof fn lemma_model_keys()
    ensures "id"@ != "name"@, "id"@ != "ver"@, "id"@ != "size"@, "id"@ != "create_time"@, "id"@ != "update_time"@, "id"@ != "data"@, "id"@ != "timestamp"@, "name"@ != "ver"@, "name"@ != "size"@, "name"@ != "create_time"@, "name"@ != "update_time"@, "name"@ != "data"@, "name"@ != "timestamp"@, "ver"@ != "size"@, "ver"@ != "create_time"@, "ver"@ != "update_time"@, "ver"@ != "data"@, "ver"@ != "timestamp"@, "size"@ != "create_time"@, "size"@ != "update_time"@, "size"@ != "data"@, "size"@ != "timestamp"@, "create_time"@ != "update_time"@, "create_time"@ != "data"@, "create_time"@ != "timestamp"@, "update_time"@ != "data"@, "update_time"@ != "timestamp"@, "data"@ != "timestamp"@
{
    reveal_strlit("id"); reveal_strlit("name"); reveal_strlit("ver"); reveal_strlit("size"); reveal_strlit("create_time"); reveal_strlit("update_time"); reveal_strlit("data"); reveal_strlit("timestamp");
    assert("id"@.len() != "name"@.len()); assert("id"@.len() != "ver"@.len()); assert("id"@.len() != "size"@.len()); assert("id"@.len() != "create_time"@.len()); assert("id"@.len() != "update_time"@.len()); assert("id"@.len() != "data"@.len()); assert("id"@.len() != "timestamp"@.len()); assert("name"@.len() != "ver"@.len()); assert("name"@[0] != "size"@[0]); assert("name"@.len() != "create_time"@.len()); assert("name"@.len() != "update_time"@.len()); assert("name"@[0] != "data"@[0]); assert("name"@.len() != "timestamp"@.len()); assert("ver"@.len() != "size"@.len()); assert("ver"@.len() != "create_time"@.len()); assert("ver"@.len() != "update_time"@.len()); assert("ver"@.len() != "data"@.len()); assert("ver"@.len() != "timestamp"@.len()); assert("size"@.len() != "create_time"@.len()); assert("size"@.len() != "update_time"@.len()); assert("size"@[0] != "data"@[0]); assert("size"@.len() != "timestamp"@.len()); assert("create_time"@[0] != "update_time"@[0]); assert("create_time"@.len() != "data"@.len()); assert("create_time"@.len() != "timestamp"@.len()); assert("update_time"@.len() != "data"@.len()); assert("update_time"@.len() != "timestamp"@.len()); assert("data"@.len() != "timestamp"@.len());
}
// ---------------------------------------------------------------- models
pub open spec fn model_doc_of(d: data::Model) -> Map<Seq<char>, JsonV> {
    Map::<Seq<char>, JsonV>::empty().insert("id"@, JsonV::Str(d.id@)).insert("name"@, JsonV::Str(d.name@)).insert("ver"@, JsonV::Int(d.ver as int)).insert("size"@, JsonV::Int(d.size as int)).insert("create_time"@, JsonV::Int(d.create_time as int)).insert("update_time"@, JsonV::Int(d.update_time as int)).insert("data"@, JsonV::Str(d.data@)).insert("timestamp"@, JsonV::Int(d.timestamp as int))
}
impl data::Model {
//@@ extract file=acts/src/store/db/mem/impl/model.rs in="impl DbDocument for Model" item="fn doc" name=mem::Model::doc
//@@ rw R7 `Result < HashMap < String , JsonValue > >` => `Result<HashMap>`
//@@ rw R7 `$K:lit . to_string ( )` => `str_to_string($K)`
//@@ rw R7 `json ! ( self . $F:id . clone ( ) )` => `json_of_ref(&self.$F)`
//@@ rw R7 `json ! ( self . $F:id )` => `json_of_ref(&self.$F)`
//@@ proof before=Ok#1
        proof {
            lemma_model_keys();
            //# Q7-the-document-has-every-field-under-its-own-name
            assert(map@ =~= model_doc_of(*self));
        }
//@@ spec
    ensures
        //# Q7-doc-keeps-every-field-of-the-record
        ret is Ok && ret->Ok_0@ == model_doc_of(*self),
//@@ end
}
// the keys of a events document are pairwise different texts (string literals are opaque to the solver until revealed)
pub proof fn lemma_event_keys()
    ensures "id"@ != "name"@, "id"@ != "mid"@, "id"@ != "ver"@, "id"@ != "uses"@, "id"@ != "params"@, "id"@ != "create_time"@, "id"@ != "timestamp"@, "name"@ != "mid"@, "name"@ != "ver"@, "name"@ != "uses"@, "name"@ != "params"@, "name"@ != "create_time"@, "name"@ != "timestamp"@, "mid"@ != "ver"@, "mid"@ != "uses"@, "mid"@ != "params"@, "mid"@ != "create_time"@, "mid"@ != "timestamp"@, "ver"@ != "uses"@, "ver"@ != "params"@, "ver"@ != "create_time"@, "ver"@ != "timestamp"@, "uses"@ != "params"@, "uses"@ != "create_time"@, "uses"@ != "timestamp"@, "params"@ != "create_time"@, "params"@ != "timestamp"@, "create_time"@ != "timestamp"@
{
    reveal_strlit("id"); reveal_strlit("name"); reveal_strlit("mid"); reveal_strlit("ver"); reveal_strlit("uses"); reveal_strlit("params"); reveal_strlit("create_time"); reveal_strlit("timestamp");
    assert("id"@.len() != "name"@.len()); assert("id"@.len() != "mid"@.len()); assert("id"@.len() != "ver"@.len()); assert("id"@.len() != "uses"@.len()); assert("id"@.len() != "params"@.len()); assert("id"@.len() != "create_time"@.len()); assert("id"@.len() != "timestamp"@.len()); assert("name"@.len() != "mid"@.len()); assert("name"@.len() != "ver"@.len()); assert("name"@[0] != "uses"@[0]); assert("name"@.len() != "params"@.len()); assert("name"@.len() != "create_time"@.len()); assert("name"@.len() != "timestamp"@.len()); assert("mid"@[0] != "ver"@[0]); assert("mid"@.len() != "uses"@.len()); assert("mid"@.len() != "params"@.len()); assert("mid"@.len() != "create_time"@.len()); assert("mid"@.len() != "timestamp"@.len()); assert("ver"@.len() != "uses"@.len()); assert("ver"@.len() != "params"@.len()); assert("ver"@.len() != "create_time"@.len()); assert("ver"@.len() != "timestamp"@.len()); assert("uses"@.len() != "params"@.len()); assert("uses"@.len() != "create_time"@.len()); assert("uses"@.len() != "timestamp"@.len()); assert("params"@.len() != "create_time"@.len()); assert("params"@.len() != "timestamp"@.len()); assert("create_time"@.len() != "timestamp"@.len());
}
// ---------------------------------------------------------------- events
pub open spec fn event_doc_of(d: data::Event) -> Map<Seq<char>, JsonV> {
    Map::<Seq<char>, JsonV>::empty().insert("id"@, JsonV::Str(d.id@)).insert("name"@, JsonV::Str(d.name@)).insert("mid"@, JsonV::Str(d.mid@)).insert("ver"@, JsonV::Int(d.ver as int)).insert("uses"@, JsonV::Str(d.uses@)).insert("params"@, JsonV::Str(d.params@)).insert("create_time"@, JsonV::Int(d.create_time as int)).insert("timestamp"@, JsonV::Int(d.timestamp as int))
}
impl data::Event {
//@@ extract file=acts/src/store/db/mem/impl/event.rs in="impl DbDocument for Event" item="fn doc" name=mem::Event::doc
//@@ rw R7 `Result < HashMap < String , JsonValue > >` => `Result<HashMap>`
//@@ rw R7 `$K:lit . to_string ( )` => `str_to_string($K)`
//@@ rw R7 `json ! ( self . $F:id . clone ( ) )` => `json_of_ref(&self.$F)`
//@@ rw R7 `json ! ( self . $F:id )` => `json_of_ref(&self.$F)`
//@@ proof before=Ok#1
        proof {
            lemma_event_keys();
            //# Q7-the-document-has-every-field-under-its-own-name
            assert(map@ =~= event_doc_of(*self));
        }
//@@ spec
    ensures
        //# Q7-doc-keeps-every-field-of-the-record
        ret is Ok && ret->Ok_0@ == event_doc_of(*self),
//@@ end
}
// the keys of a messages document are pairwise different texts (string literals are opaque to the solver until revealed)
pub proof fn lemma_message_keys()
    ensures "id"@ != "tid"@, "id"@ != "name"@, "id"@ != "state"@, "id"@ != "type"@, "id"@ != "model"@, "id"@ != "pid"@, "id"@ != "nid"@, "id"@ != "mid"@, "id"@ != "key"@, "id"@ != "uses"@, "id"@ != "inputs"@, "id"@ != "outputs"@, "id"@ != "tag"@, "id"@ != "start_time"@, "id"@ != "end_time"@, "id"@ != "chan_id"@, "id"@ != "chan_pattern"@, "id"@ != "create_time"@, "id"@ != "update_time"@, "id"@ != "retry_times"@, "id"@ != "status"@, "id"@ != "timestamp"@, "tid"@ != "name"@, "tid"@ != "state"@, "tid"@ != "type"@, "tid"@ != "model"@, "tid"@ != "pid"@, "tid"@ != "nid"@, "tid"@ != "mid"@, "tid"@ != "key"@, "tid"@ != "uses"@, "tid"@ != "inputs"@, "tid"@ != "outputs"@, "tid"@ != "tag"@, "tid"@ != "start_time"@, "tid"@ != "end_time"@, "tid"@ != "chan_id"@, "tid"@ != "chan_pattern"@, "tid"@ != "create_time"@, "tid"@ != "update_time"@, "tid"@ != "retry_times"@, "tid"@ != "status"@, "tid"@ != "timestamp"@, "name"@ != "state"@, "name"@ != "type"@, "name"@ != "model"@, "name"@ != "pid"@, "name"@ != "nid"@, "name"@ != "mid"@, "name"@ != "key"@, "name"@ != "uses"@, "name"@ != "inputs"@, "name"@ != "outputs"@, "name"@ != "tag"@, "name"@ != "start_time"@, "name"@ != "end_time"@, "name"@ != "chan_id"@, "name"@ != "chan_pattern"@, "name"@ != "create_time"@, "name"@ != "update_time"@, "name"@ != "retry_times"@, "name"@ != "status"@, "name"@ != "timestamp"@, "state"@ != "type"@, "state"@ != "model"@, "state"@ != "pid"@, "state"@ != "nid"@, "state"@ != "mid"@, "state"@ != "key"@, "state"@ != "uses"@, "state"@ != "inputs"@, "state"@ != "outputs"@, "state"@ != "tag"@, "state"@ != "start_time"@, "state"@ != "end_time"@, "state"@ != "chan_id"@, "state"@ != "chan_pattern"@, "state"@ != "create_time"@, "state"@ != "update_time"@, "state"@ != "retry_times"@, "state"@ != "status"@, "state"@ != "timestamp"@, "type"@ != "model"@, "type"@ != "pid"@, "type"@ != "nid"@, "type"@ != "mid"@, "type"@ != "key"@, "type"@ != "uses"@, "type"@ != "inputs"@, "type"@ != "outputs"@, "type"@ != "tag"@, "type"@ != "start_time"@, "type"@ != "end_time"@, "type"@ != "chan_id"@, "type"@ != "chan_pattern"@, "type"@ != "create_time"@, "type"@ != "update_time"@, "type"@ != "retry_times"@, "type"@ != "status"@, "type"@ != "timestamp"@, "model"@ != "pid"@, "model"@ != "nid"@, "model"@ != "mid"@, "model"@ != "key"@, "model"@ != "uses"@, "model"@ != "inputs"@, "model"@ != "outputs"@, "model"@ != "tag"@, "model"@ != "start_time"@, "model"@ != "end_time"@, "model"@ != "chan_id"@, "model"@ != "chan_pattern"@, "model"@ != "create_time"@, "model"@ != "update_time"@, "model"@ != "retry_times"@, "model"@ != "status"@, "model"@ != "timestamp"@, "pid"@ != "nid"@, "pid"@ != "mid"@, "pid"@ != "key"@, "pid"@ != "uses"@, "pid"@ != "inputs"@, "pid"@ != "outputs"@, "pid"@ != "tag"@, "pid"@ != "start_time"@, "pid"@ != "end_time"@, "pid"@ != "chan_id"@, "pid"@ != "chan_pattern"@, "pid"@ != "create_time"@, "pid"@ != "update_time"@, "pid"@ != "retry_times"@, "pid"@ != "status"@, "pid"@ != "timestamp"@, "nid"@ != "mid"@, "nid"@ != "key"@, "nid"@ != "uses"@, "nid"@ != "inputs"@, "nid"@ != "outputs"@, "nid"@ != "tag"@, "nid"@ != "start_time"@, "nid"@ != "end_time"@, "nid"@ != "chan_id"@, "nid"@ != "chan_pattern"@, "nid"@ != "create_time"@, "nid"@ != "update_time"@, "nid"@ != "retry_times"@, "nid"@ != "status"@, "nid"@ != "timestamp"@, "mid"@ != "key"@, "mid"@ != "uses"@, "mid"@ != "inputs"@, "mid"@ != "outputs"@, "mid"@ != "tag"@, "mid"@ != "start_time"@, "mid"@ != "end_time"@, "mid"@ != "chan_id"@, "mid"@ != "chan_pattern"@, "mid"@ != "create_time"@, "mid"@ != "update_time"@, "mid"@ != "retry_times"@, "mid"@ != "status"@, "mid"@ != "timestamp"@, "key"@ != "uses"@, "key"@ != "inputs"@, "key"@ != "outputs"@, "key"@ != "tag"@, "key"@ != "start_time"@, "key"@ != "end_time"@, "key"@ != "chan_id"@, "key"@ != "chan_pattern"@, "key"@ != "create_time"@, "key"@ != "update_time"@, "key"@ != "retry_times"@, "key"@ != "status"@, "key"@ != "timestamp"@, "uses"@ != "inputs"@, "uses"@ != "outputs"@, "uses"@ != "tag"@, "uses"@ != "start_time"@, "uses"@ != "end_time"@, "uses"@ != "chan_id"@, "uses"@ != "chan_pattern"@, "uses"@ != "create_time"@, "uses"@ != "update_time"@, "uses"@ != "retry_times"@, "uses"@ != "status"@, "uses"@ != "timestamp"@, "inputs"@ != "outputs"@, "inputs"@ != "tag"@, "inputs"@ != "start_time"@, "inputs"@ != "end_time"@, "inputs"@ != "chan_id"@, "inputs"@ != "chan_pattern"@, "inputs"@ != "create_time"@, "inputs"@ != "update_time"@, "inputs"@ != "retry_times"@, "inputs"@ != "status"@, "inputs"@ != "timestamp"@, "outputs"@ != "tag"@, "outputs"@ != "start_time"@, "outputs"@ != "end_time"@, "outputs"@ != "chan_id"@, "outputs"@ != "chan_pattern"@, "outputs"@ != "create_time"@, "outputs"@ != "update_time"@, "outputs"@ != "retry_times"@, "outputs"@ != "status"@, "outputs"@ != "timestamp"@, "tag"@ != "start_time"@, "tag"@ != "end_time"@, "tag"@ != "chan_id"@, "tag"@ != "chan_pattern"@, "tag"@ != "create_time"@, "tag"@ != "update_time"@, "tag"@ != "retry_times"@, "tag"@ != "status"@, "tag"@ != "timestamp"@, "start_time"@ != "end_time"@, "start_time"@ != "chan_id"@, "start_time"@ != "chan_pattern"@, "start_time"@ != "create_time"@, "start_time"@ != "update_time"@, "start_time"@ != "retry_times"@, "start_time"@ != "status"@, "start_time"@ != "timestamp"@, "end_time"@ != "chan_id"@, "end_time"@ != "chan_pattern"@, "end_time"@ != "create_time"@, "end_time"@ != "update_time"@, "end_time"@ != "retry_times"@, "end_time"@ != "status"@, "end_time"@ != "timestamp"@, "chan_id"@ != "chan_pattern"@, "chan_id"@ != "create_time"@, "chan_id"@ != "update_time"@, "chan_id"@ != "retry_times"@, "chan_id"@ != "status"@, "chan_id"@ != "timestamp"@, "chan_pattern"@ != "create_time"@, "chan_pattern"@ != "update_time"@, "chan_pattern"@ != "retry_times"@, "chan_pattern"@ != "status"@, "chan_pattern"@ != "timestamp"@, "create_time"@ != "update_time"@, "create_time"@ != "retry_times"@, "create_time"@ != "status"@, "create_time"@ != "timestamp"@, "update_time"@ != "retry_times"@, "update_time"@ != "status"@, "update_time"@ != "timestamp"@, "retry_times"@ != "status"@, "retry_times"@ != "timestamp"@, "status"@ != "timestamp"@
{
    reveal_strlit("id"); reveal_strlit("tid"); reveal_strlit("name"); reveal_strlit("state"); reveal_strlit("type"); reveal_strlit("model"); reveal_strlit("pid"); reveal_strlit("nid"); reveal_strlit("mid"); reveal_strlit("key"); reveal_strlit("uses"); reveal_strlit("inputs"); reveal_strlit("outputs"); reveal_strlit("tag"); reveal_strlit("start_time"); reveal_strlit("end_time"); reveal_strlit("chan_id"); reveal_strlit("chan_pattern"); reveal_strlit("create_time"); reveal_strlit("update_time"); reveal_strlit("retry_times"); reveal_strlit("status"); reveal_strlit("timestamp");
    assert("id"@.len() != "tid"@.len()); assert("id"@.len() != "name"@.len()); assert("id"@.len() != "state"@.len()); assert("id"@.len() != "type"@.len()); assert("id"@.len() != "model"@.len()); assert("id"@.len() != "pid"@.len()); assert("id"@.len() != "nid"@.len()); assert("id"@.len() != "mid"@.len()); assert("id"@.len() != "key"@.len()); assert("id"@.len() != "uses"@.len()); assert("id"@.len() != "inputs"@.len()); assert("id"@.len() != "outputs"@.len()); assert("id"@.len() != "tag"@.len()); assert("id"@.len() != "start_time"@.len()); assert("id"@.len() != "end_time"@.len()); assert("id"@.len() != "chan_id"@.len()); assert("id"@.len() != "chan_pattern"@.len()); assert("id"@.len() != "create_time"@.len()); assert("id"@.len() != "update_time"@.len()); assert("id"@.len() != "retry_times"@.len()); assert("id"@.len() != "status"@.len()); assert("id"@.len() != "timestamp"@.len()); assert("tid"@.len() != "name"@.len()); assert("tid"@.len() != "state"@.len()); assert("tid"@.len() != "type"@.len()); assert("tid"@.len() != "model"@.len()); assert("tid"@[0] != "pid"@[0]); assert("tid"@[0] != "nid"@[0]); assert("tid"@[0] != "mid"@[0]); assert("tid"@[0] != "key"@[0]); assert("tid"@.len() != "uses"@.len()); assert("tid"@.len() != "inputs"@.len()); assert("tid"@.len() != "outputs"@.len()); assert("tid"@[1] != "tag"@[1]); assert("tid"@.len() != "start_time"@.len()); assert("tid"@.len() != "end_time"@.len()); assert("tid"@.len() != "chan_id"@.len()); assert("tid"@.len() != "chan_pattern"@.len()); assert("tid"@.len() != "create_time"@.len()); assert("tid"@.len() != "update_time"@.len()); assert("tid"@.len() != "retry_times"@.len()); assert("tid"@.len() != "status"@.len()); assert("tid"@.len() != "timestamp"@.len()); assert("name"@.len() != "state"@.len()); assert("name"@[0] != "type"@[0]); assert("name"@.len() != "model"@.len()); assert("name"@.len() != "pid"@.len()); assert("name"@.len() != "nid"@.len()); assert("name"@.len() != "mid"@.len()); assert("name"@.len() != "key"@.len()); assert("name"@[0] != "uses"@[0]); assert("name"@.len() != "inputs"@.len()); assert("name"@.len() != "outputs"@.len()); assert("name"@.len() != "tag"@.len()); assert("name"@.len() != "start_time"@.len()); assert("name"@.len() != "end_time"@.len()); assert("name"@.len() != "chan_id"@.len()); assert("name"@.len() != "chan_pattern"@.len()); assert("name"@.len() != "create_time"@.len()); assert("name"@.len() != "update_time"@.len()); assert("name"@.len() != "retry_times"@.len()); assert("name"@.len() != "status"@.len()); assert("name"@.len() != "timestamp"@.len()); assert("state"@.len() != "type"@.len()); assert("state"@[0] != "model"@[0]); assert("state"@.len() != "pid"@.len()); assert("state"@.len() != "nid"@.len()); assert("state"@.len() != "mid"@.len()); assert("state"@.len() != "key"@.len()); assert("state"@.len() != "uses"@.len()); assert("state"@.len() != "inputs"@.len()); assert("state"@.len() != "outputs"@.len()); assert("state"@.len() != "tag"@.len()); assert("state"@.len() != "start_time"@.len()); assert("state"@.len() != "end_time"@.len()); assert("state"@.len() != "chan_id"@.len()); assert("state"@.len() != "chan_pattern"@.len()); assert("state"@.len() != "create_time"@.len()); assert("state"@.len() != "update_time"@.len()); assert("state"@.len() != "retry_times"@.len()); assert("state"@.len() != "status"@.len()); assert("state"@.len() != "timestamp"@.len()); assert("type"@.len() != "model"@.len()); assert("type"@.len() != "pid"@.len()); assert("type"@.len() != "nid"@.len()); assert("type"@.len() != "mid"@.len()); assert("type"@.len() != "key"@.len()); assert("type"@[0] != "uses"@[0]); assert("type"@.len() != "inputs"@.len()); assert("type"@.len() != "outputs"@.len()); assert("type"@.len() != "tag"@.len()); assert("type"@.len() != "start_time"@.len()); assert("type"@.len() != "end_time"@.len()); assert("type"@.len() != "chan_id"@.len()); assert("type"@.len() != "chan_pattern"@.len()); assert("type"@.len() != "create_time"@.len()); assert("type"@.len() != "update_time"@.len()); assert("type"@.len() != "retry_times"@.len()); assert("type"@.len() != "status"@.len()); assert("type"@.len() != "timestamp"@.len()); assert("model"@.len() != "pid"@.len()); assert("model"@.len() != "nid"@.len()); assert("model"@.len() != "mid"@.len()); assert("model"@.len() != "key"@.len()); assert("model"@.len() != "uses"@.len()); assert("model"@.len() != "inputs"@.len()); assert("model"@.len() != "outputs"@.len()); assert("model"@.len() != "tag"@.len()); assert("model"@.len() != "start_time"@.len()); assert("model"@.len() != "end_time"@.len()); assert("model"@.len() != "chan_id"@.len()); assert("model"@.len() != "chan_pattern"@.len()); assert("model"@.len() != "create_time"@.len()); assert("model"@.len() != "update_time"@.len()); assert("model"@.len() != "retry_times"@.len()); assert("model"@.len() != "status"@.len()); assert("model"@.len() != "timestamp"@.len()); assert("pid"@[0] != "nid"@[0]); assert("pid"@[0] != "mid"@[0]); assert("pid"@[0] != "key"@[0]); assert("pid"@.len() != "uses"@.len()); assert("pid"@.len() != "inputs"@.len()); assert("pid"@.len() != "outputs"@.len()); assert("pid"@[0] != "tag"@[0]); assert("pid"@.len() != "start_time"@.len()); assert("pid"@.len() != "end_time"@.len()); assert("pid"@.len() != "chan_id"@.len()); assert("pid"@.len() != "chan_pattern"@.len()); assert("pid"@.len() != "create_time"@.len()); assert("pid"@.len() != "update_time"@.len()); assert("pid"@.len() != "retry_times"@.len()); assert("pid"@.len() != "status"@.len()); assert("pid"@.len() != "timestamp"@.len()); assert("nid"@[0] != "mid"@[0]); assert("nid"@[0] != "key"@[0]); assert("nid"@.len() != "uses"@.len()); assert("nid"@.len() != "inputs"@.len()); assert("nid"@.len() != "outputs"@.len()); assert("nid"@[0] != "tag"@[0]); assert("nid"@.len() != "start_time"@.len()); assert("nid"@.len() != "end_time"@.len()); assert("nid"@.len() != "chan_id"@.len()); assert("nid"@.len() != "chan_pattern"@.len()); assert("nid"@.len() != "create_time"@.len()); assert("nid"@.len() != "update_time"@.len()); assert("nid"@.len() != "retry_times"@.len()); assert("nid"@.len() != "status"@.len()); assert("nid"@.len() != "timestamp"@.len()); assert("mid"@[0] != "key"@[0]); assert("mid"@.len() != "uses"@.len()); assert("mid"@.len() != "inputs"@.len()); assert("mid"@.len() != "outputs"@.len()); assert("mid"@[0] != "tag"@[0]); assert("mid"@.len() != "start_time"@.len()); assert("mid"@.len() != "end_time"@.len()); assert("mid"@.len() != "chan_id"@.len()); assert("mid"@.len() != "chan_pattern"@.len()); assert("mid"@.len() != "create_time"@.len()); assert("mid"@.len() != "update_time"@.len()); assert("mid"@.len() != "retry_times"@.len()); assert("mid"@.len() != "status"@.len()); assert("mid"@.len() != "timestamp"@.len()); assert("key"@.len() != "uses"@.len()); assert("key"@.len() != "inputs"@.len()); assert("key"@.len() != "outputs"@.len()); assert("key"@[0] != "tag"@[0]); assert("key"@.len() != "start_time"@.len()); assert("key"@.len() != "end_time"@.len()); assert("key"@.len() != "chan_id"@.len()); assert("key"@.len() != "chan_pattern"@.len()); assert("key"@.len() != "create_time"@.len()); assert("key"@.len() != "update_time"@.len()); assert("key"@.len() != "retry_times"@.len()); assert("key"@.len() != "status"@.len()); assert("key"@.len() != "timestamp"@.len()); assert("uses"@.len() != "inputs"@.len()); assert("uses"@.len() != "outputs"@.len()); assert("uses"@.len() != "tag"@.len()); assert("uses"@.len() != "start_time"@.len()); assert("uses"@.len() != "end_time"@.len()); assert("uses"@.len() != "chan_id"@.len()); assert("uses"@.len() != "chan_pattern"@.len()); assert("uses"@.len() != "create_time"@.len()); assert("uses"@.len() != "update_time"@.len()); assert("uses"@.len() != "retry_times"@.len()); assert("uses"@.len() != "status"@.len()); assert("uses"@.len() != "timestamp"@.len()); assert("inputs"@.len() != "outputs"@.len()); assert("inputs"@.len() != "tag"@.len()); assert("inputs"@.len() != "start_time"@.len()); assert("inputs"@.len() != "end_time"@.len()); assert("inputs"@.len() != "chan_id"@.len()); assert("inputs"@.len() != "chan_pattern"@.len()); assert("inputs"@.len() != "create_time"@.len()); assert("inputs"@.len() != "update_time"@.len()); assert("inputs"@.len() != "retry_times"@.len()); assert("inputs"@[0] != "status"@[0]); assert("inputs"@.len() != "timestamp"@.len()); assert("outputs"@.len() != "tag"@.len()); assert("outputs"@.len() != "start_time"@.len()); assert("outputs"@.len() != "end_time"@.len()); assert("outputs"@[0] != "chan_id"@[0]); assert("outputs"@.len() != "chan_pattern"@.len()); assert("outputs"@.len() != "create_time"@.len()); assert("outputs"@.len() != "update_time"@.len()); assert("outputs"@.len() != "retry_times"@.len()); assert("outputs"@.len() != "status"@.len()); assert("outputs"@.len() != "timestamp"@.len()); assert("tag"@.len() != "start_time"@.len()); assert("tag"@.len() != "end_time"@.len()); assert("tag"@.len() != "chan_id"@.len()); assert("tag"@.len() != "chan_pattern"@.len()); assert("tag"@.len() != "create_time"@.len()); assert("tag"@.len() != "update_time"@.len()); assert("tag"@.len() != "retry_times"@.len()); assert("tag"@.len() != "status"@.len()); assert("tag"@.len() != "timestamp"@.len()); assert("start_time"@.len() != "end_time"@.len()); assert("start_time"@.len() != "chan_id"@.len()); assert("start_time"@.len() != "chan_pattern"@.len()); assert("start_time"@.len() != "create_time"@.len()); assert("start_time"@.len() != "update_time"@.len()); assert("start_time"@.len() != "retry_times"@.len()); assert("start_time"@.len() != "status"@.len()); assert("start_time"@.len() != "timestamp"@.len()); assert("end_time"@.len() != "chan_id"@.len()); assert("end_time"@.len() != "chan_pattern"@.len()); assert("end_time"@.len() != "create_time"@.len()); assert("end_time"@.len() != "update_time"@.len()); assert("end_time"@.len() != "retry_times"@.len()); assert("end_time"@.len() != "status"@.len()); assert("end_time"@.len() != "timestamp"@.len()); assert("chan_id"@.len() != "chan_pattern"@.len()); assert("chan_id"@.len() != "create_time"@.len()); assert("chan_id"@.len() != "update_time"@.len()); assert("chan_id"@.len() != "retry_times"@.len()); assert("chan_id"@.len() != "status"@.len()); assert("chan_id"@.len() != "timestamp"@.len()); assert("chan_pattern"@.len() != "create_time"@.len()); assert("chan_pattern"@.len() != "update_time"@.len()); assert("chan_pattern"@.len() != "retry_times"@.len()); assert("chan_pattern"@.len() != "status"@.len()); assert("chan_pattern"@.len() != "timestamp"@.len()); assert("create_time"@[0] != "update_time"@[0]); assert("create_time"@[0] != "retry_times"@[0]); assert("create_time"@.len() != "status"@.len()); assert("create_time"@.len() != "timestamp"@.len()); assert("update_time"@[0] != "retry_times"@[0]); assert("update_time"@.len() != "status"@.len()); assert("update_time"@.len() != "timestamp"@.len()); assert("retry_times"@.len() != "status"@.len()); assert("retry_times"@.len() != "timestamp"@.len()); assert("status"@.len() != "timestamp"@.len());
}
// ---------------------------------------------------------------- messages
pub open spec fn message_doc_of(d: data::Message) -> Map<Seq<char>, JsonV> {
    Map::<Seq<char>, JsonV>::empty().insert("id"@, JsonV::Str(d.id@)).insert("tid"@, JsonV::Str(d.tid@)).insert("name"@, JsonV::Str(d.name@)).insert("state"@, mstate_json(d.state)).insert("type"@, JsonV::Str(d.r#type@)).insert("model"@, JsonV::Str(d.model@)).insert("pid"@, JsonV::Str(d.pid@)).insert("nid"@, JsonV::Str(d.nid@)).insert("mid"@, JsonV::Str(d.mid@)).insert("key"@, JsonV::Str(d.key@)).insert("uses"@, JsonV::Str(d.uses@)).insert("inputs"@, JsonV::Str(d.inputs@)).insert("outputs"@, JsonV::Str(d.outputs@)).insert("tag"@, JsonV::Str(d.tag@)).insert("start_time"@, JsonV::Int(d.start_time as int)).insert("end_time"@, JsonV::Int(d.end_time as int)).insert("chan_id"@, JsonV::Str(d.chan_id@)).insert("chan_pattern"@, JsonV::Str(d.chan_pattern@)).insert("create_time"@, JsonV::Int(d.create_time as int)).insert("update_time"@, JsonV::Int(d.update_time as int)).insert("retry_times"@, JsonV::Int(d.retry_times as int)).insert("status"@, status_json(d.status)).insert("timestamp"@, JsonV::Int(d.timestamp as int))
}
impl data::Message {
//@@ extract file=acts/src/store/db/mem/impl/message.rs in="impl DbDocument for Message" item="fn doc" name=mem::Message::doc
//@@ rw R7 `Result < HashMap < String , JsonValue > >` => `Result<HashMap>`
//@@ rw R7 `$K:lit . to_string ( )` => `str_to_string($K)`
//@@ rw R7 `json ! ( self . $F:id . clone ( ) )` => `json_of_ref(&self.$F)`
//@@ rw R7 `json ! ( self . $F:id )` => `json_of_ref(&self.$F)`
//@@ proof before=Ok#1
        proof {
            lemma_message_keys();
            //# Q7-the-document-has-every-field-under-its-own-name
            assert(map@ =~= message_doc_of(*self));
        }
//@@ spec
    ensures
        //# Q7-doc-keeps-every-field-of-the-record
        ret is Ok && ret->Ok_0@ == message_doc_of(*self),
//@@ end
}
// the keys of a packages document are pairwise different texts (string literals are opaque to the solver until revealed)
pub proof fn lemma_package_keys()
    ensures "id"@ != "desc"@, "id"@ != "icon"@, "id"@ != "doc"@, "id"@ != "version"@, "id"@ != "schema"@, "id"@ != "run_as"@, "id"@ != "resources"@, "id"@ != "catalog"@, "id"@ != "built_in"@, "id"@ != "create_time"@, "id"@ != "update_time"@, "id"@ != "timestamp"@, "desc"@ != "icon"@, "desc"@ != "doc"@, "desc"@ != "version"@, "desc"@ != "schema"@, "desc"@ != "run_as"@, "desc"@ != "resources"@, "desc"@ != "catalog"@, "desc"@ != "built_in"@, "desc"@ != "create_time"@, "desc"@ != "update_time"@, "desc"@ != "timestamp"@, "icon"@ != "doc"@, "icon"@ != "version"@, "icon"@ != "schema"@, "icon"@ != "run_as"@, "icon"@ != "resources"@, "icon"@ != "catalog"@, "icon"@ != "built_in"@, "icon"@ != "create_time"@, "icon"@ != "update_time"@, "icon"@ != "timestamp"@, "doc"@ != "version"@, "doc"@ != "schema"@, "doc"@ != "run_as"@, "doc"@ != "resources"@, "doc"@ != "catalog"@, "doc"@ != "built_in"@, "doc"@ != "create_time"@, "doc"@ != "update_time"@, "doc"@ != "timestamp"@, "version"@ != "schema"@, "version"@ != "run_as"@, "version"@ != "resources"@, "version"@ != "catalog"@, "version"@ != "built_in"@, "version"@ != "create_time"@, "version"@ != "update_time"@, "version"@ != "timestamp"@, "schema"@ != "run_as"@, "schema"@ != "resources"@, "schema"@ != "catalog"@, "schema"@ != "built_in"@, "schema"@ != "create_time"@, "schema"@ != "update_time"@, "schema"@ != "timestamp"@, "run_as"@ != "resources"@, "run_as"@ != "catalog"@, "run_as"@ != "built_in"@, "run_as"@ != "create_time"@, "run_as"@ != "update_time"@, "run_as"@ != "timestamp"@, "resources"@ != "catalog"@, "resources"@ != "built_in"@, "resources"@ != "create_time"@, "resources"@ != "update_time"@, "resources"@ != "timestamp"@, "catalog"@ != "built_in"@, "catalog"@ != "create_time"@, "catalog"@ != "update_time"@, "catalog"@ != "timestamp"@, "built_in"@ != "create_time"@, "built_in"@ != "update_time"@, "built_in"@ != "timestamp"@, "create_time"@ != "update_time"@, "create_time"@ != "timestamp"@, "update_time"@ != "timestamp"@
{
    reveal_strlit("id"); reveal_strlit("desc"); reveal_strlit("icon"); reveal_strlit("doc"); reveal_strlit("version"); reveal_strlit("schema"); reveal_strlit("run_as"); reveal_strlit("resources"); reveal_strlit("catalog"); reveal_strlit("built_in"); reveal_strlit("create_time"); reveal_strlit("update_time"); reveal_strlit("timestamp");
    assert("id"@.len() != "desc"@.len()); assert("id"@.len() != "icon"@.len()); assert("id"@.len() != "doc"@.len()); assert("id"@.len() != "version"@.len()); assert("id"@.len() != "schema"@.len()); assert("id"@.len() != "run_as"@.len()); assert("id"@.len() != "resources"@.len()); assert("id"@.len() != "catalog"@.len()); assert("id"@.len() != "built_in"@.len()); assert("id"@.len() != "create_time"@.len()); assert("id"@.len() != "update_time"@.len()); assert("id"@.len() != "timestamp"@.len()); assert("desc"@[0] != "icon"@[0]); assert("desc"@.len() != "doc"@.len()); assert("desc"@.len() != "version"@.len()); assert("desc"@.len() != "schema"@.len()); assert("desc"@.len() != "run_as"@.len()); assert("desc"@.len() != "resources"@.len()); assert("desc"@.len() != "catalog"@.len()); assert("desc"@.len() != "built_in"@.len()); assert("desc"@.len() != "create_time"@.len()); assert("desc"@.len() != "update_time"@.len()); assert("desc"@.len() != "timestamp"@.len()); assert("icon"@.len() != "doc"@.len()); assert("icon"@.len() != "version"@.len()); assert("icon"@.len() != "schema"@.len()); assert("icon"@.len() != "run_as"@.len()); assert("icon"@.len() != "resources"@.len()); assert("icon"@.len() != "catalog"@.len()); assert("icon"@.len() != "built_in"@.len()); assert("icon"@.len() != "create_time"@.len()); assert("icon"@.len() != "update_time"@.len()); assert("icon"@.len() != "timestamp"@.len()); assert("doc"@.len() != "version"@.len()); assert("doc"@.len() != "schema"@.len()); assert("doc"@.len() != "run_as"@.len()); assert("doc"@.len() != "resources"@.len()); assert("doc"@.len() != "catalog"@.len()); assert("doc"@.len() != "built_in"@.len()); assert("doc"@.len() != "create_time"@.len()); assert("doc"@.len() != "update_time"@.len()); assert("doc"@.len() != "timestamp"@.len()); assert("version"@.len() != "schema"@.len()); assert("version"@.len() != "run_as"@.len()); assert("version"@.len() != "resources"@.len()); assert("version"@[0] != "catalog"@[0]); assert("version"@.len() != "built_in"@.len()); assert("version"@.len() != "create_time"@.len()); assert("version"@.len() != "update_time"@.len()); assert("version"@.len() != "timestamp"@.len()); assert("schema"@[0] != "run_as"@[0]); assert("schema"@.len() != "resources"@.len()); assert("schema"@.len() != "catalog"@.len()); assert("schema"@.len() != "built_in"@.len()); assert("schema"@.len() != "create_time"@.len()); assert("schema"@.len() != "update_time"@.len()); assert("schema"@.len() != "timestamp"@.len()); assert("run_as"@.len() != "resources"@.len()); assert("run_as"@.len() != "catalog"@.len()); assert("run_as"@.len() != "built_in"@.len()); assert("run_as"@.len() != "create_time"@.len()); assert("run_as"@.len() != "update_time"@.len()); assert("run_as"@.len() != "timestamp"@.len()); assert("resources"@.len() != "catalog"@.len()); assert("resources"@.len() != "built_in"@.len()); assert("resources"@.len() != "create_time"@.len()); assert("resources"@.len() != "update_time"@.len()); assert("resources"@[0] != "timestamp"@[0]); assert("catalog"@.len() != "built_in"@.len()); assert("catalog"@.len() != "create_time"@.len()); assert("catalog"@.len() != "update_time"@.len()); assert("catalog"@.len() != "timestamp"@.len()); assert("built_in"@.len() != "create_time"@.len()); assert("built_in"@.len() != "update_time"@.len()); assert("built_in"@.len() != "timestamp"@.len()); assert("create_time"@[0] != "update_time"@[0]); assert("create_time"@.len() != "timestamp"@.len()); assert("update_time"@.len() != "timestamp"@.len());
}
// ---------------------------------------------------------------- packages
pub open spec fn package_doc_of(d: data::Package) -> Map<Seq<char>, JsonV> {
    Map::<Seq<char>, JsonV>::empty().insert("id"@, JsonV::Str(d.id@)).insert("desc"@, JsonV::Str(d.desc@)).insert("icon"@, JsonV::Str(d.icon@)).insert("doc"@, JsonV::Str(d.doc@)).insert("version"@, JsonV::Str(d.version@)).insert("schema"@, JsonV::Str(d.schema@)).insert("run_as"@, runas_json(d.run_as)).insert("resources"@, JsonV::Str(d.resources@)).insert("catalog"@, catalog_json(d.catalog)).insert("built_in"@, JsonV::Bool(d.built_in)).insert("create_time"@, JsonV::Int(d.create_time as int)).insert("update_time"@, JsonV::Int(d.update_time as int)).insert("timestamp"@, JsonV::Int(d.timestamp as int))
}
impl data::Package {
//@@ extract file=acts/src/store/db/mem/impl/package.rs in="impl DbDocument for Package" item="fn doc" name=mem::Package::doc
//@@ rw R7 `Result < HashMap < String , JsonValue > >` => `Result<HashMap>`
//@@ rw R7 `$K:lit . to_string ( )` => `str_to_string($K)`
//@@ rw R7 `json ! ( self . $F:id . clone ( ) )` => `json_of_ref(&self.$F)`
//@@ rw R7 `json ! ( self . $F:id )` => `json_of_ref(&self.$F)`
//@@ proof before=Ok#1
        proof {
            lemma_package_keys();
            //# Q7-the-document-has-every-field-under-its-own-name
            assert(map@ =~= package_doc_of(*self));
        }
//@@ spec
    ensures
        //# Q7-doc-keeps-every-field-of-the-record
        ret is Ok && ret->Ok_0@ == package_doc_of(*self),
//@@ end
}
} // verus!
fn main() {}
