// U-mem: the in-memory collection `Collect<T>` (acts/src/store/db/mem/collect.rs) as a whole -- C10: "create followed by find returns
// a record equal in every field, update replaces every field, delete removes the record, and a query returns exactly the records
// satisfying its AND/OR filter, ordered by the requested keys, paged by offset/limit with the true total count".
// The six operations are cut out of /repo and proved against a ghost table `docs: Map<id, Doc>` (the BTreeMap behind the RwLock).
// The helper functions the query calls (Cond::calc, Query::calc/limit/offset, Expr::op, the sort comparator) are cut out again and
// re-proved here under the same contracts as in U-query / U-order, so every call site in `query` is checked against a PROVED contract.
// TRUSTED: std BTreeMap / RwLock as an exact keyed table iterated entry by entry, std HashSet, slice::sort_by sorts by the comparator it
// is given, skip/take/collect is the sub-range, serde rebuilds a record from the document `doc()` produced (model_of).
//@@ unit U-mem
//@@ default props=C10 rewrites=R1,R2,R3,R5,R13,R15,R23 ghost="Tracked(st): Tracked<&mut MemAbs>" ghostarg="Tracked(st)" bodyprelude="broadcast use {axiom_text_cmp_swap, axiom_real_cmp_swap, axiom_kb_injective};"
//@@ heapmethods db_contains db_get db_entries db_insert db_replace db_remove
use vstd::prelude::*;
use core::cmp::Ordering;
use std::marker::PhantomData;
verus! {
// ---- serde_json, as far as the store looks at it (ASSUMED contracts on the dependency; same model as U-order)
pub enum NumV { I(int), U(int), F(int) }      // i64-valued, u64-valued beyond i64, float (opaque id)
#[verifier::external_body]
pub struct Number { _p: u8 }
impl Number {
    pub uninterp spec fn view(&self) -> NumV;
    #[verifier::external_body]
    pub fn as_i64(&self) -> (r: Option<i64>)
        ensures match self@ { NumV::I(i) => r == Some(i as i64) && i64::MIN <= i <= i64::MAX, _ => r is None } { unimplemented!() }
    #[verifier::external_body]
    pub fn as_f64(&self) -> (r: Option<f64>) ensures r is Some, f64_of(r->Some_0) == num_real(self@) { unimplemented!() }
    #[verifier::external_body]
    pub fn is_i64(&self) -> (r: bool) ensures r == (self@ is I) { unimplemented!() }
    #[verifier::external_body]
    pub fn is_f64(&self) -> (r: bool) ensures r == (self@ is F) { unimplemented!() }
    #[verifier::external_body]
    pub fn as_u64(&self) -> (r: Option<u64>)
        ensures match self@ { NumV::I(i) => (i >= 0 ==> r == Some(i as u64)) && (i < 0 ==> r is None), NumV::U(u) => r == Some(u as u64) && i64::MAX < u <= u64::MAX, NumV::F(_) => r is None } { unimplemented!() }
    #[verifier::external_body]
    pub fn is_u64(&self) -> (r: bool) ensures r == ((self@ is I && self@->I_0 >= 0) || self@ is U) { unimplemented!() }
}
pub uninterp spec fn f64_of(x: f64) -> int;            // an abstract id of the float value
pub uninterp spec fn num_real(n: NumV) -> int;         // the float a number converts to (as_f64), abstractly
pub uninterp spec fn real_cmp(a: int, b: int) -> Ordering;   // f64::partial_cmp(..).unwrap_or(Equal) on those
pub uninterp spec fn float_ord(a: int, b: int) -> Option<Ordering>;       // f64::partial_cmp on the doubles two numbers convert to
#[verifier::external_body]
pub fn f64_order(a: f64, b: f64) -> (r: Ordering) ensures r == real_cmp(f64_of(a), f64_of(b)) { unimplemented!() }
#[verifier::external_body]
pub fn f64_partial_cmp(a: f64, b: f64) -> (r: Option<Ordering>) ensures r == float_ord(f64_of(a), f64_of(b)) { unimplemented!() }

#[verifier::external_body]
pub struct Opaque { _p: u8 }
pub enum JsonValue { Null, Bool(bool), Number(Number), String(String), Array(Opaque), Object(Opaque) }
pub type Value = JsonValue;
pub mod serde_json { pub use super::JsonValue as Value; pub use super::Number; }
// TRUSTED: derived Clone is a deep copy
impl Clone for JsonValue { #[verifier::external_body] fn clone(&self) -> (r: Self) ensures r == *self { unimplemented!() } }
pub uninterp spec fn json_text(v: JsonValue) -> Seq<char>;          // serde_json's Display of the value
pub uninterp spec fn text_cmp(a: Seq<char>, b: Seq<char>) -> Ordering;   // byte-wise order of two strings (Ord for String)
pub uninterp spec fn json_eq(a: JsonValue, b: JsonValue) -> bool;        // serde_json's PartialEq on values that are not both numbers
impl JsonValue {
    #[verifier::external_body]
    pub fn to_string(&self) -> (r: String) ensures r@ == json_text(*self) { unimplemented!() }
}
impl PartialEq for JsonValue {
    #[verifier::external_body]
    fn eq(&self, other: &Self) -> (r: bool) ensures r == json_eq(*self, *other) { unimplemented!() }
}
#[verifier::external_body]
pub fn ord_is(o: &Option<Ordering>, x: Ordering) -> (r: bool) ensures r == (*o == Some(x)) { unimplemented!() }
#[verifier::external_body]
pub fn json_same(a: &JsonValue, b: &JsonValue) -> (r: bool) ensures r == json_eq(*a, *b) { unimplemented!() }
pub assume_specification[ <String as Ord>::cmp ](a: &String, b: &String) -> (r: Ordering) ensures r == text_cmp(a@, b@);
pub open spec fn ord_then(a: Ordering, b: Ordering) -> Ordering { if a is Equal { b } else { a } }
pub open spec fn ord_rev(a: Ordering) -> Ordering {
    match a { Ordering::Less => Ordering::Greater, Ordering::Equal => Ordering::Equal, Ordering::Greater => Ordering::Less }
}
pub assume_specification[ Ordering::then ](a: Ordering, b: Ordering) -> (r: Ordering) ensures r == ord_then(a, b);
pub assume_specification[ Ordering::reverse ](a: Ordering) -> (r: Ordering) ensures r == ord_rev(a);
pub open spec fn int_cmp(a: int, b: int) -> Ordering { if a < b { Ordering::Less } else if a == b { Ordering::Equal } else { Ordering::Greater } }
#[verifier::external_body]
pub broadcast proof fn axiom_text_cmp_swap(a: Seq<char>, b: Seq<char>) ensures #[trigger] text_cmp(b, a) == ord_rev(text_cmp(a, b)) {}
#[verifier::external_body]
pub broadcast proof fn axiom_real_cmp_swap(a: int, b: int) ensures #[trigger] real_cmp(b, a) == ord_rev(real_cmp(a, b)) {}

// ---- a stored document: field name -> JSON value (std HashMap<String, JsonValue>)
pub trait KeyText { spec fn text(&self) -> Seq<char>; }
impl KeyText for str { open spec fn text(&self) -> Seq<char> { self@ } }
impl KeyText for String { open spec fn text(&self) -> Seq<char> { self@ } }
#[verifier::external_body]
pub struct Doc { _p: u8 }
impl Doc {
    pub uninterp spec fn field(&self, k: Seq<char>) -> Option<JsonValue>;
    #[verifier::external_body]
    pub fn get<Q: KeyText + ?Sized>(&self, k: &Q) -> (r: Option<&JsonValue>)
        ensures r is Some <==> self.field(k.text()) is Some, r is Some ==> *r->Some_0 == self.field(k.text())->Some_0 { unimplemented!() }
}

// ---- std HashSet<Box<[u8]>> as a mathematical set (ASSUMED std semantics)
#[verifier::external_body]
#[verifier::reject_recursive_types(K)]
pub struct HashSet<K> { _k: std::marker::PhantomData<K> }
impl<K> HashSet<K> {
    pub uninterp spec fn view(&self) -> Set<K>;
    #[verifier::external_body]
    pub fn new() -> (r: Self) ensures r@ == Set::<K>::empty() { unimplemented!() }
    #[verifier::external_body]
    pub fn is_empty(&self) -> (r: bool) ensures r == (self@ =~= Set::<K>::empty()) { unimplemented!() }
    #[verifier::external_body]
    pub fn insert(&mut self, k: K) ensures final(self)@ == old(self)@.insert(k) { unimplemented!() }
}
impl<K> Clone for HashSet<K> {
    #[verifier::external_body]
    fn clone(&self) -> (r: Self) ensures r@ == self@ { unimplemented!() }
}
#[verifier::external_body]
pub fn hs_intersection<K>(a: &HashSet<K>, b: &HashSet<K>) -> (r: HashSet<K>) ensures r@ == a@.intersect(b@) { unimplemented!() }
#[verifier::external_body]
pub fn hs_union<K>(a: &HashSet<K>, b: &HashSet<K>) -> (r: HashSet<K>) ensures r@ == a@.union(b@) { unimplemented!() }
// the set element made of a record id: `k.as_bytes().to_vec().into_boxed_slice()` (R7) -- UTF-8 bytes of the id, injective
pub uninterp spec fn kb(id: Seq<char>) -> Box<[u8]>;
#[verifier::external_body]
pub broadcast proof fn axiom_kb_injective(a: Seq<char>, b: Seq<char>) ensures #[trigger] kb(a) == #[trigger] kb(b) ==> a == b {}
#[verifier::external_body]
pub fn key_box(k: &String) -> (r: Box<[u8]>) ensures r == kb(k@) { unimplemented!() }

// ---- the real query types
//@@ extract file=acts/src/store/query.rs item="enum CondType" name=CondType
//@@ opt structural dropderive=Clone
//@@ end
//@@ extract file=acts/src/store/query.rs item="enum ExprOp" name=ExprOp
//@@ opt structural dropderive=Clone
//@@ end
//@@ extract file=acts/src/store/query.rs item="struct Expr" name=Expr
//@@ opt dropderive=Clone
//@@ end
//@@ extract file=acts/src/store/query.rs item="struct Cond" name=Cond
//@@ opt dropderive=Clone
//@@ end
//@@ extract file=acts/src/store/query.rs item="struct Query" name=Query
//@@ opt dropderive=Clone
//@@ end
// TRUSTED: derived Clone is a deep copy
impl Clone for CondType { #[verifier::external_body] fn clone(&self) -> (r: Self) ensures r == *self { unimplemented!() } }
impl Clone for ExprOp { #[verifier::external_body] fn clone(&self) -> (r: Self) ensures r == *self { unimplemented!() } }
impl Clone for Expr { #[verifier::external_body] fn clone(&self) -> (r: Self) ensures r == *self { unimplemented!() } }
impl Clone for Cond { #[verifier::external_body] fn clone(&self) -> (r: Self) ensures r == *self { unimplemented!() } }
impl Clone for Query { #[verifier::external_body] fn clone(&self) -> (r: Self) ensures r == *self { unimplemented!() } }
// R7: `V.clone()` of a Vec<Expr> (deep copy)
#[verifier::external_body]
pub fn clone_exprs(v: &Vec<Expr>) -> (r: Vec<Expr>) ensures r@ == v@ { unimplemented!() }
//@@ extract file=acts/src/store/mod.rs item="struct PageData" name=PageData
//@@ end
#[derive(Debug)]
pub enum ActError { Store(String), Other }
pub type Result<T> = std::result::Result<T, ActError>;
#[verifier::external_body]
pub fn fmt_opaque() -> String { unimplemented!() }

// ---- oracle of the filter (from the statement: "exactly the records satisfying its AND/OR filter"; operators as in U-order)
pub open spec fn num_ord(a: NumV, b: NumV) -> Option<Ordering> {
    match (a, b) {
        (NumV::I(i), NumV::I(j)) => Some(int_cmp(i, j)),
        (NumV::U(i), NumV::U(j)) => Some(int_cmp(i, j)),
        (NumV::I(_), NumV::U(_)) => Some(Ordering::Less),
        (NumV::U(_), NumV::I(_)) => Some(Ordering::Greater),
        _ => float_ord(num_real(a), num_real(b)),
    }
}
pub open spec fn op_holds(op: ExprOp, l: JsonValue, r: JsonValue) -> bool {
    if l is Number && r is Number {
        let o = num_ord(l->Number_0@, r->Number_0@);
        match op {
            ExprOp::EQ => o == Some(Ordering::Equal), ExprOp::NE => o != Some(Ordering::Equal),
            ExprOp::LT => o == Some(Ordering::Less), ExprOp::LE => o == Some(Ordering::Less) || o == Some(Ordering::Equal),
            ExprOp::GT => o == Some(Ordering::Greater), ExprOp::GE => o == Some(Ordering::Greater) || o == Some(Ordering::Equal),
        }
    } else { match op { ExprOp::EQ => json_eq(l, r), ExprOp::NE => !json_eq(l, r), _ => false } }
}
pub open spec fn expr_holds(e: Expr, d: Doc) -> bool { d.field(e.key@) is Some && op_holds(e.op, d.field(e.key@)->Some_0, e.value) }
pub open spec fn cond_holds(c: Cond, d: Doc) -> bool {
    match c.r#type {
        CondType::And => forall|i: int| 0 <= i < c.conds@.len() ==> expr_holds(#[trigger] c.conds@[i], d),
        CondType::Or => exists|i: int| 0 <= i < c.conds@.len() && expr_holds(#[trigger] c.conds@[i], d),
    }
}
pub open spec fn query_holds(q: Query, d: Doc) -> bool { forall|i: int| 0 <= i < q.conds@.len() ==> cond_holds(#[trigger] q.conds@[i], d) }
// every document has every key the query filters on (otherwise the real code answers Err)
pub open spec fn q_limit(q: Query) -> int { if q.limit == 0 { 50 } else { q.limit as int } }
pub open spec fn doc_has_filter_keys(q: Query, d: Doc) -> bool {
    forall|i: int, j: int| 0 <= i < q.conds@.len() && 0 <= j < q.conds@[i].conds@.len() ==> d.field((#[trigger] q.conds@[i].conds@[j]).key@) is Some
}

// ---- oracle of the order (from the statement: "ordered by the requested keys (numbers numerically)")
pub open spec fn key_cmp(x: JsonValue, y: JsonValue) -> Ordering {
    if x is Number && y is Number {
        if x->Number_0@ is I && y->Number_0@ is I { int_cmp(x->Number_0@->I_0, y->Number_0@->I_0) }
        else { real_cmp(num_real(x->Number_0@), num_real(y->Number_0@)) }
    } else { text_cmp(json_text(x), json_text(y)) }
}
pub proof fn lemma_key_cmp_swap(x: JsonValue, y: JsonValue)
    ensures key_cmp(y, x) == ord_rev(key_cmp(x, y))
{
    broadcast use {axiom_text_cmp_swap, axiom_real_cmp_swap};
    if x is Number && y is Number {
        if x->Number_0@ is I && y->Number_0@ is I {} else { axiom_real_cmp_swap(num_real(x->Number_0@), num_real(y->Number_0@)); }
    } else { axiom_text_cmp_swap(json_text(x), json_text(y)); }
}
pub open spec fn dir(c: Ordering, rev: bool) -> Ordering { if rev { ord_rev(c) } else { c } }
pub open spec fn lex_cmp(a: Doc, b: Doc, keys: Seq<(String, bool)>, n: int) -> Ordering
    decreases n
{
    if n <= 0 { Ordering::Equal }
    else { ord_then(lex_cmp(a, b, keys, n - 1), dir(key_cmp(a.field(keys[n - 1].0@)->Some_0, b.field(keys[n - 1].0@)->Some_0), keys[n - 1].1)) }
}
pub open spec fn has_keys(d: Doc, keys: Seq<(String, bool)>) -> bool { forall|i: int| 0 <= i < keys.len() ==> d.field((#[trigger] keys[i]).0@) is Some }

// ---- AND/OR accumulation oracle (as in U-query)
pub open spec fn acc_and<K>(fed: Seq<Set<K>>) -> Set<K>
    decreases fed.len()
{
    if fed.len() <= 1 { if fed.len() == 1 { fed[0] } else { Set::empty() } } else { acc_and(fed.drop_last()).intersect(fed.last()) }
}
pub open spec fn acc_or<K>(fed: Seq<Set<K>>) -> Set<K>
    decreases fed.len()
{
    if fed.len() == 0 { Set::empty() } else { acc_or(fed.drop_last()).union(fed.last()) }
}
pub open spec fn cond_acc(t: CondType, fed: Seq<Set<Box<[u8]>>>) -> Set<Box<[u8]>> {
    match t { CondType::And => acc_and(fed), CondType::Or => acc_or(fed) }
}
pub open spec fn query_results(conds: Seq<Cond>) -> Seq<Set<Box<[u8]>>> { conds.map_values(|c: Cond| c.result@) }

//@@ extract file=acts/src/store/db/mem/collect.rs item="fn cmp_number" name=cmp_number
//@@ opt noghost
//@@ rw R7 `v1 . partial_cmp ( & v2 )` => `f64_partial_cmp(v1, v2)`
//@@ spec
    ensures
        //# Q2-two-numbers-are-ordered-by-their-value
        ret == num_ord(v1@, v2@),
//@@ end
//@@ extract file=acts/src/store/db/mem/collect.rs item="fn cmp_value" name=cmp_value
//@@ opt noghost
//@@ rw R7 `$A:id . partial_cmp ( & $B:id ) . unwrap_or ( Ordering :: Equal )` => `f64_order($A, $B)`
//@@ spec
    ensures
        //# Q5-one-key-numbers-numerically-else-by-text
        ret == key_cmp(*l, *r),
//@@ end

impl Expr {
//@@ extract file=acts/src/store/query.rs in="impl Expr" item="fn key" name=Expr::key
//@@ opt noghost
//@@ spec
    ensures ret@ == self.key@
//@@ end
//@@ extract file=acts/src/store/query.rs in="impl Expr" item="fn value" name=Expr::value
//@@ opt noghost
//@@ spec
    ensures *ret == self.value
//@@ end
//@@ extract file=acts/src/store/db/mem/collect.rs in="impl Expr" item="fn op" name=Expr::op
//@@ opt noghost
//@@ rw R7 `l != r` => `!json_same(l, r)`
//@@ rw R7 `l == r` => `json_same(l, r)`
//@@ rw R7 `ord == Some ( Ordering :: $V:id )` => `ord_is(&ord, Ordering::$V)`
//@@ rw R7 `ord != Some ( Ordering :: $V:id )` => `!ord_is(&ord, Ordering::$V)`
//@@ spec
    ensures
        //# Q2-a-comparison-holds-iff-it-holds-numerically-for-numbers-and-by-equality-otherwise
        ret == op_holds(self.op, *l, *r),
//@@ end
}

impl Cond {
//@@ extract file=acts/src/store/query.rs in="impl Cond" item="fn conds" name=Cond::conds
//@@ opt noghost
//@@ spec
    ensures *ret == self.conds
//@@ end
//@@ extract file=acts/src/store/db/mem/collect.rs in="impl Cond" item="fn calc" name=Cond::calc
//@@ opt ghost="Ghost(fed): Ghost<Seq<Set<Box<[u8]>>>>"
//@@ rw R7 `$A:chain . intersection ( $B ) . cloned ( ) . collect :: < HashSet < _ > > ( )` => `hs_intersection(&$A, $B)`
//@@ rw R7 `$A:chain . union ( $B ) . cloned ( ) . collect :: < HashSet < _ > > ( )` => `hs_union(&$A, $B)`
//@@ spec
    requires
        old(self).calculated == (fed.len() > 0),
        fed.len() > 0 ==> old(self).result@ =~= cond_acc(old(self).r#type, fed),
    ensures
        //# Q1-cond-acc
        final(self).result@ =~= cond_acc(old(self).r#type, fed.push(v@)),
        //# Q1-cond-inv
        final(self).calculated,
        //# Q1-frame
        final(self).r#type == old(self).r#type && final(self).conds == old(self).conds,
//@@ proof at=start
        proof { reveal_with_fuel(acc_or, 2); reveal_with_fuel(acc_and, 2); assert(fed.push(v@).drop_last() =~= fed); assert(fed.push(v@).last() == v@); }
//@@ end
}

impl Query {
//@@ extract file=acts/src/store/query.rs in="impl Query" item="fn calc" name=Query::calc
//@@ opt noghost
//@@ rw R7 `$A:chain . intersection ( $B ) . cloned ( ) . collect :: < HashSet < _ > > ( )` => `hs_intersection(&$A, $B)`
//@@ spec
    requires
        self.conds@.len() > 0,
    ensures
        //# Q1-query-and
        ret@ =~= acc_and(query_results(self.conds@)),
//@@ loop 1
        invariant
            //# Q1-vec
            __v1@ == self.conds@,
            //# Q1-first-flag
            first == (__i1 == 0),
            //# Q1-prefix
            __i1 > 0 ==> result@ =~= acc_and(query_results(__v1@).take(__i1 as int)),
            //# Q1-done
            __i1 == __v1@.len() ==> result@ =~= acc_and(query_results(__v1@)),
//@@ proof at=loop1
            proof {
                let i = __i1 as int;
                let qs = query_results(__v1@);
                assert(qs.take(i + 1).drop_last() =~= qs.take(i));
                assert(qs.take(i + 1).last() == __v1@[i].result@);
                assert(qs.take(qs.len() as int) =~= qs);
            }
//@@ end
//@@ extract file=acts/src/store/query.rs in="impl Query" item="fn limit" name=Query::limit
//@@ opt noghost
//@@ spec
    ensures
        //# Q3-limit-nonzero
        ret > 0,
        //# Q3-limit
        ret == (if self.limit == 0 { 50usize } else { self.limit }),
//@@ end
//@@ extract file=acts/src/store/query.rs in="impl Query" item="fn offset" name=Query::offset
//@@ opt noghost
//@@ spec
    ensures
        //# Q3-offset
        ret == self.offset,
//@@ end
//@@ extract file=acts/src/store/query.rs in="impl Query" item="fn is_cond" name=Query::is_cond
//@@ opt noghost
//@@ spec
    ensures
        //# Q1-is-cond
        ret == (self.conds@.len() > 0),
//@@ end
//@@ extract file=acts/src/store/query.rs in="impl Query" item="fn order_by" name=Query::order_by
//@@ opt noghost
//@@ spec
    ensures *ret == self.order_by
//@@ end
}

// ---- the sort comparator of Collect::query (closure lifted, R9)
//@@ extract file=acts/src/store/db/mem/collect.rs in="impl<T> DbCollection for Collect<T>" item="fn query" closure=params:a,b name=Collect::query::order sig="pub fn query_order(a: &Doc, b: &Doc, q: &Query) -> Ordering"
//@@ opt noghost
//@@ proof at=start
        proof { reveal_with_fuel(lex_cmp, 2); }
//@@ proof at=loop1
                    proof {
                        let k = q.order_by@[__i1 as int];
                        lemma_key_cmp_swap(a.field(k.0@)->Some_0, b.field(k.0@)->Some_0);
                    }
//@@ spec
    requires has_keys(*a, q.order_by@), has_keys(*b, q.order_by@)
    ensures
        //# Q5-ordered-by-the-requested-keys-each-in-its-direction
        ret == lex_cmp(*a, *b, q.order_by@, q.order_by@.len() as int),
//@@ loop 1
        invariant
            //# Q5-prefix-order
            __v1@ == q.order_by@ && ret == lex_cmp(*a, *b, q.order_by@, __i1 as int) && has_keys(*a, q.order_by@) && has_keys(*b, q.order_by@),
//@@ end

// ---- the table behind the lock: BTreeMap<String, Doc> (ASSUMED: an exact keyed table; iteration visits every entry once)
pub tracked struct MemAbs {
    pub ghost docs: Map<Seq<char>, Doc>,
    // ghost results of the last `query` (what the answer is an answer TO): the enumeration of the table it saw and the ordered match list it paged
    pub ghost q_entries: Seq<(String, Doc)>,
    pub ghost q_sorted: Seq<Doc>,
}
#[verifier::external_body]
pub struct DbCell { _p: u8 }
pub open spec fn entries_of(docs: Map<Seq<char>, Doc>, es: Seq<(String, Doc)>) -> bool {
    &&& forall|i: int| 0 <= i < es.len() ==> docs.dom().contains((#[trigger] es[i]).0@) && docs[es[i].0@] == es[i].1
    &&& forall|i: int, j: int| 0 <= i < j < es.len() ==> (#[trigger] es[i]).0@ != (#[trigger] es[j]).0@
    &&& forall|k: Seq<char>| docs.dom().contains(k) ==> exists|i: int| 0 <= i < es.len() && (#[trigger] es[i]).0@ == k
}
// R11: `self.db.read().unwrap().contains_key(id)`
#[verifier::external_body]
pub fn db_contains(db: &DbCell, id: &str, Tracked(st): Tracked<&mut MemAbs>) -> (r: bool)
    ensures r == old(st).docs.dom().contains(id@), *final(st) == *old(st) { unimplemented!() }
// R11: `self.db.read().unwrap().get(id)`
#[verifier::external_body]
pub fn db_get<'a>(db: &'a DbCell, id: &str, Tracked(st): Tracked<&mut MemAbs>) -> (r: Option<&'a Doc>)
    ensures r is Some <==> old(st).docs.dom().contains(id@), r is Some ==> *r->Some_0 == old(st).docs[id@], *final(st) == *old(st) { unimplemented!() }
// R11: `self.db.read().unwrap()` iterated: the entries of the table
#[verifier::external_body]
pub fn db_entries(db: &DbCell, Tracked(st): Tracked<&mut MemAbs>) -> (r: Vec<(String, Doc)>)
    ensures entries_of(old(st).docs, r@), *final(st) == *old(st) { unimplemented!() }
// R11: `self.db.write().unwrap().insert(k, v)`
#[verifier::external_body]
pub fn db_insert(db: &DbCell, k: String, v: Doc, Tracked(st): Tracked<&mut MemAbs>)
    ensures *final(st) == (MemAbs { docs: old(st).docs.insert(k@, v), ..*old(st) }) { unimplemented!() }
// R11: `self.db.write().unwrap().entry(k).and_modify(|iter| *iter = v)`: replace when present, nothing otherwise
#[verifier::external_body]
pub fn db_replace(db: &DbCell, k: String, v: Doc, Tracked(st): Tracked<&mut MemAbs>)
    ensures *final(st) == (MemAbs { docs: if old(st).docs.dom().contains(k@) { old(st).docs.insert(k@, v) } else { old(st).docs }, ..*old(st) }) { unimplemented!() }
// R11: `self.db.write().unwrap().remove(id)`
#[verifier::external_body]
pub fn db_remove(db: &DbCell, id: &str, Tracked(st): Tracked<&mut MemAbs>)
    ensures *final(st) == (MemAbs { docs: old(st).docs.remove(id@), ..*old(st) }) { unimplemented!() }
#[verifier::external_body]
pub fn str_to_string(s: &str) -> (r: String) ensures r@ == s@ { unimplemented!() }

// the record type of a collection: its id and its document (`doc` is under contract in U-memdoc: every field under its own key, never Err)
pub trait DbDocument: Sized {
    spec fn sid(&self) -> Seq<char>;
    spec fn sdoc(&self) -> Doc;
    spec fn doc_ok(&self) -> bool;      // `doc()` succeeds (U-memdoc proves `ret is Ok` for the six record types)
    fn id(&self) -> (r: &str) ensures r@ == self.sid();
    fn doc(&self) -> (r: Result<Doc>) ensures self.doc_ok() ==> r is Ok, r is Ok ==> r->Ok_0 == self.sdoc();
}
// TRUSTED: serde rebuilds the record from a stored document (the inverse of `doc`, field for field)
pub uninterp spec fn model_of<T>(d: Doc) -> T;
#[verifier::external_body]
pub fn map_to_model<T>(map: &Doc) -> (r: Result<T>) ensures r is Ok, r->Ok_0 == model_of::<T>(*map) { unimplemented!() }

pub struct Collect<T> { pub name: String, pub db: DbCell, pub _t: PhantomData<T> }

impl<T: DbDocument> Collect<T> {
//@@ extract file=acts/src/store/db/mem/collect.rs in="impl<T> DbCollection for Collect<T>" item="fn exists" name=Collect::exists
//@@ rw R11 `self . db . read ( ) . unwrap ( ) . contains_key ( id )` => `db_contains(&self.db, id)`
//@@ spec
    ensures
        //# M1-exists-iff-stored
        ret is Ok && ret->Ok_0 == old(st).docs.dom().contains(id@),
        //# M1-exists-reads-only
        *final(st) == *old(st),
//@@ end
//@@ extract file=acts/src/store/db/mem/collect.rs in="impl<T> DbCollection for Collect<T>" item="fn find" name=Collect::find
//@@ rw R7 `Self :: Item` => `T`
//@@ rw R11 `self . db . read ( ) . unwrap ( ) . get ( id )` => `db_get(&self.db, id)`
//@@ rw R7 `. map ( | iter | map_to_model :: < T > ( iter ) . unwrap ( ) )` => `.map(|iter: &Doc| -> (m: T) ensures m == model_of::<T>(*iter) { map_to_model::<T>(iter).unwrap() })`
//@@ spec
    ensures
        //# M2-find-returns-the-stored-record
        old(st).docs.dom().contains(id@) ==> ret is Ok && ret->Ok_0 == model_of::<T>(old(st).docs[id@]),
        //# M2-find-fails-iff-absent
        !old(st).docs.dom().contains(id@) ==> ret is Err,
        //# M2-find-reads-only
        *final(st) == *old(st),
//@@ end
//@@ extract file=acts/src/store/db/mem/collect.rs in="impl<T> DbCollection for Collect<T>" item="fn create" name=Collect::create
//@@ rw R7 `Self :: Item` => `T`
//@@ rw R7 `data . id ( ) . to_string ( )` => `str_to_string(data.id())`
//@@ rw R11 `self . db . write ( ) . unwrap ( ) . insert ( $A:args )` => `db_insert(&self.db, $A)`
//@@ spec
    ensures
        //# M3-create-stores-the-document-under-the-id
        ret is Ok ==> final(st).docs == old(st).docs.insert(data.sid(), data.sdoc()),
        //# M3-a-refused-create-writes-nothing
        ret is Err ==> *final(st) == *old(st),
//@@ end
//@@ extract file=acts/src/store/db/mem/collect.rs in="impl<T> DbCollection for Collect<T>" item="fn update" name=Collect::update
//@@ rw R7 `Self :: Item` => `T`
//@@ rw R7 `data . id ( ) . to_string ( )` => `str_to_string(data.id())`
//@@ rw R11 `self . db . write ( ) . unwrap ( ) . entry ( $K:args ) . and_modify ( | iter | * iter = $V:args )` => `db_replace(&self.db, $K, $V)`
//@@ spec
    requires
        // `doc()` never fails for the six record types (U-memdoc: `ret is Ok`); `update` unwraps it
        data.doc_ok(),
    ensures
        //# M4-update-replaces-the-whole-document
        ret is Ok && old(st).docs.dom().contains(data.sid()) ==> final(st).docs == old(st).docs.insert(data.sid(), data.sdoc()),
        //# M4-update-of-an-absent-record-writes-nothing
        !old(st).docs.dom().contains(data.sid()) ==> *final(st) == *old(st),
        //# M4-other-records-untouched
        forall|k: Seq<char>| k != data.sid() && old(st).docs.dom().contains(k) ==> final(st).docs.dom().contains(k) && final(st).docs[k] == old(st).docs[k],
//@@ end
//@@ extract file=acts/src/store/db/mem/collect.rs in="impl<T> DbCollection for Collect<T>" item="fn delete" name=Collect::delete
//@@ rw R11 `self . db . write ( ) . unwrap ( ) . remove ( id )` => `db_remove(&self.db, id)`
//@@ spec
    ensures
        //# M5-delete-removes-exactly-that-record
        ret is Ok && final(st).docs == old(st).docs.remove(id@),
//@@ end
}

// ---- the whole query ---------------------------------------------------------------------------------------------------------
pub open spec fn derefs(s: Seq<&Doc>) -> Seq<Doc> { s.map_values(|d: &Doc| *d) }
// named spec functions (so that every occurrence is the same term)
pub open spec fn qh(q: Query) -> spec_fn((String, Doc)) -> bool { |e: (String, Doc)| query_holds(q, e.1) }
pub open spec fn eh(x: Expr) -> spec_fn(Doc) -> bool { |d: Doc| expr_holds(x, d) }
pub open spec fn in_items(items: Set<Box<[u8]>>) -> spec_fn((String, Doc)) -> bool { |e: (String, Doc)| items.contains(kb(e.0@)) }
pub open spec fn snd() -> spec_fn((String, Doc)) -> Doc { |e: (String, Doc)| e.1 }
pub open spec fn to_model<T>() -> spec_fn(Doc) -> T { |d: Doc| model_of::<T>(d) }
// s is the set of the ids (as set elements) of the first n entries whose document satisfies p
pub open spec fn is_keyset(s: Set<Box<[u8]>>, es: Seq<(String, Doc)>, n: int, p: spec_fn(Doc) -> bool) -> bool {
    forall|b: Box<[u8]>| #[trigger] s.contains(b) <==> exists|i: int| 0 <= i < n && b == kb((#[trigger] es[i]).0@) && p(es[i].1)
}
pub open spec fn distinct_keys(es: Seq<(String, Doc)>) -> bool { forall|i: int, j: int| 0 <= i < j < es.len() ==> (#[trigger] es[i]).0@ != (#[trigger] es[j]).0@ }
pub proof fn lemma_keyset_mem(s: Set<Box<[u8]>>, es: Seq<(String, Doc)>, p: spec_fn(Doc) -> bool, i: int)
    requires distinct_keys(es), 0 <= i < es.len(), is_keyset(s, es, es.len() as int, p),
    ensures s.contains(kb(es[i].0@)) <==> p(es[i].1)
{
    if s.contains(kb(es[i].0@)) {
        let j = choose|j: int| 0 <= j < es.len() && kb(es[i].0@) == kb((#[trigger] es[j]).0@) && p(es[j].1);
        axiom_kb_injective(es[i].0@, es[j].0@);
        if i < j { assert(es[i].0@ != es[j].0@); } else if j < i { assert(es[j].0@ != es[i].0@); }
    }
    if p(es[i].1) { assert(0 <= i < es.len() && kb(es[i].0@) == kb(es[i].0@) && p(es[i].1)); }
}
pub proof fn lemma_acc_and_mem<K>(fed: Seq<Set<K>>, x: K)
    requires fed.len() >= 1
    ensures acc_and(fed).contains(x) <==> (forall|m: int| 0 <= m < fed.len() ==> (#[trigger] fed[m]).contains(x))
    decreases fed.len()
{
    reveal_with_fuel(acc_and, 2);
    if fed.len() > 1 {
        lemma_acc_and_mem(fed.drop_last(), x);
        assert forall|m: int| 0 <= m < fed.len() - 1 implies fed.drop_last()[m] == fed[m] by {}
        if acc_and(fed).contains(x) {
            assert forall|m: int| 0 <= m < fed.len() implies (#[trigger] fed[m]).contains(x) by { if m < fed.len() - 1 { assert(fed.drop_last()[m].contains(x)); } }
        }
        if forall|m: int| 0 <= m < fed.len() ==> (#[trigger] fed[m]).contains(x) {
            assert forall|m: int| 0 <= m < fed.drop_last().len() implies (#[trigger] fed.drop_last()[m]).contains(x) by { assert(fed[m].contains(x)); }
            assert(fed[fed.len() - 1].contains(x));
        }
    }
}
pub proof fn lemma_acc_or_mem<K>(fed: Seq<Set<K>>, x: K)
    ensures acc_or(fed).contains(x) <==> (exists|m: int| 0 <= m < fed.len() && (#[trigger] fed[m]).contains(x))
    decreases fed.len()
{
    reveal_with_fuel(acc_or, 2);
    if fed.len() > 0 {
        lemma_acc_or_mem(fed.drop_last(), x);
        if acc_or(fed).contains(x) {
            if fed.last().contains(x) { assert(fed[fed.len() - 1].contains(x)); }
            else { let m = choose|m: int| 0 <= m < fed.drop_last().len() && (#[trigger] fed.drop_last()[m]).contains(x); assert(fed[m].contains(x)); }
        }
        if exists|m: int| 0 <= m < fed.len() && (#[trigger] fed[m]).contains(x) {
            let m = choose|m: int| 0 <= m < fed.len() && (#[trigger] fed[m]).contains(x);
            if m < fed.len() - 1 { assert(fed.drop_last()[m].contains(x)); }
        }
    }
}
// the accumulated result of one condition = the ids of the documents that satisfy it
pub proof fn lemma_cond_keyset(es: Seq<(String, Doc)>, c: Cond, fed: Seq<Set<Box<[u8]>>>)
    requires distinct_keys(es), c.conds@.len() >= 1, fed.len() == c.conds@.len(),
        forall|m: int| 0 <= m < fed.len() ==> is_keyset(#[trigger] fed[m], es, es.len() as int, eh(c.conds@[m])),
    ensures forall|i: int| 0 <= i < es.len() ==> (cond_acc(c.r#type, fed).contains(kb((#[trigger] es[i]).0@)) <==> cond_holds(c, es[i].1)),
        forall|b: Box<[u8]>| cond_acc(c.r#type, fed).contains(b) ==> exists|i: int| 0 <= i < es.len() && b == kb((#[trigger] es[i]).0@),
{
    assert forall|i: int| 0 <= i < es.len() implies (cond_acc(c.r#type, fed).contains(kb((#[trigger] es[i]).0@)) <==> cond_holds(c, es[i].1)) by {
        let x = kb(es[i].0@);
        let d = es[i].1;
        assert forall|m: int| 0 <= m < fed.len() implies ((#[trigger] fed[m]).contains(x) <==> expr_holds(c.conds@[m], d)) by {
            lemma_keyset_mem(fed[m], es, eh(c.conds@[m]), i);
            assert(eh(c.conds@[m])(d) == expr_holds(c.conds@[m], d));
        }
        match c.r#type {
            CondType::And => {
                lemma_acc_and_mem(fed, x);
                if cond_holds(c, d) {
                    assert forall|m: int| 0 <= m < fed.len() implies (#[trigger] fed[m]).contains(x) by { assert(expr_holds(c.conds@[m], d)); }
                }
                if acc_and(fed).contains(x) {
                    assert forall|m: int| 0 <= m < c.conds@.len() implies expr_holds(#[trigger] c.conds@[m], d) by { assert(fed[m].contains(x)); }
                }
            }
            CondType::Or => {
                lemma_acc_or_mem(fed, x);
                if cond_holds(c, d) { let m = choose|m: int| 0 <= m < c.conds@.len() && expr_holds(#[trigger] c.conds@[m], d); assert(fed[m].contains(x)); }
                if acc_or(fed).contains(x) {
                    let m = choose|m: int| 0 <= m < fed.len() && (#[trigger] fed[m]).contains(x); assert(expr_holds(c.conds@[m], d));
                }
            }
        }
    }
    assert forall|b: Box<[u8]>| cond_acc(c.r#type, fed).contains(b) implies exists|i: int| 0 <= i < es.len() && b == kb((#[trigger] es[i]).0@) by {
        match c.r#type {
            CondType::And => { lemma_acc_and_mem(fed, b); assert(fed[0].contains(b)); }
            CondType::Or => { lemma_acc_or_mem(fed, b); let m = choose|m: int| 0 <= m < fed.len() && (#[trigger] fed[m]).contains(b); assert(fed[m].contains(b)); }
        }
    }
}
pub open spec fn matches_of(es: Seq<(String, Doc)>, q: Query) -> Seq<Doc> {
    es.filter(qh(q)).map_values(snd())
}
pub proof fn lemma_filter_agree<A>(s: Seq<A>, p: spec_fn(A) -> bool, r: spec_fn(A) -> bool)
    requires forall|i: int| 0 <= i < s.len() ==> (p(#[trigger] s[i]) <==> r(s[i]))
    ensures s.filter(p) == s.filter(r)
    decreases s.len()
{
    reveal_with_fuel(Seq::filter, 2);
    if s.len() > 0 {
        assert forall|i: int| 0 <= i < s.drop_last().len() implies (p(#[trigger] s.drop_last()[i]) <==> r(s.drop_last()[i])) by { assert(s.drop_last()[i] == s[i]); }
        lemma_filter_agree(s.drop_last(), p, r);
        assert(p(s.last()) <==> r(s.last())) by { assert(s.last() == s[s.len() - 1]); }
    }
}
pub proof fn lemma_filter_all<A>(s: Seq<A>, p: spec_fn(A) -> bool)
    requires forall|i: int| 0 <= i < s.len() ==> p(#[trigger] s[i])
    ensures s.filter(p) == s
    decreases s.len()
{
    reveal_with_fuel(Seq::filter, 2);
    if s.len() > 0 {
        assert forall|i: int| 0 <= i < s.drop_last().len() implies p(#[trigger] s.drop_last()[i]) by { assert(s.drop_last()[i] == s[i]); }
        lemma_filter_all(s.drop_last(), p);
        assert(p(s.last())) by { assert(s.last() == s[s.len() - 1]); }
        assert(s.drop_last().push(s.last()) =~= s);
    }
}
pub proof fn lemma_filter_elems<A>(s: Seq<A>, p: spec_fn(A) -> bool)
    ensures forall|i: int| 0 <= i < s.filter(p).len() ==> s.contains(#[trigger] s.filter(p)[i]) && p(s.filter(p)[i])
    decreases s.len()
{
    reveal_with_fuel(Seq::filter, 2);
    if s.len() > 0 {
        lemma_filter_elems(s.drop_last(), p);
        assert forall|i: int| 0 <= i < s.filter(p).len() implies s.contains(#[trigger] s.filter(p)[i]) && p(s.filter(p)[i]) by {
            let sub = s.drop_last().filter(p);
            if i < sub.len() {
                assert(s.filter(p)[i] == sub[i]);
                assert(s.drop_last().contains(sub[i]));
                let j = choose|j: int| 0 <= j < s.drop_last().len() && s.drop_last()[j] == sub[i];
                assert(s[j] == sub[i]);
            } else {
                assert(s.filter(p)[i] == s.last());
                assert(s[s.len() - 1] == s.last());
            }
        }
    }
}
pub open spec fn from_entries(es: Seq<(String, Doc)>, d: Doc) -> bool { exists|j: int| 0 <= j < es.len() && d == (#[trigger] es[j]).1 }
pub proof fn lemma_matches_from(es: Seq<(String, Doc)>, q: Query)
    ensures forall|i: int| 0 <= i < matches_of(es, q).len() ==> from_entries(es, #[trigger] matches_of(es, q)[i])
{
    let p = qh(q);
    let f = es.filter(p);
    lemma_filter_elems(es, p);
    assert(matches_of(es, q).len() == f.len());
    assert forall|i: int| 0 <= i < matches_of(es, q).len() implies from_entries(es, #[trigger] matches_of(es, q)[i]) by {
        assert(es.contains(f[i]));
        let j = choose|j: int| 0 <= j < es.len() && es[j] == f[i];
        assert(matches_of(es, q)[i] == snd()(f[i]));
        assert(snd()(es[j]) == es[j].1);
        assert(0 <= j < es.len() && matches_of(es, q)[i] == es[j].1);
    }
}
pub open spec fn is_sorted(s: Seq<Doc>, keys: Seq<(String, bool)>) -> bool {
    forall|i: int, j: int| 0 <= i < j < s.len() ==> !(lex_cmp(#[trigger] s[i], #[trigger] s[j], keys, keys.len() as int) is Greater)
}
pub open spec fn page_of<A>(s: Seq<A>, off: int, lim: int) -> Seq<A> {
    s.subrange(if off < s.len() { off } else { s.len() as int }, if off + lim < s.len() { off + lim } else { s.len() as int })
}
// R7: `db.iter().map(|(_, v)| v).collect::<Vec<_>>()`: every stored document, in table order
#[verifier::external_body]
pub fn all_values<'a>(db: &'a Vec<(String, Doc)>) -> (r: Vec<&'a Doc>)
    ensures derefs(r@) == db@.map_values(snd()) { unimplemented!() }
// R7: `db.iter().filter_map(|(k, v)| { if items.contains(&<id bytes of k>) { return Some(v); } None }).collect::<Vec<_>>()`
#[verifier::external_body]
pub fn values_in<'a>(db: &'a Vec<(String, Doc)>, items: &HashSet<Box<[u8]>>) -> (r: Vec<&'a Doc>)
    ensures derefs(r@) == db@.filter(in_items(items@)).map_values(snd()) { unimplemented!() }
// R7 + R9: `rows.sort_by(<the comparator closure>)`: slice::sort_by orders by the comparator it is given (the closure is cut out and proved
// equal to lex_cmp over q.order_by as Collect::query::order) and keeps the elements
#[verifier::external_body]
pub fn sort_rows(rows: &mut Vec<&Doc>, q: &Query)
    requires forall|i: int| 0 <= i < old(rows)@.len() ==> has_keys(*(#[trigger] old(rows)@[i]), q.order_by@)
    ensures derefs(final(rows)@).to_multiset() == derefs(old(rows)@).to_multiset(), final(rows)@.len() == old(rows)@.len(),
        is_sorted(derefs(final(rows)@), q.order_by@) { unimplemented!() }
// R7: `count.div_ceil(limit)`
#[verifier::external_body]
pub fn div_ceil_usize(a: usize, b: usize) -> (r: usize)
    requires b > 0
    ensures r as int == (a as int + b as int - 1) / (b as int) { unimplemented!() }
// R7: `rows.iter().skip(o).take(l).map(|row| map_to_model::<T>(row).unwrap()).collect::<Vec<_>>()`: the records of the sub-range [o, o+l)
#[verifier::external_body]
pub fn page_models<T>(rows: &Vec<&Doc>, off: usize, lim: usize) -> (r: Vec<T>)
    ensures r@ == page_of(derefs(rows@), off as int, lim as int).map_values(to_model::<T>()) { unimplemented!() }

impl<T: DbDocument> Collect<T> {
//@@ extract file=acts/src/store/db/mem/collect.rs in="impl<T> DbCollection for Collect<T>" item="fn query" name=Collect::query
//@@ opt attr="#[verifier::loop_isolation(false)]"
//@@ rw R7 `Self :: Item` => `T`
//@@ rw R11 `let db = self . db . read ( ) . unwrap ( ) ;` => `let db = db_entries(&self.db);`
//@@ rw R7 `vec ! [ ]` => `Vec::new()`
//@@ rw R7 `db . iter ( ) . map ( | ( _ , v ) | v ) . collect :: < Vec < _ > > ( )` => `all_values(&db)`
//@@ rw R7 `db . iter ( ) . filter_map ( | ( k , v ) | { if items . contains ( & k . as_bytes ( ) . to_vec ( ) . into_boxed_slice ( ) ) { return Some ( v ) ; } None } ) . collect :: < Vec < _ > > ( )` => `values_in(&db, &items)`
//@@ rw R6 `for cond in q . queries_mut ( ) $B:block` => `for cond in q.conds.iter_mut() $B`
//@@ rw R7 `cond . conds ( ) . clone ( )` => `clone_exprs(cond.conds())`
//@@ rw R7 `k . as_bytes ( ) . to_vec ( ) . into_boxed_slice ( )` => `key_box(k)`
//@@ rw R7 `cond . calc ( & result )` => `cond.calc(&result, Ghost(fed))`
//@@ rw R9 `rows . sort_by ( $C:args ) ;` => `sort_rows(&mut rows, q);`
//@@ rw R7 `count . div_ceil ( q . limit ( ) )` => `div_ceil_usize(count, q.limit())`
//@@ rw R7 `rows . iter ( ) . skip ( q . offset ( ) ) . take ( q . limit ( ) ) . map ( | row | map_to_model :: < T > ( row ) . unwrap ( ) ) . collect :: < Vec < _ > > ( )` => `page_models::<T>(&rows, q.offset(), q.limit())`
//@@ spec
    requires
        // a query as the builder makes it: no condition evaluated yet, every condition has at least one expression
        forall|j: int| 0 <= j < q.conds@.len() ==> !(#[trigger] q.conds@[j]).calculated && q.conds@[j].conds@.len() >= 1,
        // every stored document has the keys the query filters and orders on (a record type has one key set: U-memdoc)
        forall|k: Seq<char>| old(st).docs.dom().contains(k) ==> doc_has_filter_keys(*q, #[trigger] old(st).docs[k]) && has_keys(old(st).docs[k], q.order_by@),
        q.offset < usize::MAX,
    ensures
        //# Q0-a-query-reads-only-and-is-answered
        ret is Ok && final(st).docs == old(st).docs && entries_of(old(st).docs, final(st).q_entries),
        //# Q1-exactly-the-records-satisfying-the-filter
        final(st).q_sorted.to_multiset() == matches_of(final(st).q_entries, *q).to_multiset(),
        //# Q5-ordered-by-the-requested-keys
        q.order_by@.len() > 0 ==> is_sorted(final(st).q_sorted, q.order_by@),
        //# Q5-table-order-when-no-key-is-requested
        q.order_by@.len() == 0 ==> final(st).q_sorted == matches_of(final(st).q_entries, *q),
        //# Q3-the-true-total-count
        ret is Ok ==> ret->Ok_0.count == matches_of(final(st).q_entries, *q).len(),
        //# Q3-paged-by-offset-and-limit
        ret is Ok ==> ret->Ok_0.rows@ == page_of(final(st).q_sorted, q.offset as int, q_limit(*q)).map_values(to_model::<T>()),
        //# Q3-page-arithmetic
        ret is Ok ==> ret->Ok_0.page_size as int == q_limit(*q) && ret->Ok_0.page_count as int == (ret->Ok_0.count as int + q_limit(*q) - 1) / q_limit(*q)
            && ret->Ok_0.page_num as int == q.offset as int / q_limit(*q) + 1,
//@@ proof at=start
        let ghost q0 = *q;
        let ghost mut fed: Seq<Set<Box<[u8]>>> = Seq::empty();
        let ghost mut es: Seq<(String, Doc)> = Seq::empty();
//@@ proof after=db_entries#1
        proof {
            es = db@;
            assert(distinct_keys(es));
            assert forall|i: int| 0 <= i < es.len() implies doc_has_filter_keys(q0, (#[trigger] es[i]).1) && has_keys(es[i].1, q0.order_by@) by { assert(old(st).docs.dom().contains(es[i].0@)); }
        }
//@@ proof after=all_values#1
            proof {
                assert forall|i: int| 0 <= i < es.len() implies qh(q0)(#[trigger] es[i]) by {}
                lemma_filter_all(es, qh(q0));
                assert(derefs(rows@) == matches_of(es, q0));
            }
//@@ loop 1
        invariant
            //# conds-evaluated-so-far
            __m1 <= q.conds@.len() && q.conds@.len() == q0.conds@.len() && db@ == es && distinct_keys(es)
                && (forall|i: int| 0 <= i < es.len() ==> doc_has_filter_keys(q0, (#[trigger] es[i]).1))
                && (forall|j: int| 0 <= j < q0.conds@.len() ==> !(#[trigger] q0.conds@[j]).calculated && q0.conds@[j].conds@.len() >= 1)
                && (forall|j: int| __m1 <= j < q.conds@.len() ==> #[trigger] q.conds@[j] == q0.conds@[j])
                && (forall|j: int, i: int| 0 <= j < __m1 && 0 <= i < es.len() ==> ((#[trigger] q.conds@[j]).result@.contains(kb((#[trigger] es[i]).0@)) <==> cond_holds(q0.conds@[j], es[i].1)))
                && (forall|j: int, b: Box<[u8]>| 0 <= j < __m1 && #[trigger] q.conds@[j].result@.contains(b) ==> exists|i: int| 0 <= i < es.len() && b == kb((#[trigger] es[i]).0@)),
        decreases q.conds@.len() - __m1
//@@ proof at=loop1
                let ghost c0 = q0.conds@[__m1 as int];
                proof { fed = Seq::empty(); }
//@@ loop 2
        invariant
            //# exprs-evaluated-so-far
            __v2@ == c0.conds@ && cond.r#type == c0.r#type && cond.conds == c0.conds && fed.len() == __i2 && cond.calculated == (__i2 > 0)
                && (__i2 > 0 ==> cond.result@ =~= cond_acc(c0.r#type, fed)) && db@ == es && distinct_keys(es) && c0 == q0.conds@[__m1 as int] && __m1 < q0.conds@.len()
                && (forall|i: int| 0 <= i < es.len() ==> doc_has_filter_keys(q0, (#[trigger] es[i]).1))
                && (forall|m: int| 0 <= m < __i2 ==> is_keyset(#[trigger] fed[m], es, es.len() as int, eh(c0.conds@[m]))),
//@@ proof at=loop2
                    let ghost e0 = c0.conds@[__i2 as int];
//@@ loop 3
        invariant
            //# ids-of-the-documents-the-expression-holds-for
            __v3@ == es && *expr == e0 && e0 == c0.conds@[__i2 as int - 1] && c0 == q0.conds@[__m1 as int] && 0 < __i2 <= c0.conds@.len() && __m1 < q0.conds@.len()
                && (forall|i: int| 0 <= i < es.len() ==> doc_has_filter_keys(q0, (#[trigger] es[i]).1))
                && is_keyset(result@, es, __i3 as int, eh(e0)),
//@@ proof at=loop3
                        proof { assert(doc_has_filter_keys(q0, es[__i3 as int].1)); assert(q0.conds@[__m1 as int].conds@[__i2 as int - 1] == e0); }
//@@ proof after=calc#1
                    proof {
                        assert(is_keyset(result@, es, es.len() as int, eh(e0)));
                        fed = fed.push(result@);
                    }
//@@ proof at=afterloop2
                proof {
                    lemma_cond_keyset(es, c0, fed);
                    assert(cond.result@ =~= cond_acc(c0.r#type, fed));
                }
//@@ proof after=calc#2
            proof {
                let qs = query_results(q.conds@);
                assert forall|i: int| 0 <= i < es.len() implies (items@.contains(kb((#[trigger] es[i]).0@)) <==> query_holds(q0, es[i].1)) by {
                    lemma_acc_and_mem(qs, kb(es[i].0@));
                    assert forall|j: int| 0 <= j < qs.len() implies ((#[trigger] qs[j]).contains(kb(es[i].0@)) <==> cond_holds(q0.conds@[j], es[i].1)) by { assert(qs[j] == q.conds@[j].result@); }
                    if query_holds(q0, es[i].1) { assert forall|j: int| 0 <= j < qs.len() implies (#[trigger] qs[j]).contains(kb(es[i].0@)) by { assert(cond_holds(q0.conds@[j], es[i].1)); } }
                    if items@.contains(kb(es[i].0@)) { assert forall|j: int| 0 <= j < q0.conds@.len() implies cond_holds(#[trigger] q0.conds@[j], es[i].1) by { assert(qs[j].contains(kb(es[i].0@))); } }
                }
            }
//@@ proof after=values_in#1
                proof {
                    lemma_filter_agree(es, in_items(items@), qh(q0));
                    assert(derefs(rows@) == matches_of(es, q0));
                }
//@@ proof before=sort_rows#1
            proof {
                assert(derefs(rows@) == matches_of(es, q0));
                lemma_matches_from(es, q0);
                assert forall|i: int| 0 <= i < rows@.len() implies has_keys(*(#[trigger] rows@[i]), q0.order_by@) by {
                    assert(derefs(rows@)[i] == *rows@[i]);
                    assert(from_entries(es, matches_of(es, q0)[i]));
                    let j = choose|j: int| 0 <= j < es.len() && matches_of(es, q0)[i] == (#[trigger] es[j]).1;
                    assert(has_keys(es[j].1, q0.order_by@));
                }
            }
//@@ proof before=Ok#1
        proof {
            st.q_entries = es;
            st.q_sorted = derefs(rows@);
        }
//@@ end
}

} // verus!
fn main() {}
