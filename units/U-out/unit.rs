// U-out: the outputs of a task (C07: "The terminal event's outputs contain exactly the declared output keys (plus the default 'data' key) with
// the last value written"): Task::outputs builds the key set, utils::fill_outputs gives every key its value (a template is evaluated, a null
// declaration reads the name through the scope chain -- Task::find, under contract in U-data -- anything else is the declared value).
// TRUSTED: Vars as a map, utils::get_expr (template detection: a regex, C14), the script evaluation, Context::get_env, Task::find.
//@@ unit U-out
//@@ default props=C07 rewrites=R1,R2,R3,R5,R13,R15
use vstd::prelude::*;
use std::sync::Arc;
verus! {
pub type Key = Seq<char>;
#[verifier::external_body]
pub struct Opaque { _p: u8 }
pub enum JsonValue { Null, String(String), Other(Opaque) }
impl Clone for JsonValue { #[verifier::external_body] fn clone(&self) -> (r: Self) ensures r == *self { unimplemented!() } }
impl JsonValue { pub fn is_null(&self) -> (r: bool) ensures r == (*self is Null) { matches!(self, JsonValue::Null) } }
#[verifier::external_body]
pub struct Vars { _p: u8 }
impl Vars {
    pub uninterp spec fn view(&self) -> Map<Key, JsonValue>;
    #[verifier::external_body]
    pub fn new() -> (r: Self) ensures r@ == Map::<Key, JsonValue>::empty() { unimplemented!() }
    #[verifier::external_body]
    pub fn insert(&mut self, k: String, v: JsonValue) -> (o: Option<JsonValue>) ensures final(self)@ == old(self)@.insert(k@, v) { unimplemented!() }
    // R7: `outputs.set(&key, json!(null))`
    #[verifier::external_body]
    pub fn set_null(&mut self, k: &String) ensures final(self)@ == old(self)@.insert(k@, JsonValue::Null) { unimplemented!() }
    // R12: `for (ref k, ref v) in outputs`: the entries of the map, each key once
    #[verifier::external_body]
    pub fn entries(&self) -> (r: Vec<(String, JsonValue)>)
        ensures forall|i: int| 0 <= i < r@.len() ==> self@.dom().contains((#[trigger] r@[i]).0@) && self@[r@[i].0@] == r@[i].1,
            forall|i: int, j: int| 0 <= i < j < r@.len() ==> (#[trigger] r@[i]).0@ != (#[trigger] r@[j]).0@,
            forall|k: Key| self@.dom().contains(k) ==> exists|i: int| 0 <= i < r@.len() && (#[trigger] r@[i]).0@ == k { unimplemented!() }
}
#[verifier::external_body]
pub fn clone_string(s: &String) -> (r: String) ensures r@ == s@ { unimplemented!() }
pub struct ActError {}
// the context of a task as far as the two functions use it
#[verifier::external_body]
pub struct Context { _p: u8 }
impl Clone for Context { #[verifier::external_body] fn clone(&self) -> (r: Self) ensures r == *self { unimplemented!() } }
pub uninterp spec fn tmpl_of(s: Seq<char>) -> Option<Seq<char>>;                   // utils::get_expr: the expression of a `{{expr}}` template
pub uninterp spec fn eval_spec(ctx: Context, expr: Seq<char>) -> Option<JsonValue>;   // the script's result (None: it failed)
pub uninterp spec fn found(ctx: Context, k: Key) -> Option<JsonValue>;              // ctx.task().find(k): own data first, then the scope chain (U-data)
#[verifier::external_body]
pub fn get_expr(s: &String) -> (r: Option<String>) ensures r is Some <==> tmpl_of(s@) is Some, r is Some ==> r->Some_0@ == tmpl_of(s@)->Some_0 { unimplemented!() }
// R7: `Context::scope(ctx.clone(), move || { ctx.runtime.env().eval::<JsonValue>(&expr) })`
#[verifier::external_body]
pub fn eval_in_scope(ctx: &Context, expr: &String) -> (r: Result<JsonValue, ActError>)
    ensures r is Ok <==> eval_spec(*ctx, expr@) is Some, r is Ok ==> r->Ok_0 == eval_spec(*ctx, expr@)->Some_0 { unimplemented!() }
// R10: `.unwrap_or_else(|err| { <log>; JsonValue::Null })`
#[verifier::external_body]
pub fn or_null(r: Result<JsonValue, ActError>) -> (v: JsonValue) ensures v == (if r is Ok { r->Ok_0 } else { JsonValue::Null }) { unimplemented!() }
// the task of a context as far as a filler could use it besides `find`: its globals (Task::vars, under contract in U-data: outermost holder last)
pub uninterp spec fn globals(ctx: Context) -> Map<Key, JsonValue>;
#[verifier::external_body]
pub struct TaskView { _p: u8 }
impl TaskView {
    pub uninterp spec fn of(&self) -> Context;
    #[verifier::external_body]
    pub fn vars(&self) -> (r: Vars) ensures r@ == globals(self.of()) { unimplemented!() }
    #[verifier::external_body]
    pub fn find(&self, k: &String) -> (r: Option<JsonValue>) ensures r == found(self.of(), k@) { unimplemented!() }
}
impl Context {
    #[verifier::external_body]
    pub fn task(&self) -> (r: TaskView) ensures r.of() == *self { unimplemented!() }
}
impl Vars {
    #[verifier::external_body]
    pub fn get_value(&self, k: &String) -> (r: Option<&JsonValue>) ensures r is Some <==> self@.dom().contains(k@), r is Some ==> *r->Some_0 == self@[k@] { unimplemented!() }
}
// R7: `ctx.task().find(k)`
#[verifier::external_body]
pub fn find_in_scope(ctx: &Context, k: &String) -> (r: Option<JsonValue>) ensures r == found(*ctx, k@) { unimplemented!() }

// oracle (statement + the documented rules of fill_outputs): the value of one output key
pub open spec fn output_value(ctx: Context, k: Key, v: JsonValue) -> JsonValue {
    if v is String && tmpl_of(v->String_0@) is Some { match eval_spec(ctx, tmpl_of(v->String_0@)->Some_0) { Some(x) => x, None => JsonValue::Null } }
    else if v is Null { match found(ctx, k) { Some(x) => x, None => JsonValue::Null } }
    else { v }
}
//@@ extract file=acts/src/utils/convert.rs item="fn fill_outputs" name=utils::fill_outputs
//@@ opt attr="#[verifier::loop_isolation(false)]"
//@@ rw R12 `for ( ref k , ref v ) in outputs $B:block` => `for (k, v) in outputs.entries().iter() $B`
//@@ rw R7 `Context :: scope ( ctx . clone ( ) , move | | { ctx . runtime . env ( ) . eval :: < JsonValue > ( & expr ) } )` => `eval_in_scope(ctx, &expr)`
//@@ rw R10 `result . unwrap_or_else ( | err | $B:block )` => `or_null(result)`
//@@ rw R7 `k . to_string ( )` => `clone_string(k)`
//@@ rw R7 `ctx . task ( ) . find ( k )` => `find_in_scope(ctx, k)`
//@@ spec
    ensures
        //# V4-the-outputs-keep-exactly-the-declared-key-set
        ret@.dom() =~= outputs@.dom(),
        //# V4-every-output-has-its-value-template-evaluated-null-read-through-the-scope-else-as-declared
        forall|k: Key| outputs@.dom().contains(k) ==> #[trigger] ret@[k] == output_value(*ctx, k, outputs@[k]),
//@@ loop 1
        invariant
            //# filled-so-far
            (forall|i: int| 0 <= i < __v1@.len() ==> outputs@.dom().contains((#[trigger] __v1@[i]).0@) && outputs@[__v1@[i].0@] == __v1@[i].1)
                && (forall|i: int, j: int| 0 <= i < j < __v1@.len() ==> (#[trigger] __v1@[i]).0@ != (#[trigger] __v1@[j]).0@)
                && (forall|k: Key| outputs@.dom().contains(k) ==> exists|i: int| 0 <= i < __v1@.len() && (#[trigger] __v1@[i]).0@ == k)
                && (forall|k: Key| #[trigger] ret@.dom().contains(k) <==> exists|i: int| 0 <= i < __i1 && (#[trigger] __v1@[i]).0@ == k)
                && (forall|i: int| 0 <= i < __i1 ==> ret@[(#[trigger] __v1@[i]).0@] == output_value(*ctx, __v1@[i].0@, __v1@[i].1)),
//@@ end

// ---- Task::outputs
#[verifier::external_body]
pub struct NodeContent { _p: u8 }
impl NodeContent {
    pub uninterp spec fn declared(&self) -> Vars;
    #[verifier::external_body] pub fn outputs(&self) -> (r: Vars) ensures r == self.declared() { unimplemented!() }
}
pub struct Node { pub content: NodeContent }
pub struct Task { pub node: Arc<Node> }
impl Task {
    pub uninterp spec fn s_ctx(&self) -> Context;
    pub uninterp spec fn s_expose(&self) -> Seq<String>;            // env `expose` list, or ["data"] (consts::ACT_DATA) when it is not set
    pub uninterp spec fn s_own_list(&self) -> Option<Seq<String>>;  // the `$outputs` list in the task's own data
    #[verifier::external_body] pub fn create_context(&self) -> (r: Context) ensures r == self.s_ctx() { unimplemented!() }
    // R7: `ctx.get_env::<Vec<String>>(consts::ACT_GLOBAL_EXPOSE).unwrap_or(vec![consts::ACT_DATA.to_string()])`
    #[verifier::external_body] pub fn expose_keys(&self, ctx: &Context) -> (r: Vec<String>) ensures r@ == self.s_expose() { unimplemented!() }
    // R7: `self.data().get::<Vec<String>>(consts::ACT_OUTPUTS)`
    #[verifier::external_body] pub fn own_outputs_list(&self) -> (r: Option<Vec<String>>) ensures r is Some <==> self.s_own_list() is Some, r is Some ==> r->Some_0@ == self.s_own_list()->Some_0 { unimplemented!() }
}
pub mod utils { pub use super::fill_outputs; }
pub open spec fn names(s: Seq<String>) -> Set<Key> { s.map_values(|x: String| x@).to_set() }
impl Task {
//@@ extract file=acts/src/scheduler/process/task.rs in="impl Task" item="fn outputs" name=Task::outputs
//@@ opt attr="#[verifier::loop_isolation(false)]"
//@@ rw R7 `self : & Arc < Self >` => `&self`
//@@ rw R7 `let global_expose_keys = ctx . get_env :: < Vec < String > > ( consts :: ACT_GLOBAL_EXPOSE ) . unwrap_or ( vec ! [ consts :: ACT_DATA . to_string ( ) ] ) ;` => `let global_expose_keys = self.expose_keys(&ctx);`
//@@ rw R7 `outputs . set ( & key , json ! ( null ) )` => `outputs.set_null(&key)`
//@@ rw R7 `outputs . set ( & v , json ! ( null ) )` => `outputs.set_null(&v)`
//@@ rw R7 `self . data ( ) . get :: < Vec < String > > ( consts :: ACT_OUTPUTS )` => `self.own_outputs_list()`
//@@ spec
    ensures
        //# V4-the-outputs-are-exactly-the-declared-keys-the-exposed-keys-and-the-tasks-own-output-list
        ret@.dom() =~= self.node.content.declared()@.dom().union(names(self.s_expose())).union(match self.s_own_list() { Some(l) => names(l), None => Set::<Key>::empty() }),
        //# V4-a-declared-value-that-is-not-exposed-again-is-filled-from-its-declaration
        forall|k: Key| self.node.content.declared()@.dom().contains(k) && !names(self.s_expose()).contains(k) && !(self.s_own_list() is Some && names(self.s_own_list()->Some_0).contains(k))
            ==> #[trigger] ret@[k] == output_value(self.s_ctx(), k, self.node.content.declared()@[k]),
//@@ loop 1
        invariant
            //# exposed-so-far
            __v1@ == self.s_expose() && outputs@.dom() =~= self.node.content.declared()@.dom().union(names(self.s_expose().take(__i1 as int)))
                && (forall|k: Key| self.node.content.declared()@.dom().contains(k) && !names(self.s_expose()).contains(k) ==> #[trigger] outputs@[k] == self.node.content.declared()@[k]),
//@@ proof at=loop1
            proof {
                let e = self.s_expose();
                assert(e.take(__i1 as int + 1) =~= e.take(__i1 as int).push(e[__i1 as int]));
                assert(names(e.take(__i1 as int + 1)) =~= names(e.take(__i1 as int)).insert(e[__i1 as int]@)) by {
                    let a = e.take(__i1 as int).map_values(|x: String| x@);
                    assert(e.take(__i1 as int + 1).map_values(|x: String| x@) =~= a.push(e[__i1 as int]@));

                    assert forall|k: Key| a.push(e[__i1 as int]@).to_set().contains(k) <==> a.to_set().insert(e[__i1 as int]@).contains(k) by {
                        if a.push(e[__i1 as int]@).contains(k) { let j = choose|j: int| 0 <= j < a.len() + 1 && a.push(e[__i1 as int]@)[j] == k; if j < a.len() { assert(a[j] == k); } }
                        if a.contains(k) { let j = choose|j: int| 0 <= j < a.len() && a[j] == k; assert(a.push(e[__i1 as int]@)[j] == k); }
                        assert(a.push(e[__i1 as int]@)[a.len() as int] == e[__i1 as int]@);
                    }
                }
                assert(names(e).contains(e[__i1 as int]@)) by { assert(e.map_values(|x: String| x@)[__i1 as int] == e[__i1 as int]@); }
            }
//@@ proof at=start
        proof { assert(self.s_expose().take(0).map_values(|x: String| x@) =~= Seq::<Key>::empty()); assert(names(self.s_expose().take(0)) =~= Set::<Key>::empty()); }
//@@ proof at=afterloop1
        proof { assert(self.s_expose().take(self.s_expose().len() as int) =~= self.s_expose()); }
//@@ loop 2
        invariant
            //# own-list-so-far
            self.s_own_list() is Some && __v2@ == self.s_own_list()->Some_0
                && outputs@.dom() =~= self.node.content.declared()@.dom().union(names(self.s_expose())).union(names(__v2@.take(__i2 as int)))
                && (forall|k: Key| self.node.content.declared()@.dom().contains(k) && !names(self.s_expose()).contains(k) && !names(__v2@).contains(k) ==> #[trigger] outputs@[k] == self.node.content.declared()@[k]),
//@@ proof at=loop2
                proof {
                    let e = __v2@;
                    assert(e.take(__i2 as int + 1) =~= e.take(__i2 as int).push(e[__i2 as int]));
                    assert(names(e.take(__i2 as int + 1)) =~= names(e.take(__i2 as int)).insert(e[__i2 as int]@)) by {
                        let a = e.take(__i2 as int).map_values(|x: String| x@);
                        assert(e.take(__i2 as int + 1).map_values(|x: String| x@) =~= a.push(e[__i2 as int]@));
                        assert forall|k: Key| a.push(e[__i2 as int]@).to_set().contains(k) <==> a.to_set().insert(e[__i2 as int]@).contains(k) by {
                            if a.push(e[__i2 as int]@).contains(k) { let j = choose|j: int| 0 <= j < a.len() + 1 && a.push(e[__i2 as int]@)[j] == k; if j < a.len() { assert(a[j] == k); } }
                            if a.contains(k) { let j = choose|j: int| 0 <= j < a.len() && a[j] == k; assert(a.push(e[__i2 as int]@)[j] == k); }
                            assert(a.push(e[__i2 as int]@)[a.len() as int] == e[__i2 as int]@);
                        }
                    }
                    assert(names(e).contains(e[__i2 as int]@)) by { assert(e.map_values(|x: String| x@)[__i2 as int] == e[__i2 as int]@); }
                }
//@@ proof at=beforeloop2
            proof { assert(data@.take(0).map_values(|x: String| x@) =~= Seq::<Key>::empty()); assert(names(data@.take(0)) =~= Set::<Key>::empty()); }
//@@ proof at=afterloop2
            proof { assert(data@.take(data@.len() as int) =~= data@); }
//@@ end
}

// ---- Task::inputs (C07 mechanism: "task inputs = previous task outputs + declared inputs")
#[verifier::external_body]
pub struct ProcY { _p: u8 }
pub uninterp spec fn task_of(tid: Seq<char>) -> Option<Arc<TaskI>>;
impl ProcY {
    // process.rs: Process::task(tid)
    #[verifier::external_body] pub fn task(&self, tid: &String) -> (r: Option<Arc<TaskI>>) ensures r == task_of(tid@) { unimplemented!() }
}
#[verifier::external_body]
pub struct NodeContentI { _p: u8 }
impl NodeContentI {
    pub uninterp spec fn declared_inputs(&self) -> Vars;
    #[verifier::external_body] pub fn inputs(&self) -> (r: Vars) ensures r == self.declared_inputs() { unimplemented!() }
}
pub struct NodeI { pub content: NodeContentI }
pub struct TaskI { pub node: Arc<NodeI>, pub proc: Arc<ProcY> }
// TRUSTED: utils::fill_inputs (templates evaluated, nested objects filled recursively, everything else as declared): a function of the declaration and the context
pub uninterp spec fn filled_inputs(ctx: Context, declared: Vars) -> Vars;
#[verifier::external_body]
pub fn fill_inputs(inputs: &Vars, ctx: &Context) -> (r: Vars) ensures r == filled_inputs(*ctx, *inputs) { unimplemented!() }
impl Vars {
    // model/vars.rs: Vars::set / Vars::extend (ASSUMED map semantics: extend = union preferring the argument)
    #[verifier::external_body]
    pub fn set_val(&mut self, k: &String, v: JsonValue) ensures final(self)@ == old(self)@.insert(k@, v) { unimplemented!() }
    #[verifier::external_body]
    pub fn extend(self, other: Vars) -> (r: Vars) ensures r@ == self@.union_prefer_right(other@) { unimplemented!() }
}
impl TaskI {
    pub uninterp spec fn s_ctx(&self) -> Context;
    pub uninterp spec fn s_prev(&self) -> Option<String>;
    pub uninterp spec fn s_outputs(&self) -> Vars;       // Task::outputs of that task (under contract above)
    #[verifier::external_body] pub fn create_context(&self) -> (r: Context) ensures r == self.s_ctx() { unimplemented!() }
    #[verifier::external_body] pub fn prev(&self) -> (r: Option<String>) ensures r == self.s_prev() { unimplemented!() }
    #[verifier::external_body] pub fn outputs(&self) -> (r: Vars) ensures r == self.s_outputs() { unimplemented!() }
    pub open spec fn handed_on(&self) -> Map<Key, JsonValue> {
        if self.s_prev() is Some && task_of(self.s_prev()->Some_0@) is Some { task_of(self.s_prev()->Some_0@)->Some_0.s_outputs()@ } else { Map::empty() }
    }
//@@ extract file=acts/src/scheduler/process/task.rs in="impl Task" item="fn inputs" name=Task::inputs
//@@ opt attr="#[verifier::loop_isolation(false)]"
//@@ rw R7 `self : & Arc < Self >` => `&self`
//@@ rw R12 `for ( ref k , v ) in & prev_task . outputs ( ) $B:block` => `for (k, v) in prev_task.outputs().entries().iter() $B`
//@@ rw R7 `vars . set ( k , v . clone ( ) )` => `vars.set_val(k, v.clone())`
//@@ rw R7 `utils :: fill_inputs` => `fill_inputs`
//@@ spec
    ensures
        //# V10-the-inputs-of-a-task-are-the-outputs-of-the-task-before-it-overlaid-with-its-own-declared-inputs
        ret@ == self.handed_on().union_prefer_right(filled_inputs(self.s_ctx(), self.node.content.declared_inputs())@),
//@@ loop 1
        invariant
            //# handed-on-so-far
            self.s_prev() is Some && task_of(self.s_prev()->Some_0@) == Some(prev_task)
                && (forall|i: int| 0 <= i < __v1@.len() ==> prev_task.s_outputs()@.dom().contains((#[trigger] __v1@[i]).0@) && prev_task.s_outputs()@[__v1@[i].0@] == __v1@[i].1)
                && (forall|k: Key| prev_task.s_outputs()@.dom().contains(k) ==> exists|i: int| 0 <= i < __v1@.len() && (#[trigger] __v1@[i]).0@ == k)
                && (forall|k: Key| #[trigger] vars@.dom().contains(k) <==> exists|i: int| 0 <= i < __i1 && (#[trigger] __v1@[i]).0@ == k)
                && (forall|i: int| 0 <= i < __i1 ==> vars@[(#[trigger] __v1@[i]).0@] == __v1@[i].1),
//@@ proof at=afterloop1
                proof { assert(vars@ =~= prev_task.s_outputs()@); }
//@@ end
}
} // verus!
fn main() {}
