// U-data: scoping of task data (C07): Task::update_data (a write goes to every enclosing scope that declares the name, never outside
// the writer's ancestry, private keys never leave their task), Task::find (own data first, then the ancestors nearest-first),
// Task::set_data (merge).
// Model: task data behind the RwLock = ghost map tid -> (name -> value); parent chain = uninterpreted `parent_tid` with a depth
// that decreases towards the root (ASSUMED: Task::parent walks the prev chain to a node of smaller level).
//@@ unit U-data
//@@ default props=C07 rewrites=R1,R2,R3,R5,R13,R15 ghost="Tracked(h): Tracked<&mut DHeap>" ghostarg="Tracked(h)"
//@@ heapmethods set_data set_if_exists get_own parent_of cache_upsert data vars
use vstd::prelude::*;
use std::sync::Arc;
verus! {
pub type Tid = Seq<char>;
pub type Key = Seq<char>;
#[verifier::external_body]
pub struct JsonValue { _p: u8 }
pub type DataMap = Map<Key, JsonValue>;
pub ghost struct DHeap { pub data: Map<Tid, DataMap>, pub saved: Seq<Tid> }      // saved: Cache::upsert(task) calls (task row written)
pub uninterp spec fn parent_tid(t: Tid) -> Option<Tid>;
pub uninterp spec fn depth(t: Tid) -> nat;
// the ancestors of a task, nearest first (ends at the root)
pub open spec fn ancestors(t: Tid) -> Seq<Tid>
    decreases depth(t)
{
    match parent_tid(t) {
        Some(p) => if depth(p) < depth(t) { seq![p] + ancestors(p) } else { Seq::empty() },
        None => Seq::empty(),
    }
}
// keys that never leave their task: consts::ACT_PRI_KEYS_REGEX = "^(data|__).*"
pub open spec fn starts_with(k: Key, p: Seq<char>) -> bool { k.len() >= p.len() && k.subrange(0, p.len() as int) == p }
pub open spec fn is_private(k: Key) -> bool { starts_with(k, "__"@) || starts_with(k, "data"@) }

// model/vars.rs Vars (ASSUMED map semantics), with the two views the loops need
#[verifier::external_body]
pub struct Vars { _p: u8 }
impl Vars {
    pub uninterp spec fn view(&self) -> DataMap;
    // R12: `for (ref name, ref value) in vars` iterates the entries: the key list has no duplicates and covers the map
    pub uninterp spec fn keys_vec_spec(&self) -> Seq<Key>;
    #[verifier::external_body]
    pub fn keys_vec(&self) -> (r: Vec<String>)
        ensures r@.map_values(|s: String| s@) == self.keys_vec_spec(), self.keys_vec_spec().no_duplicates(), forall|k: Key| self@.dom().contains(k) <==> self.keys_vec_spec().contains(k),
    { unimplemented!() }
    #[verifier::external_body]
    pub fn value_ref(&self, k: &String) -> (r: &JsonValue) requires self@.dom().contains(k@) ensures *r == self@[k@] { unimplemented!() }
}
// TRUSTED: regex::Regex::new(ACT_PRI_KEYS_REGEX).is_match(name) decides is_private (regex engine)
#[verifier::external_body]
pub struct PriKeys { _p: u8 }
#[verifier::external_body]
pub fn pri_keys_regex() -> (r: PriKeys) { unimplemented!() }
impl PriKeys {
    #[verifier::external_body]
    pub fn is_match(&self, name: &String) -> (r: bool) ensures r == is_private(name@) { unimplemented!() }
}

pub struct Task { pub id: String }
// R7: `self.runtime.cache().upsert(t).unwrap_or_else(|err| error!(..))`: the task row is written (an error is only logged)
#[verifier::external_body]
pub fn cache_upsert(t: &Arc<Task>, Tracked(h): Tracked<&mut DHeap>)
    ensures final(h).data == old(h).data, final(h).saved == old(h).saved.push(t.id@) { unimplemented!() }
impl Task {
    // TRUSTED primitive layer (task.rs): parent(), and the three one-line accessors of the data lock
    #[verifier::external_body]
    pub fn parent(&self) -> (r: Option<Arc<Task>>)
        ensures r is Some <==> parent_tid(self.id@) is Some, r is Some ==> r->Some_0.id@ == parent_tid(self.id@)->Some_0 && depth(r->Some_0.id@) < depth(self.id@),
    { unimplemented!() }
    // R7: `t.update_data_if_exists(|v| { if v.contains_key(name) { v.set(name, value); return true; } false })`
    #[verifier::external_body]
    pub fn set_if_exists(&self, name: &String, value: &JsonValue, Tracked(h): Tracked<&mut DHeap>) -> (r: bool)
        requires old(h).data.dom().contains(self.id@)
        ensures r == old(h).data[self.id@].dom().contains(name@),
                r ==> final(h).data == old(h).data.insert(self.id@, old(h).data[self.id@].insert(name@, *value)) && final(h).saved == old(h).saved,
                !r ==> *final(h) == *old(h),
    { unimplemented!() }
    // R7: `self.with_data(move |data| data.get(name))` / `task.with_data(|data| data.get::<T>(name))`
    #[verifier::external_body]
    pub fn get_own<T>(&self, name: &str, Tracked(h): Tracked<&mut DHeap>) -> (r: Option<T>)
        requires old(h).data.dom().contains(self.id@)
        ensures *final(h) == *old(h), r is Some <==> readable::<T>(old(h).data[self.id@], name@), r is Some ==> r->Some_0 == value_as::<T>(old(h).data[self.id@][name@]),
    { unimplemented!() }
}
// Vars::get::<T>: the entry exists and deserialises as T
pub uninterp spec fn deser_ok<T>(v: JsonValue) -> bool;
pub uninterp spec fn value_as<T>(v: JsonValue) -> T;
pub open spec fn readable<T>(d: DataMap, k: Key) -> bool { d.dom().contains(k) && deser_ok::<T>(d[k]) }

// every task on the chain has a data map
pub open spec fn chain_ok(h: DHeap, t: Tid) -> bool { h.data.dom().contains(t) && forall|i: int| 0 <= i < ancestors(t).len() ==> h.data.dom().contains(#[trigger] ancestors(t)[i]) }

pub proof fn lemma_ancestors_step(t: Tid)
    ensures parent_tid(t) is Some && depth(parent_tid(t)->Some_0) < depth(t) ==> ancestors(t) == seq![parent_tid(t)->Some_0] + ancestors(parent_tid(t)->Some_0),
            parent_tid(t) is None ==> ancestors(t) == Seq::<Tid>::empty(),
{ reveal_with_fuel(ancestors, 2); }

pub open spec fn ids(v: Seq<Arc<Task>>) -> Seq<Tid> { v.map_values(|t: Arc<Task>| t.id@) }
pub open spec fn chain_left(p: Option<Arc<Task>>) -> nat { match p { Some(t) => depth(t.id@) + 1, None => 0 } }
pub open spec fn tail_of(p: Option<Arc<Task>>) -> Seq<Tid> { match p { Some(t) => seq![t.id@] + ancestors(t.id@), None => Seq::empty() } }
// ancestors lie strictly above the task: distinct, and the task is not among them
pub proof fn lemma_anc_depths(t: Tid)
    ensures forall|i: int| 0 <= i < ancestors(t).len() ==> depth(#[trigger] ancestors(t)[i]) < depth(t), ancestors(t).no_duplicates(), !ancestors(t).contains(t),
    decreases depth(t)
{
    lemma_ancestors_step(t);
    match parent_tid(t) {
        Some(p) => {
            if depth(p) < depth(t) {
                lemma_anc_depths(p);
                let a = ancestors(t);
                assert(a == seq![p] + ancestors(p));
                assert forall|i: int| 0 <= i < a.len() implies depth(#[trigger] a[i]) < depth(t) by {
                    if i > 0 { assert(a[i] == ancestors(p)[i - 1]); }
                }
                assert forall|i: int, j: int| 0 <= i < a.len() && 0 <= j < a.len() && i != j implies a[i] != a[j] by {
                    if i > 0 { assert(a[i] == ancestors(p)[i - 1]); }
                    if j > 0 { assert(a[j] == ancestors(p)[j - 1]); }
                }
            }
        }
        None => {}
    }
    if ancestors(t).contains(t) { let i = choose|i: int| 0 <= i < ancestors(t).len() && ancestors(t)[i] == t; assert(depth(ancestors(t)[i]) < depth(t)); }
}
// `declares` only looks at which scope holds which name
pub proof fn lemma_declares_dom(d: Map<Tid, DataMap>, e: Map<Tid, DataMap>, anc: Seq<Tid>, k: Key, i: int)
    requires forall|j: int| 0 <= j < anc.len() ==> (#[trigger] e[anc[j]]).dom() == d[anc[j]].dom()
    ensures declares(d, anc, k, i) == declares(e, anc, k, i)
{ }

// i is the first scope on the chain (the task itself, then its ancestors nearest first) in which the name can be read as a T
#[verifier::opaque]
pub open spec fn first_readable<T>(h: DHeap, chain: Seq<Tid>, k: Key, i: int) -> bool {
    0 <= i < chain.len() && readable::<T>(h.data[chain[i]], k) && forall|j: int| 0 <= j < i ==> !readable::<T>(h.data[#[trigger] chain[j]], k)
}
// ---- oracle (statement): "a value written ... to a name that an enclosing scope declares, updates that scope and is seen by every later condition,
// script and message": a non-private name written by the task is updated in EVERY enclosing scope that declares (holds) it, so that a later read
// sees it whichever way it resolves the name -- nearest scope first (Task::find: $get, output filling) or outermost scope first (Task::vars:
// conditions, templates, script globals).
// i is the index (in ancestors, nearest first) of a scope that declares k
pub open spec fn declares(d: Map<Tid, DataMap>, anc: Seq<Tid>, k: Key, i: int) -> bool {
    0 <= i < anc.len() && d[anc[i]].dom().contains(k)
}
// the value of name k in ancestor i after the write of `vars` restricted to the names in `done`
pub open spec fn expected(d: Map<Tid, DataMap>, anc: Seq<Tid>, vars: DataMap, done: Set<Key>, i: int, k: Key) -> JsonValue {
    if done.contains(k) && vars.dom().contains(k) && !is_private(k) && declares(d, anc, k, i) { vars[k] } else { d[anc[i]][k] }
}
pub open spec fn written(a: DHeap, b: DHeap, anc: Seq<Tid>, vars: DataMap, done: Set<Key>) -> bool {
    &&& b.data.dom() == a.data.dom()
    // nothing outside the ancestry is touched
    &&& forall|t: Tid| #[trigger] a.data.dom().contains(t) && !anc.contains(t) ==> b.data[t] == a.data[t]
    // no scope gains or loses a name
    &&& forall|i: int| 0 <= i < anc.len() ==> (#[trigger] b.data[anc[i]]).dom() == a.data[anc[i]].dom()
    // every entry of every ancestor is what the statement says
    &&& forall|i: int, k: Key| 0 <= i < anc.len() && a.data[anc[i]].dom().contains(k) ==> #[trigger] b.data[anc[i]][k] == expected(a.data, anc, vars, done, i, k)
}

// every scope that took one of the names in `done` has been written to the store
pub open spec fn saved_ok(a: DHeap, b: DHeap, anc: Seq<Tid>, vars: DataMap, done: Set<Key>) -> bool {
    forall|i: int, k: Key| done.contains(k) && vars.dom().contains(k) && !is_private(k) && #[trigger] declares(a.data, anc, k, i) ==> b.saved.contains(anc[i])
}
pub proof fn lemma_push_contains(s: Seq<Tid>, x: Tid, y: Tid) ensures s.push(x).contains(x), s.contains(y) ==> s.push(x).contains(y)
{
    assert(s.push(x)[s.len() as int] == x);
    if s.contains(y) { let i = choose|i: int| 0 <= i < s.len() && s[i] == y; assert(s.push(x)[i] == y); }
}
impl Task {
//@@ extract file=acts/src/scheduler/process/task.rs in="impl Task" item="fn set_data" name=Task::set_data
//@@ opt nolower
//@@ rw R8 `{ let mut data = self . data . write ( ) . unwrap ( ) ; for ( ref name , value ) in vars { data . set ( name , value ) ; } }` => `{ self.merge_data(vars, Tracked(h)); }`
//@@ spec
        requires old(h).data.dom().contains(self.id@)
        ensures
            //# V7-set-data-merges-into-the-own-task-only
            final(h).data == old(h).data.insert(self.id@, old(h).data[self.id@].union_prefer_right(vars@)) && final(h).saved == old(h).saved,
//@@ end
    // R8 (hole, listed): the body of set_data is one lock + a loop of Vars::set over the entries = map union preferring `vars`
    #[verifier::external_body]
    pub fn merge_data(&self, vars: &Vars, Tracked(h): Tracked<&mut DHeap>)
        requires old(h).data.dom().contains(self.id@)
        ensures final(h).data == old(h).data.insert(self.id@, old(h).data[self.id@].union_prefer_right(vars@)), final(h).saved == old(h).saved,
    { unimplemented!() }

//@@ extract file=acts/src/scheduler/process/task.rs in="impl Task" item="fn find" name=Task::find
//@@ rw R7 `where T : DeserializeOwned + std :: fmt :: Debug + Clone ,` => ``
//@@ rw R7 `self . with_data ( move | data | data . get ( name ) )` => `self.get_own::<T>(name)`
//@@ rw R7 `task . with_data ( | data | data . get :: < T > ( name ) )` => `task.get_own::<T>(name)`
//@@ spec
        requires chain_ok(*old(h), self.id@)
        ensures
            //# V6-find-reads-only
            *final(h) == *old(h),
            //# V6-own-data-first-then-the-ancestors-nearest-first
            ret is Some ==> exists|i: int| #[trigger] first_readable::<T>(*old(h), seq![self.id@] + ancestors(self.id@), name@, i)
                && ret->Some_0 == value_as::<T>(old(h).data[(seq![self.id@] + ancestors(self.id@))[i]][name@]),
            //# V6-none-only-if-no-scope-on-the-chain-has-it
            ret is None ==> forall|i: int| 0 <= i < ancestors(self.id@).len() + 1 ==> !readable::<T>(old(h).data[#[trigger] (seq![self.id@] + ancestors(self.id@))[i]], name@),
//@@ proof at=beforeloop1
        proof { lemma_ancestors_step(self.id@); }
        let ghost chain = seq![self.id@] + ancestors(self.id@);
        let ghost mut n: int = 1;
//@@ loop 1
        invariant
            //# searched-so-far
            *h == *old(h) && chain == seq![self.id@] + ancestors(self.id@) && 1 <= n <= chain.len() && chain_ok(*old(h), self.id@)
                && (forall|j: int| 0 <= j < n ==> !readable::<T>(h.data[#[trigger] chain[j]], name@))
                && chain.subrange(n, chain.len() as int) =~= tail_of(parent),
        ensures
            //# nothing-found
            forall|j: int| 0 <= j < chain.len() ==> !readable::<T>(h.data[#[trigger] chain[j]], name@),
        decreases chain_left(parent)
//@@ proof at=loop1
            proof {
                lemma_ancestors_step(task.id@);
                assert(chain.subrange(n, chain.len() as int).len() == tail_of(parent).len());
                assert(n < chain.len());
                assert(chain.subrange(n, chain.len() as int)[0] == task.id@);
                assert(chain[n] == task.id@);
                assert(h.data.dom().contains(task.id@)) by { assert(chain[n] == ancestors(self.id@)[n - 1]); }
            }
//@@ proof before=is_some#2
            proof {
                if result is Some {
                    reveal(first_readable);
                    assert(first_readable::<T>(*old(h), chain, name@, n));
                }
            }
//@@ proof before=parent#2
            proof {
                assert(chain.subrange(n + 1, chain.len() as int) =~= chain.subrange(n, chain.len() as int).subrange(1, chain.len() - n));
                n = n + 1;
            }
//@@ proof before=is_some#1
        proof { if result is Some { reveal(first_readable); assert(first_readable::<T>(*old(h), seq![self.id@] + ancestors(self.id@), name@, 0)); } }
//@@ end
//@@ extract file=acts/src/scheduler/process/task.rs in="impl Task" item="fn update_data" name=Task::update_data
//@@ rw R7 `let pri_keys_regex = regex :: Regex :: new ( consts :: ACT_PRI_KEYS_REGEX ) . expect ( $A:args ) ;` => `let pri_keys_regex = pri_keys_regex();`
//@@ rw R12 `for ( ref name , ref value ) in vars $B:block` => `for name in vars.keys_vec().iter() { let value = vars.value_ref(name); $B }`
//@@ rw R7 `t . update_data_if_exists ( | v | { if v . contains_key ( name ) { v . set ( name , value ) ; return true ; } false } )` => `t.set_if_exists(name, value)`
//@@ rw R7 `let mut refs = Vec :: new ( ) ;` => `let mut refs: Vec<Arc<Task>> = Vec::new();`
//@@ rw R7 `self . runtime . cache ( ) . upsert ( t ) . unwrap_or_else ( | err | error ! ( $A:args ) ) ;` => `cache_upsert(t);`
//@@ spec
        requires chain_ok(*old(h), self.id@)
        ensures
            //# V1-a-write-never-reaches-a-scope-outside-the-writers-ancestry
            final(h).data.dom() == old(h).data.dom()
                && forall|t: Tid| #[trigger] old(h).data.dom().contains(t) && t != self.id@ && !ancestors(self.id@).contains(t) ==> final(h).data[t] == old(h).data[t],
            //# V2-private-keys-never-leave-their-task
            forall|i: int, k: Key| 0 <= i < ancestors(self.id@).len() && is_private(k) && old(h).data[ancestors(self.id@)[i]].dom().contains(k)
                ==> #[trigger] final(h).data[ancestors(self.id@)[i]][k] == old(h).data[ancestors(self.id@)[i]][k],
            //# V3-a-declared-name-is-updated-in-every-enclosing-scope-that-declares-it
            forall|i: int, k: Key| vars@.dom().contains(k) && !is_private(k) && #[trigger] declares(old(h).data, ancestors(self.id@), k, i)
                ==> final(h).data[ancestors(self.id@)[i]][k] == vars@[k],
            //# V4-no-scope-gains-a-name-and-nothing-else-changes
            forall|i: int| 0 <= i < ancestors(self.id@).len() ==> (#[trigger] final(h).data[ancestors(self.id@)[i]]).dom() == old(h).data[ancestors(self.id@)[i]].dom(),
            forall|i: int, k: Key| 0 <= i < ancestors(self.id@).len() && old(h).data[ancestors(self.id@)[i]].dom().contains(k)
                && !(vars@.dom().contains(k) && !is_private(k) && declares(old(h).data, ancestors(self.id@), k, i))
                ==> #[trigger] final(h).data[ancestors(self.id@)[i]][k] == old(h).data[ancestors(self.id@)[i]][k],
            //# V8-every-scope-that-took-a-value-is-written-to-the-store [C11]
            forall|i: int, k: Key| vars@.dom().contains(k) && !is_private(k) && #[trigger] declares(old(h).data, ancestors(self.id@), k, i)
                ==> final(h).saved.contains(ancestors(self.id@)[i]),
            //# V5-the-writers-own-data-takes-every-value
            final(h).data[self.id@] == old(h).data[self.id@].union_prefer_right(vars@),
            //# V9-read-your-writes-every-scope-on-the-writers-chain-that-holds-the-name-afterwards-holds-the-written-value
            forall|i: int, k: Key| vars@.dom().contains(k) && !is_private(k) && #[trigger] declares(final(h).data, seq![self.id@] + ancestors(self.id@), k, i)
                ==> final(h).data[(seq![self.id@] + ancestors(self.id@))[i]][k] == vars@[k],
//@@ proof at=beforeloop1
        proof { lemma_ancestors_step(self.id@); lemma_anc_depths(self.id@); }
        let ghost anc = ancestors(self.id@);
//@@ loop 1
        invariant
            //# chain-collected-so-far
            anc == ancestors(self.id@) && anc =~= ids(refs@) + tail_of(parent),
        ensures
            //# chain-complete
            anc =~= ids(refs@),
        decreases chain_left(parent)
//@@ proof at=loop1
            proof { lemma_ancestors_step(task.id@); }
//@@ proof at=beforeloop2
        let ghost mut done: Set<Key> = Set::empty();
        let ghost ks = vars.keys_vec_spec();
        proof { assert(anc =~= ids(refs@)); }
//@@ loop 2
        invariant
            //# written-so-far
            anc == ancestors(self.id@) && anc == ids(refs@) && anc.no_duplicates() && !anc.contains(self.id@) && chain_ok(*old(h), self.id@) && h.data.dom().contains(self.id@)
                && written(*old(h), *h, anc, vars@, done) && saved_ok(*old(h), *h, anc, vars@, done) && h.data[self.id@] == old(h).data[self.id@]
                && __v2@.map_values(|s: String| s@) == ks && (forall|k: Key| vars@.dom().contains(k) <==> ks.contains(k))
                && (forall|j: int| 0 <= j < __i2 ==> done.contains(#[trigger] ks[j])),
//@@ proof at=loop2
            let ghost h2 = *h;
            let ghost done0 = done;
            let ghost nm = ks[__i2 as int];
            proof {
                done = done0.insert(nm);
                assert(__v2@.map_values(|s: String| s@)[__i2 as int] == __v2@[__i2 as int]@);
                assert(ks.contains(nm));
                assert forall|i: int| 0 <= i < anc.len() implies h2.data.dom().contains(#[trigger] anc[i]) by { assert(old(h).data.dom().contains(ancestors(self.id@)[i])); }
                // nothing written yet for this round: the names processed before keep their values, a private name changes nothing
                assert forall|i: int, k: Key| 0 <= i < anc.len() && old(h).data[anc[i]].dom().contains(k) && (k != nm || is_private(nm))
                    implies expected(old(h).data, anc, vars@, done, i, k) == expected(old(h).data, anc, vars@, done0, i, k) by {}
                assert(saved_ok(*old(h), h2, anc, vars@, done0));
            }
//@@ loop 3
        invariant
            //# every-holder-from-the-root-down-to-here-took-the-value-and-was-saved
            h.data.dom() == h2.data.dom()
                && (forall|t: Tid| #[trigger] h2.data.dom().contains(t) && !anc.contains(t) ==> h.data[t] == h2.data[t])
                && (forall|j: int| 0 <= j < __i3 ==> h.data[#[trigger] anc[j]] == h2.data[anc[j]])
                && (forall|j: int| __i3 <= j < anc.len() ==> h.data[#[trigger] anc[j]] == (if h2.data[anc[j]].dom().contains(nm) { h2.data[anc[j]].insert(nm, vars@[nm]) } else { h2.data[anc[j]] }))
                && (forall|t: Tid| h2.saved.contains(t) ==> #[trigger] h.saved.contains(t))
                && (forall|j: int| __i3 <= j < anc.len() && h2.data[anc[j]].dom().contains(nm) ==> h.saved.contains(#[trigger] anc[j])),
        invariant
            //# chain-facts
            __v3@ == refs@ && anc == ids(refs@) && anc.no_duplicates() && name@ == nm && *value == vars@[nm] && (forall|j: int| 0 <= j < anc.len() ==> h2.data.dom().contains(#[trigger] anc[j])),
//@@ proof at=loop3
                let ghost hb = *h;
                proof { assert(ids(refs@)[__i3 - 1] == refs@[__i3 - 1].id@); assert(hb.data.dom().contains(anc[__i3 - 1])); }
//@@ proof after=set_if_exists#1
                let ghost hc = *h;
                proof {
                    let m = __i3 as int;
                    assert(t.id@ == anc[m]);
                    assert(hb.data[anc[m]] == h2.data[anc[m]]);
                    assert(hc.data.dom() =~= h2.data.dom());
                    assert forall|j: int| 0 <= j < anc.len() && j != m implies hc.data[#[trigger] anc[j]] == hb.data[anc[j]] by { assert(anc[j] != anc[m]); }
                    assert forall|x: Tid| #[trigger] h2.data.dom().contains(x) && !anc.contains(x) implies hc.data[x] == h2.data[x] by { assert(x != anc[m]); }
                }
//@@ proof after=cache_upsert#1
                    proof {
                        assert forall|x: Tid| h2.saved.contains(x) implies #[trigger] h.saved.contains(x) by { lemma_push_contains(hc.saved, anc[__i3 as int], x); }
                        assert forall|j: int| __i3 <= j < anc.len() && h2.data[anc[j]].dom().contains(nm) implies h.saved.contains(#[trigger] anc[j]) by {
                            lemma_push_contains(hc.saved, anc[__i3 as int], anc[j]);
                        }
                    }
//@@ proof at=afterloop3
            proof {
                assert forall|j: int| 0 <= j < anc.len() implies (#[trigger] h2.data[anc[j]]).dom() == old(h).data[anc[j]].dom() by {}
                assert forall|t: Tid| #[trigger] old(h).data.dom().contains(t) && !anc.contains(t) implies h.data[t] == old(h).data[t] by { assert(h2.data[t] == old(h).data[t]); }
                assert forall|i: int| 0 <= i < anc.len() implies (#[trigger] h.data[anc[i]]).dom() == old(h).data[anc[i]].dom() by {
                    assert(h.data[anc[i]].dom() =~= h2.data[anc[i]].dom());
                }
                assert forall|i: int, k: Key| 0 <= i < anc.len() && old(h).data[anc[i]].dom().contains(k)
                    implies #[trigger] h.data[anc[i]][k] == expected(old(h).data, anc, vars@, done, i, k) by {
                    assert(h2.data[anc[i]][k] == expected(old(h).data, anc, vars@, done0, i, k));
                    assert(h2.data[anc[i]].dom().contains(k));
                }
                assert(h.data[self.id@] == old(h).data[self.id@]);
                assert forall|i: int, k: Key| done.contains(k) && vars@.dom().contains(k) && !is_private(k) && #[trigger] declares(old(h).data, anc, k, i)
                    implies h.saved.contains(anc[i]) by {
                    if k == nm { assert(h2.data[anc[i]].dom().contains(nm)); } else { assert(h2.saved.contains(anc[i])); }
                }
            }
//@@ proof at=afterloop2
        proof {
            assert forall|k: Key| vars@.dom().contains(k) implies done.contains(k) by {
                assert(ks.contains(k));
                let j = choose|j: int| 0 <= j < ks.len() && ks[j] == k;
                assert(done.contains(ks[j]));
            }
            assert forall|i: int, k: Key| 0 <= i < anc.len() && old(h).data[anc[i]].dom().contains(k)
                implies #[trigger] h.data[anc[i]][k] == expected(old(h).data, anc, vars@, vars@.dom(), i, k) by {
                assert(h.data[anc[i]][k] == expected(old(h).data, anc, vars@, done, i, k));
            }
            assert(written(*old(h), *h, anc, vars@, vars@.dom()));
            assert(saved_ok(*old(h), *h, anc, vars@, vars@.dom()));
        }
//@@ proof before=set_data#1
        let ghost h3 = *h;
        proof { assert(written(*old(h), h3, anc, vars@, vars@.dom())); assert(saved_ok(*old(h), h3, anc, vars@, vars@.dom())); }
//@@ proof at=end
        proof {
            assert forall|i: int| 0 <= i < anc.len() implies #[trigger] anc[i] != self.id@ by {}
            assert forall|i: int, k: Key| vars@.dom().contains(k) && !is_private(k) && #[trigger] declares(old(h).data, anc, k, i)
                implies h.data[anc[i]][k] == vars@[k] by {
                assert(anc[i] != self.id@);
                assert(h3.data[anc[i]][k] == expected(old(h).data, anc, vars@, vars@.dom(), i, k));
            }
            let chain = seq![self.id@] + anc;
            assert forall|i: int, k: Key| vars@.dom().contains(k) && !is_private(k) && #[trigger] declares(h.data, chain, k, i)
                implies h.data[chain[i]][k] == vars@[k] by {
                if i > 0 {
                    assert(chain[i] == anc[i - 1]);
                    assert(anc[i - 1] != self.id@);
                    assert(h.data[anc[i - 1]] == h3.data[anc[i - 1]]);
                    assert(h3.data[anc[i - 1]].dom() == old(h).data[anc[i - 1]].dom());
                    assert(declares(old(h).data, anc, k, i - 1));
                    assert(h3.data[anc[i - 1]][k] == expected(old(h).data, anc, vars@, vars@.dom(), i - 1, k));
                }
            }
        }
//@@ end
}

// ---- Task::vars: what a condition, a template or a script sees as its globals (ActJsModule::vars -> Task::vars): the task's own data overlaid by the
// data of its enclosing scopes, the OUTERMOST scope that holds a name wins
pub open spec fn vars_of(h: DHeap, t: Tid) -> DataMap
    decreases depth(t)
{
    match parent_tid(t) {
        Some(p) => if depth(p) < depth(t) { h.data[t].union_prefer_right(vars_of(h, p)) } else { h.data[t] },
        None => h.data[t],
    }
}
impl Vars {
    // model/vars.rs: Vars::extend (ASSUMED map semantics: union preferring the argument)
    #[verifier::external_body]
    pub fn extend(self, other: Vars) -> (r: Vars) ensures r@ == self@.union_prefer_right(other@) { unimplemented!() }
}
impl Task {
    // R7: `self.data()`: a copy of the task's own data
    #[verifier::external_body]
    pub fn data(&self, Tracked(h): Tracked<&mut DHeap>) -> (r: Vars)
        requires old(h).data.dom().contains(self.id@)
        ensures r@ == old(h).data[self.id@], *final(h) == *old(h) { unimplemented!() }
//@@ extract file=acts/src/scheduler/process/task.rs in="impl Task" item="fn vars" name=Task::vars
//@@ opt attr="#[verifier::exec_allows_no_decreases_clause]"
//@@ spec
        requires chain_ok(*old(h), self.id@)
        ensures
            //# V11-the-globals-are-the-own-data-overlaid-by-the-enclosing-scopes-outermost-last
            *final(h) == *old(h) && ret@ == vars_of(*old(h), self.id@),
//@@ proof at=start
        proof { lemma_ancestors_step(self.id@); }
//@@ proof after=parent#1
            proof {
                // the parent's chain is the tail of this task's chain
                assert(ancestors(self.id@) == seq![parent.id@] + ancestors(parent.id@));
                assert(chain_ok(*h, parent.id@)) by {
                    assert(h.data.dom().contains(ancestors(self.id@)[0]));
                    assert forall|i: int| 0 <= i < ancestors(parent.id@).len() implies h.data.dom().contains(#[trigger] ancestors(parent.id@)[i]) by {
                        assert(ancestors(self.id@)[i + 1] == ancestors(parent.id@)[i]);
                    }
                }
            }
//@@ end
}
// ---- read-your-writes as a lemma over the contracts (C07: "is seen by every later condition, script and message"): when every scope on a task's chain that
// holds the name holds the value v (the post V9 of Task::update_data for the writer's chain), BOTH ways of reading the name from that task yield v --
// the outermost-first merge of Task::vars and the nearest-first search of Task::find (post V6)
pub proof fn lemma_vars_sees_the_write(h: DHeap, t: Tid, k: Key, v: JsonValue)
    requires
        forall|i: int| 0 <= i < ancestors(t).len() + 1 && h.data[#[trigger] (seq![t] + ancestors(t))[i]].dom().contains(k) ==> h.data[(seq![t] + ancestors(t))[i]][k] == v,
        exists|i: int| 0 <= i < ancestors(t).len() + 1 && h.data[#[trigger] (seq![t] + ancestors(t))[i]].dom().contains(k),
    ensures vars_of(h, t).dom().contains(k) && vars_of(h, t)[k] == v
    decreases depth(t)
{
    lemma_ancestors_step(t);
    let chain = seq![t] + ancestors(t);
    assert(chain[0] == t);
    match parent_tid(t) {
        Some(p) => {
            if depth(p) < depth(t) {
                let pc = seq![p] + ancestors(p);
                assert(ancestors(t) == pc);
                assert forall|i: int| 0 <= i < pc.len() implies chain[i + 1] == #[trigger] pc[i] by {}
                if exists|j: int| 0 <= j < ancestors(p).len() + 1 && h.data[#[trigger] pc[j]].dom().contains(k) {
                    assert forall|i: int| 0 <= i < ancestors(p).len() + 1 && h.data[#[trigger] pc[i]].dom().contains(k) implies h.data[pc[i]][k] == v by {
                        assert(chain[i + 1] == pc[i]);
                        assert(h.data[chain[i + 1]].dom().contains(k));
                    }
                    lemma_vars_sees_the_write(h, p, k, v);
                } else {
                    // no enclosing scope holds the name: the task itself does
                    let i = choose|i: int| 0 <= i < ancestors(t).len() + 1 && h.data[#[trigger] chain[i]].dom().contains(k);
                    if i > 0 { assert(chain[i] == pc[i - 1]); assert(h.data[pc[i - 1]].dom().contains(k)); assert(false); }
                    assert(h.data[t].dom().contains(k));
                    lemma_vars_dom(h, p, k);
                }
            } else {
                assert(ancestors(t) =~= Seq::<Tid>::empty());
                let i = choose|i: int| 0 <= i < ancestors(t).len() + 1 && h.data[#[trigger] chain[i]].dom().contains(k);
                assert(i == 0);
            }
        }
        None => {
            assert(ancestors(t) =~= Seq::<Tid>::empty());
            let i = choose|i: int| 0 <= i < ancestors(t).len() + 1 && h.data[#[trigger] chain[i]].dom().contains(k);
            assert(i == 0);
        }
    }
}
// a name is among the globals of a task only if some scope on its chain holds it
pub proof fn lemma_vars_dom(h: DHeap, t: Tid, k: Key)
    ensures vars_of(h, t).dom().contains(k) ==> exists|i: int| 0 <= i < ancestors(t).len() + 1 && h.data[#[trigger] (seq![t] + ancestors(t))[i]].dom().contains(k)
    decreases depth(t)
{
    lemma_ancestors_step(t);
    let chain = seq![t] + ancestors(t);
    if vars_of(h, t).dom().contains(k) {
        if h.data[t].dom().contains(k) { assert(chain[0] == t); }
        else {
            match parent_tid(t) {
                Some(p) => {
                    if depth(p) < depth(t) {
                        lemma_vars_dom(h, p, k);
                        let pc = seq![p] + ancestors(p);
                        let j = choose|j: int| 0 <= j < ancestors(p).len() + 1 && h.data[#[trigger] pc[j]].dom().contains(k);
                        assert(chain[j + 1] == pc[j]);
                    }
                }
                None => {}
            }
        }
    }
}
// THEOREM (C07, read-your-writes for the writer): if heap b satisfies the posts V5 and V9 of `w.update_data(vars)`, then for every non-private name k of
// `vars` the globals of w in b (what its later conditions, templates and scripts see) hold the written value
pub proof fn theorem_the_writer_reads_its_write(b: DHeap, w: Tid, own_before: DataMap, vars: DataMap, k: Key)
    requires
        // V5
        b.data[w] == own_before.union_prefer_right(vars),
        // V9
        forall|i: int, kk: Key| vars.dom().contains(kk) && !is_private(kk) && #[trigger] declares(b.data, seq![w] + ancestors(w), kk, i) ==> b.data[(seq![w] + ancestors(w))[i]][kk] == vars[kk],
        vars.dom().contains(k), !is_private(k),
    ensures vars_of(b, w).dom().contains(k) && vars_of(b, w)[k] == vars[k]
{
    let chain = seq![w] + ancestors(w);
    assert(chain[0] == w);
    assert(b.data[chain[0]].dom().contains(k));
    assert forall|i: int| 0 <= i < ancestors(w).len() + 1 && b.data[#[trigger] chain[i]].dom().contains(k) implies b.data[chain[i]][k] == vars[k] by {
        assert(declares(b.data, chain, k, i));
    }
    lemma_vars_sees_the_write(b, w, k, vars[k]);
}
// THEOREM (C07, the nearest-first read): under the same post V9, whatever scope Task::find ($get, output filling) reads the name from (post V6: the
// first scope on the chain in which it is readable), the value it reads is the written one
pub proof fn theorem_find_reads_the_write<T>(b: DHeap, w: Tid, vars: DataMap, k: Key, i: int)
    requires
        forall|j: int, kk: Key| vars.dom().contains(kk) && !is_private(kk) && #[trigger] declares(b.data, seq![w] + ancestors(w), kk, j) ==> b.data[(seq![w] + ancestors(w))[j]][kk] == vars[kk],
        vars.dom().contains(k), !is_private(k),
        first_readable::<T>(b, seq![w] + ancestors(w), k, i),
    ensures value_as::<T>(b.data[(seq![w] + ancestors(w))[i]][k]) == value_as::<T>(vars[k])
{
    reveal(first_readable);
    assert(declares(b.data, seq![w] + ancestors(w), k, i));
}
} // verus!
fn main() {}
