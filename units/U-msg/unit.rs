// U-msg: acknowledged delivery (C09) against the abstract message table.
//@@ unit U-msg
//@@ default props=C09 rewrites=R1,R2,R3,R5,R13 ghost="Tracked(st): Tracked<&mut StoreAbs>" ghostarg="Tracked(st)"
//@@ heapmethods query delete find create update time_millis set_message clear_error_messages resend_error_messages ack
use vstd::prelude::*;
verus! {
//@@ include prelude/store.rs
//@@ include prelude/rows.rs
//@@ include prelude/storeabs.rs

// ---- event message (what a handler receives); Vars / Model are opaque here
#[verifier::external_body]
pub struct Vars { _p: u8 }
#[verifier::external_body]
pub struct Model { _p: u8 }
//@@ extract file=acts/src/event/message.rs item="struct Message" name=Message
//@@ opt dropderive=Clone,Default
//@@ end
pub trait JsonParse: Sized { spec fn parse_or_default(s: Seq<char>) -> Self; }
impl JsonParse for Vars { uninterp spec fn parse_or_default(s: Seq<char>) -> Self; }
impl JsonParse for Model { uninterp spec fn parse_or_default(s: Seq<char>) -> Self; }
// TRUSTED: serde_json::from_str(..).unwrap_or_default() is a function of the text (R7)
#[verifier::external_body]
pub fn json_parse_or_default<T: JsonParse>(s: &String) -> (r: T) ensures r == T::parse_or_default(s@) { unimplemented!() }

// content of a delivery = function of the stored row (oracle for "same id and content")
pub open spec fn event_of_row(v: data::Message) -> Message {
    Message { id: v.id, tid: v.tid, name: v.name, state: v.state, r#type: v.r#type, model: Model::parse_or_default(v.model@),
              pid: v.pid, nid: v.nid, mid: v.mid, key: v.key, uses: v.uses, inputs: Vars::parse_or_default(v.inputs@),
              outputs: Vars::parse_or_default(v.outputs@), tag: v.tag, start_time: v.start_time, end_time: v.end_time, retry_times: v.retry_times }
}
impl vstd::std_specs::convert::FromSpecImpl<data::Message> for Message {
    open spec fn obeys_from_spec() -> bool { true }
    open spec fn from_spec(v: data::Message) -> Self { event_of_row(v) }
}
impl From<data::Message> for Message {
//@@ extract file=acts/src/event/message.rs in="impl From<data::Message> for Message" item="fn from" name=Message::from_row
//@@ opt traitpost noghost
//@@ rw R7 `serde_json :: from_str ( $A ) . unwrap_or_default ( )` => `json_parse_or_default($A)`
//@@ end
}

// ---- query shapes built by the real code (proved equal to these by the builder contracts)
pub open spec fn is_expr(e: Expr, op: ExprOp, key: Seq<char>, v: JsonV) -> bool { e.op == op && e.key@ == key && e.value@ == v }
pub open spec fn due(m: data::Message, threshold: int) -> bool { m.status == MessageStatus::Created && m.update_time < threshold }
pub open spec fn with_status(m: data::Message, s: MessageStatus, t: i64) -> data::Message { data::Message { status: s, update_time: t, ..m } }
// b is a with status s and some new update_time (existential-free form)
pub open spec fn status_set(a: data::Message, b: data::Message, s: MessageStatus) -> bool { b == with_status(a, s, b.update_time) }
pub open spec fn retried(m: data::Message, t: i64) -> data::Message { data::Message { retry_times: (m.retry_times + 1) as i32, update_time: t, ..m } }
pub open spec fn errored(m: data::Message, t: i64) -> data::Message { data::Message { status: MessageStatus::Error, update_time: t, ..m } }
pub open spec fn redone(m: data::Message, t: i64) -> data::Message { data::Message { status: MessageStatus::Created, retry_times: 0, update_time: t, ..m } }
pub open spec fn others_same(a: StoreAbs, b: StoreAbs) -> bool {
    a.tasks == b.tasks && a.procs == b.procs && a.models == b.models && a.events == b.events && a.query_ok == b.query_ok && a.write_ok == b.write_ok
}
pub proof fn lemma_keys()
    ensures "pid"@ != "id"@, "tid"@ != "id"@, "tid"@ != "pid"@, "status"@ != "id"@, "status"@ != "pid"@, "status"@ != "tid"@,
            "update_time"@ != "id"@, "update_time"@ != "pid"@, "update_time"@ != "tid"@, "update_time"@ != "status"@,
{
    reveal_strlit("pid"); reveal_strlit("id"); reveal_strlit("tid"); reveal_strlit("status"); reveal_strlit("update_time");
    assert("pid"@.len() == 3 && "id"@.len() == 2 && "tid"@.len() == 3 && "status"@.len() == 6 && "update_time"@.len() == 11);
    assert("tid"@[0] != "pid"@[0]);
}

pub open spec fn pair_query(q: Query, pid: Seq<char>, tid: Seq<char>) -> bool {
    q.conds@.len() == 1 && q.conds@[0].r#type == CondType::And && q.conds@[0].conds@.len() == 2 && q.limit == 100000
    && is_expr(q.conds@[0].conds@[0], ExprOp::EQ, "pid"@, JsonV::Str(pid)) && is_expr(q.conds@[0].conds@[1], ExprOp::EQ, "tid"@, JsonV::Str(tid))
}
pub open spec fn msg_of_pair(pid: Seq<char>, tid: Seq<char>) -> spec_fn(data::Message) -> bool { |m: data::Message| m.pid@ == pid && m.tid@ == tid }
pub proof fn lemma_pair_query(q: Query, pid: Seq<char>, tid: Seq<char>)
    requires pair_query(q, pid, tid)
    ensures forall|m: data::Message| #[trigger] query_holds(q, m) <==> msg_of_pair(pid, tid)(m)
{
    lemma_keys();
    assert forall|m: data::Message| #[trigger] query_holds(q, m) <==> msg_of_pair(pid, tid)(m) by {
        reveal(query_holds); reveal(cond_holds);
        let c = q.conds@[0];
        if m.pid@ == pid && m.tid@ == tid {
            assert forall|i: int| 0 <= i < c.conds@.len() implies expr_holds(#[trigger] c.conds@[i].op, m.field(c.conds@[i].key@), c.conds@[i].value@) by {
                if i == 0 {} else { assert(i == 1); }
            }
            assert(cond_holds(c, m));
        }
        if query_holds(q, m) {
            assert(cond_holds(q.conds@[0], m));
            assert(expr_holds(c.conds@[0].op, m.field(c.conds@[0].key@), c.conds@[0].value@));
            assert(expr_holds(c.conds@[1].op, m.field(c.conds@[1].key@), c.conds@[1].value@));
        }
    }
}

// ---- delivery callback with its monitor (R20: `F: Fn(&Message)` -> `F: Deliver`, `f(&m.into())` -> `f.call(..ghost..)`)
pub open spec fn deliverable(msg: Message, row: data::Message, max: i32, thr: int) -> bool {
    // the row was waiting (neither acknowledged nor closed), stale, below the retry limit; the delivery carries the same id and
    // content with the retry count one higher
    &&& due(row, thr)
    &&& row.retry_times < max
    &&& exists|t: i64| msg == event_of_row(retried(row, t))
}
pub trait Deliver {
    spec fn pre(&self, msg: Message, row: data::Message, max: i32, thr: int) -> bool;
    fn call(&self, msg: &Message, Ghost(row): Ghost<data::Message>, Ghost(max): Ghost<i32>, Ghost(thr): Ghost<int>)
        requires self.pre(*msg, row, max, thr);
}
pub open spec fn bumped(a: data::Message, b: data::Message, max: i32) -> bool {
    (a.retry_times < max && b == retried(a, b.update_time)) || (a.retry_times >= max && b == errored(a, b.update_time))
}
pub open spec fn msg_due(thr: int) -> spec_fn(data::Message) -> bool { |m: data::Message| due(m, thr) }
pub open spec fn due_query(q: Query, thr: int) -> bool {
    q.conds@.len() == 1 && q.conds@[0].r#type == CondType::And && q.conds@[0].conds@.len() == 2 && q.limit == 300
    && is_expr(q.conds@[0].conds@[0], ExprOp::EQ, "status"@, JsonV::Int(0)) && is_expr(q.conds@[0].conds@[1], ExprOp::LT, "update_time"@, JsonV::Int(thr))
}
pub proof fn lemma_due_query(q: Query, thr: int)
    requires due_query(q, thr)
    ensures forall|m: data::Message| #[trigger] query_holds(q, m) <==> msg_due(thr)(m)
{
    lemma_keys();
    assert forall|m: data::Message| #[trigger] query_holds(q, m) <==> msg_due(thr)(m) by {
        reveal(query_holds); reveal(cond_holds);
        let c = q.conds@[0];
        if due(m, thr) {
            assert forall|i: int| 0 <= i < c.conds@.len() implies expr_holds(#[trigger] c.conds@[i].op, m.field(c.conds@[i].key@), c.conds@[i].value@) by {
                if i == 0 {} else { assert(i == 1); }
            }
            assert(cond_holds(c, m));
        }
        if query_holds(q, m) {
            assert(cond_holds(q.conds@[0], m));
            assert(expr_holds(c.conds@[0].op, m.field(c.conds@[0].key@), c.conds@[0].value@));
            assert(expr_holds(c.conds@[1].op, m.field(c.conds@[1].key@), c.conds@[1].value@));
        }
    }
}
pub open spec fn opt_view(p: Option<String>) -> Option<Seq<char>> { match p { Some(s) => Some(s@), None => None } }
pub open spec fn msg_in_error(pid: Option<Seq<char>>) -> spec_fn(data::Message) -> bool {
    |m: data::Message| m.status == MessageStatus::Error && (pid is Some ==> m.pid@ == pid->Some_0)
}
pub open spec fn error_query(q: Query, pid: Option<Seq<char>>) -> bool {
    q.conds@.len() == 1 && q.conds@[0].r#type == CondType::And && q.limit == 100000
    && is_expr(q.conds@[0].conds@[0], ExprOp::EQ, "status"@, JsonV::Int(3))
    && (pid is None ==> q.conds@[0].conds@.len() == 1)
    && (pid is Some ==> q.conds@[0].conds@.len() == 2 && is_expr(q.conds@[0].conds@[1], ExprOp::EQ, "pid"@, JsonV::Str(pid->Some_0)))
}
pub proof fn lemma_error_query(q: Query, pid: Option<Seq<char>>)
    requires error_query(q, pid)
    ensures forall|m: data::Message| #[trigger] query_holds(q, m) <==> msg_in_error(pid)(m)
{
    lemma_keys();
    assert forall|m: data::Message| #[trigger] query_holds(q, m) <==> msg_in_error(pid)(m) by {
        reveal(query_holds); reveal(cond_holds);
        let c = q.conds@[0];
        if msg_in_error(pid)(m) {
            assert forall|i: int| 0 <= i < c.conds@.len() implies expr_holds(#[trigger] c.conds@[i].op, m.field(c.conds@[i].key@), c.conds@[i].value@) by {
                if i == 0 {} else { assert(i == 1); }
            }
            assert(cond_holds(c, m));
        }
        if query_holds(q, m) {
            assert(cond_holds(q.conds@[0], m));
            assert(expr_holds(c.conds@[0].op, m.field(c.conds@[0].key@), c.conds@[0].value@));
            if pid is Some { assert(expr_holds(c.conds@[1].op, m.field(c.conds@[1].key@), c.conds@[1].value@)); }
        }
    }
}

impl Store {
//@@ extract file=acts/src/cache/store.rs in="impl Store" item="fn set_message" name=Store::set_message
//@@ spec
    requires
        old(st).wf(),
    ensures
        //# K3-frame
        others_same(*old(st), *final(st)) && final(st).messages.dom() == old(st).messages.dom(),
        //# K3-only-that-id
        forall|k: Seq<char>| k != id@ && old(st).messages.dom().contains(k) ==> final(st).messages[k] == old(st).messages[k],
        //# K3-status-set
        ret is Ok && old(st).messages.dom().contains(id@) ==> status_set(old(st).messages[id@], final(st).messages[id@], status),
        //# K3-err-unchanged
        ret is Err ==> final(st).messages == old(st).messages,
//@@ proof after=update#1
        proof { assert(st.messages[id@] == with_status(old(st).messages[id@], status, message.update_time)); }
//@@ end

//@@ extract file=acts/src/cache/store.rs in="impl Store" item="fn set_message_with" name=Store::set_message_with
//@@ spec
    requires
        old(st).wf(),
        sel_count(old(st).messages, msg_of_pair(pid@, tid@)) <= 100000,
    ensures
        //# K3w-frame
        others_same(*old(st), *final(st)) && final(st).messages.dom() == old(st).messages.dom(),
        //# K3w-others-untouched
        forall|k: Seq<char>| old(st).messages.dom().contains(k) && !(old(st).messages[k].pid@ == pid@ && old(st).messages[k].tid@ == tid@)
            ==> final(st).messages[k] == old(st).messages[k],
        //# K3w-step
        forall|k: Seq<char>| old(st).messages.dom().contains(k) ==> final(st).messages[k] == old(st).messages[k]
            || status_set(old(st).messages[k], final(st).messages[k], status),
        //# K3w-all-of-the-pair-closed
        ret is Ok && old(st).query_ok ==> forall|k: Seq<char>| old(st).messages.dom().contains(k) && old(st).messages[k].pid@ == pid@ && old(st).messages[k].tid@ == tid@
            ==> final(st).messages[k].status == status,
//@@ proof after=query#1
        proof {
            assert(pair_query(q, pid@, tid@));
            lemma_pair_query(q, pid@, tid@);
            lemma_query_rows(old(st).messages, q, messages.rows@, msg_of_pair(pid@, tid@));
        }
//@@ loop 1
        invariant
            //# K3w-inv-frame
            others_same(*old(st), *st) && st.messages.dom() == old(st).messages.dom() && old(st).wf(),
            //# K3w-inv-rows
            sel_sound(old(st).messages, __v1@, msg_of_pair(pid@, tid@)) && sel_distinct(__v1@) && sel_complete(old(st).messages, __v1@, msg_of_pair(pid@, tid@)),
            //# K3w-inv-step
            forall|k: Seq<char>| old(st).messages.dom().contains(k) ==> #[trigger] st.messages[k] == old(st).messages[k]
                || status_set(old(st).messages[k], st.messages[k], status),
            //# K3w-inv-untouched
            forall|k: Seq<char>| old(st).messages.dom().contains(k) && !msg_of_pair(pid@, tid@)(old(st).messages[k]) ==> #[trigger] st.messages[k] == old(st).messages[k],
            //# K3w-inv-pending
            forall|j: int| __i1 <= j < __v1@.len() ==> st.messages[(#[trigger] __v1@[j]).id@] == old(st).messages[__v1@[j].id@],
            //# K3w-inv-done
            forall|j: int| 0 <= j < __i1 ==> st.messages[(#[trigger] __v1@[j]).id@].status == status,
//@@ proof after=update#1
        proof {
            let i = __i1 as int - 1;
            let row = __v1@[i];
            assert(old(st).messages[row.rid()] == row);
            assert(msg_of_pair(pid@, tid@)(row));
            assert forall|j: int| 0 <= j < i + 1 implies st.messages[(#[trigger] __v1@[j]).id@].status == status by {
                if j < i { assert(__v1@[j].rid() != __v1@[i].rid()); }
            }
            assert forall|j: int| i + 1 <= j < __v1@.len() implies st.messages[(#[trigger] __v1@[j]).id@] == old(st).messages[__v1@[j].id@] by {
                assert(__v1@[i].rid() != __v1@[j].rid());
            }
        }
//@@ proof at=afterloop1
        proof {
            let rows = messages.rows@;
            assert forall|k: Seq<char>| old(st).messages.dom().contains(k) && old(st).messages[k].pid@ == pid@ && old(st).messages[k].tid@ == tid@
                implies st.messages[k].status == status by {
                assert(msg_of_pair(pid@, tid@)(old(st).messages[k]));
                let j = choose|j: int| 0 <= j < rows.len() && (#[trigger] rows[j]).rid() == k;
                assert(rows[j].id@ == k);
            }
        }
//@@ end

//@@ extract file=acts/src/cache/store.rs in="impl Store" item="fn with_no_response_messages" name=Store::with_no_response_messages
//@@ rw R20 `F : Fn ( & Message )` => `F: Deliver`
//@@ rw R20 `f ( & message . into ( ) )` => `f.call(&message.into(), Ghost(*m), Ghost(max_message_retry_times), Ghost(thr))`
//@@ spec
    requires
        old(st).wf(),
        // clock range (listed assumption): now and the timeout are non-negative, so `now - timeout` does not wrap
        0 <= timeout_millis, 0 <= old(st).now,
        // monitor: what may be handed to the delivery callback
        forall|msg: Message, row: data::Message, thr: int| deliverable(msg, row, max_message_retry_times, thr) ==> #[trigger] f.pre(msg, row, max_message_retry_times, thr),
    ensures
        //# K2-frame
        others_same(*old(st), *final(st)) && final(st).messages.dom() == old(st).messages.dom(),
        //# K2-not-due-untouched
        forall|k: Seq<char>| old(st).messages.dom().contains(k) && !due(old(st).messages[k], old(st).now - timeout_millis) ==> final(st).messages[k] == old(st).messages[k],
        //# K2-retry-step
        forall|k: Seq<char>| old(st).messages.dom().contains(k) ==> final(st).messages[k] == old(st).messages[k]
            || bumped(old(st).messages[k], final(st).messages[k], max_message_retry_times),
        //# K2-acked-closed-silent
        forall|k: Seq<char>| old(st).messages.dom().contains(k) && old(st).messages[k].status != MessageStatus::Created ==> final(st).messages[k] == old(st).messages[k],
//@@ proof before=query#1
        let ghost thr: int = old(st).now - timeout_millis;
        proof {
            assert(due_query(q, thr));
            lemma_due_query(q, thr);
        }
//@@ proof after=query#1
        proof { lemma_query_rows(old(st).messages, q, messages.rows@, msg_due(thr)); }
//@@ loop 1
        invariant
            //# K2-inv-frame
            others_same(*old(st), *st) && st.messages.dom() == old(st).messages.dom() && old(st).wf() && thr == old(st).now - timeout_millis && __v1@ == messages.rows@,
            //# K2-inv-monitor
            forall|msg: Message, row: data::Message, thr: int| deliverable(msg, row, max_message_retry_times, thr) ==> #[trigger] f.pre(msg, row, max_message_retry_times, thr),
            //# K2-inv-rows
            sel_sound(old(st).messages, __v1@, msg_due(thr)) && sel_distinct(__v1@),
            //# K2-inv-untouched
            forall|k: Seq<char>| old(st).messages.dom().contains(k) && !msg_due(thr)(old(st).messages[k]) ==> #[trigger] st.messages[k] == old(st).messages[k],
            //# K2-inv-pending
            forall|j: int| __i1 <= j < __v1@.len() ==> st.messages[(#[trigger] __v1@[j]).id@] == old(st).messages[__v1@[j].id@],
            //# K2-inv-step
            forall|k: Seq<char>| old(st).messages.dom().contains(k) ==> #[trigger] st.messages[k] == old(st).messages[k]
                || bumped(old(st).messages[k], st.messages[k], max_message_retry_times),
//@@ proof after=update#1
                proof {
                    let i = __i1 as int - 1;
                    assert(old(st).messages[__v1@[i].rid()] == __v1@[i]);
                    assert(msg_due(thr)(__v1@[i]));
                    assert forall|j: int| i + 1 <= j < __v1@.len() implies st.messages[(#[trigger] __v1@[j]).id@] == old(st).messages[__v1@[j].id@] by {
                        assert(__v1@[i].rid() != __v1@[j].rid());
                    }
                }
//@@ proof before=call#1
                proof {
                    let i = __i1 as int - 1;
                    assert(msg_due(thr)(__v1@[i]));
                    assert(message == retried(*m, message.update_time));
                    assert(event_of_row(message) == event_of_row(retried(*m, message.update_time)));
                }
//@@ proof after=update#2
                proof {
                    let i = __i1 as int - 1;
                    assert(old(st).messages[__v1@[i].rid()] == __v1@[i]);
                    assert(msg_due(thr)(__v1@[i]));
                    assert forall|j: int| i + 1 <= j < __v1@.len() implies st.messages[(#[trigger] __v1@[j]).id@] == old(st).messages[__v1@[j].id@] by {
                        assert(__v1@[i].rid() != __v1@[j].rid());
                    }
                }
//@@ end

//@@ extract file=acts/src/cache/store.rs in="impl Store" item="fn resend_error_messages" name=Store::resend_error_messages
//@@ spec
    requires
        old(st).wf(),
        sel_count(old(st).messages, msg_in_error(None)) <= 100000,
    ensures
        //# K4-frame
        others_same(*old(st), *final(st)) && final(st).messages.dom() == old(st).messages.dom(),
        //# K4-only-error-rows
        forall|k: Seq<char>| old(st).messages.dom().contains(k) && old(st).messages[k].status != MessageStatus::Error ==> final(st).messages[k] == old(st).messages[k],
        //# K4-redo-step
        forall|k: Seq<char>| old(st).messages.dom().contains(k) ==> final(st).messages[k] == old(st).messages[k]
            || final(st).messages[k] == redone(old(st).messages[k], final(st).messages[k].update_time),
        //# K4-all-redone
        ret is Ok && old(st).query_ok ==> forall|k: Seq<char>| old(st).messages.dom().contains(k) && old(st).messages[k].status == MessageStatus::Error
            ==> final(st).messages[k].status == MessageStatus::Created && final(st).messages[k].retry_times == 0,
//@@ proof after=query#1
        proof {
            assert(error_query(q, None));
            lemma_error_query(q, None);
            lemma_query_rows(old(st).messages, q, messages.rows@, msg_in_error(None));
        }
//@@ loop 1
        invariant
            //# K4-inv-frame
            others_same(*old(st), *st) && st.messages.dom() == old(st).messages.dom() && old(st).wf() && __v1@ == messages.rows@,
            //# K4-inv-rows
            sel_sound(old(st).messages, __v1@, msg_in_error(None)) && sel_distinct(__v1@) && sel_complete(old(st).messages, __v1@, msg_in_error(None)),
            //# K4-inv-untouched
            forall|k: Seq<char>| old(st).messages.dom().contains(k) && !msg_in_error(None)(old(st).messages[k]) ==> #[trigger] st.messages[k] == old(st).messages[k],
            //# K4-inv-pending
            forall|j: int| __i1 <= j < __v1@.len() ==> st.messages[(#[trigger] __v1@[j]).id@] == old(st).messages[__v1@[j].id@],
            //# K4-inv-step
            forall|k: Seq<char>| old(st).messages.dom().contains(k) ==> #[trigger] st.messages[k] == old(st).messages[k]
                || st.messages[k] == redone(old(st).messages[k], st.messages[k].update_time),
            //# K4-inv-done
            forall|j: int| 0 <= j < __i1 ==> st.messages[(#[trigger] __v1@[j]).id@].status == MessageStatus::Created && st.messages[__v1@[j].id@].retry_times == 0,
//@@ proof after=update#1
        proof {
            let i = __i1 as int - 1;
            assert(old(st).messages[__v1@[i].rid()] == __v1@[i]);
            assert(msg_in_error(None)(__v1@[i]));
            assert forall|j: int| 0 <= j < i + 1 implies st.messages[(#[trigger] __v1@[j]).id@].status == MessageStatus::Created && st.messages[__v1@[j].id@].retry_times == 0 by {
                if j < i { assert(__v1@[j].rid() != __v1@[i].rid()); }
            }
            assert forall|j: int| i + 1 <= j < __v1@.len() implies st.messages[(#[trigger] __v1@[j]).id@] == old(st).messages[__v1@[j].id@] by {
                assert(__v1@[i].rid() != __v1@[j].rid());
            }
        }
//@@ proof at=afterloop1
        proof {
            assert forall|k: Seq<char>| old(st).messages.dom().contains(k) && old(st).messages[k].status == MessageStatus::Error
                implies st.messages[k].status == MessageStatus::Created && st.messages[k].retry_times == 0 by {
                assert(msg_in_error(None)(old(st).messages[k]));
                let j = choose|j: int| 0 <= j < __v1@.len() && (#[trigger] __v1@[j]).rid() == k;
                assert(__v1@[j].id@ == k);
            }
        }
//@@ end

//@@ extract file=acts/src/cache/store.rs in="impl Store" item="fn clear_error_messages" name=Store::clear_error_messages
//@@ spec
    requires
        old(st).wf(),
        sel_count(old(st).messages, msg_in_error(opt_view(pid))) <= 100000,
    ensures
        //# K5-frame
        others_same(*old(st), *final(st)),
        //# K5-nothing-new-or-changed
        forall|k: Seq<char>| #[trigger] final(st).messages.dom().contains(k) ==> old(st).messages.dom().contains(k) && final(st).messages[k] == old(st).messages[k],
        //# K5-only-selected-error-rows-deleted
        forall|k: Seq<char>| old(st).messages.dom().contains(k) && !msg_in_error(opt_view(pid))(old(st).messages[k]) ==> final(st).messages.dom().contains(k),
        //# K5-all-deleted
        ret is Ok && old(st).query_ok ==> forall|k: Seq<char>| old(st).messages.dom().contains(k) && msg_in_error(opt_view(pid))(old(st).messages[k]) ==> !final(st).messages.dom().contains(k),
//@@ proof after=query#1
        proof {
            assert(error_query(q, opt_view(pid)));
            lemma_error_query(q, opt_view(pid));
            lemma_query_rows(old(st).messages, q, messages.rows@, msg_in_error(opt_view(pid)));
        }
//@@ loop 1
        invariant
            //# K5-inv-frame
            others_same(*old(st), *st) && old(st).wf() && __v1@ == messages.rows@,
            //# K5-inv-rows
            sel_sound(old(st).messages, __v1@, msg_in_error(opt_view(pid))) && sel_distinct(__v1@) && sel_complete(old(st).messages, __v1@, msg_in_error(opt_view(pid))),
            //# K5-inv-kept
            forall|k: Seq<char>| old(st).messages.dom().contains(k) && !msg_in_error(opt_view(pid))(old(st).messages[k]) ==> #[trigger] st.messages.dom().contains(k),
            //# K5-inv-same
            forall|k: Seq<char>| #[trigger] st.messages.dom().contains(k) ==> old(st).messages.dom().contains(k) && st.messages[k] == old(st).messages[k],
            //# K5-inv-done
            forall|j: int| 0 <= j < __i1 ==> !st.messages.dom().contains((#[trigger] __v1@[j]).id@),
//@@ proof after=delete#1
        proof {
            let i = __i1 as int - 1;
            assert(old(st).messages[__v1@[i].rid()] == __v1@[i]);
            assert(msg_in_error(opt_view(pid))(__v1@[i]));
        }
//@@ proof at=afterloop1
        proof {
            assert forall|k: Seq<char>| old(st).messages.dom().contains(k) && msg_in_error(opt_view(pid))(old(st).messages[k]) implies !st.messages.dom().contains(k) by {
                let j = choose|j: int| 0 <= j < __v1@.len() && (#[trigger] __v1@[j]).rid() == k;
                assert(__v1@[j].id@ == k);
            }
        }
//@@ end
}

// ---- the client-facing entry points (export/executor/message_executor.rs, scheduler/runtime.rs): one-line wrappers, under contract so that a
// change in WHICH store function (or which status) they reach is seen
#[verifier::external_body]
pub struct CacheM { _p: u8 }
impl CacheM {
    #[verifier::external_body]
    pub fn store(&self) -> (r: &std::sync::Arc<Store>) { unimplemented!() }
}
pub struct Runtime { pub cache: std::sync::Arc<CacheM> }
impl Runtime {
    #[verifier::external_body]
    pub fn cache(&self) -> (r: &std::sync::Arc<CacheM>) { unimplemented!() }
//@@ extract file=acts/src/scheduler/runtime.rs in="impl Runtime" item="fn ack" name=Runtime::ack
//@@ rw R7 `data :: MessageStatus :: Acked` => `MessageStatus::Acked`
//@@ spec
    requires old(st).wf()
    ensures
        //# K6-an-ack-touches-only-the-message-with-that-id
        others_same(*old(st), *final(st)) && final(st).messages.dom() == old(st).messages.dom()
            && forall|k: Seq<char>| k != id@ && old(st).messages.dom().contains(k) ==> final(st).messages[k] == old(st).messages[k],
        //# K6-an-accepted-ack-marks-the-message-acked
        ret is Ok && old(st).messages.dom().contains(id@) ==> status_set(old(st).messages[id@], final(st).messages[id@], MessageStatus::Acked),
        //# K6-a-refused-ack-changes-nothing
        ret is Err ==> final(st).messages == old(st).messages,
//@@ end
}
pub struct MessageExecutor { pub runtime: std::sync::Arc<Runtime> }
impl MessageExecutor {
//@@ extract file=acts/src/export/executor/message_executor.rs in="impl MessageExecutor" item="fn ack" name=MessageExecutor::ack
//@@ spec
    requires old(st).wf()
    ensures
        //# K6-an-ack-touches-only-the-message-with-that-id
        others_same(*old(st), *final(st)) && final(st).messages.dom() == old(st).messages.dom()
            && forall|k: Seq<char>| k != id@ && old(st).messages.dom().contains(k) ==> final(st).messages[k] == old(st).messages[k],
        //# K6-an-accepted-ack-marks-the-message-acked
        ret is Ok && old(st).messages.dom().contains(id@) ==> status_set(old(st).messages[id@], final(st).messages[id@], MessageStatus::Acked),
        //# K6-a-refused-ack-changes-nothing
        ret is Err ==> final(st).messages == old(st).messages,
//@@ end
//@@ extract file=acts/src/export/executor/message_executor.rs in="impl MessageExecutor" item="fn clear" name=MessageExecutor::clear
//@@ spec
    requires old(st).wf(), sel_count(old(st).messages, msg_in_error(opt_view(pid))) <= 100000
    ensures
        //# K5-clear-frame
        others_same(*old(st), *final(st)),
        //# K5-clear-adds-and-changes-nothing
        forall|k: Seq<char>| #[trigger] final(st).messages.dom().contains(k) ==> old(st).messages.dom().contains(k) && final(st).messages[k] == old(st).messages[k],
        //# K5-clear-removes-only-selected-error-rows
        forall|k: Seq<char>| old(st).messages.dom().contains(k) && !msg_in_error(opt_view(pid))(old(st).messages[k]) ==> final(st).messages.dom().contains(k),
        //# K5-clear-removes-all-of-them
        ret is Ok && old(st).query_ok ==> forall|k: Seq<char>| old(st).messages.dom().contains(k) && msg_in_error(opt_view(pid))(old(st).messages[k]) ==> !final(st).messages.dom().contains(k),
//@@ end
//@@ extract file=acts/src/export/executor/message_executor.rs in="impl MessageExecutor" item="fn redo" name=MessageExecutor::redo
//@@ spec
    requires old(st).wf(), sel_count(old(st).messages, msg_in_error(None)) <= 100000
    ensures
        //# K4-redo-touches-only-error-rows
        others_same(*old(st), *final(st)) && final(st).messages.dom() == old(st).messages.dom()
            && (forall|k: Seq<char>| old(st).messages.dom().contains(k) && old(st).messages[k].status != MessageStatus::Error ==> final(st).messages[k] == old(st).messages[k])
            && (forall|k: Seq<char>| old(st).messages.dom().contains(k) ==> final(st).messages[k] == old(st).messages[k]
                || final(st).messages[k] == redone(old(st).messages[k], final(st).messages[k].update_time)),
//@@ end
}

} // verus!
fn main() {}
