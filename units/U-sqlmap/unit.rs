// U-sqlmap: SQLite row mappers (C10-Q4, C12).  Prelude: rusqlite::Row as an uninterpreted
// column map; `Row::get_unwrap(name)` is ASSUMED to return the value of the column `name`.
//@@ unit U-sqlmap
//@@ default props=C10 rewrites=R1,R2,R3,R5,R13
use vstd::prelude::*;
verus! {

#[verifier::external_body]
pub struct Row<'a> { _p: &'a u8 }
pub struct DbError {}
pub type DbResult<T, E> = std::result::Result<T, E>;

pub trait ColType: Sized {}
impl ColType for String {}
impl ColType for i64 {}
impl ColType for i32 {}
impl ColType for i8 {}
impl ColType for bool {}
impl ColType for Option<String> {}

impl<'a> Row<'a> {
    /// value of the column `name`, viewed at type T (uninterpreted)
    pub uninterp spec fn col<T>(&self, name: Seq<char>) -> T;

    // TRUSTED: rusqlite::Row::get_unwrap returns the named column's value
    #[verifier::external_body]
    pub fn get_unwrap<I: RowIdx, T: ColType>(&self, idx: I) -> (r: T)
        ensures r == self.col::<T>(idx.name())
    { unimplemented!() }
}
pub trait RowIdx: Sized { spec fn name(self) -> Seq<char>; }
impl<'b> RowIdx for &'b str { open spec fn name(self) -> Seq<char> { self@ } }

pub trait DbRow: Sized {
    spec fn row_spec(row: &Row<'_>) -> Self;
    fn from_row(row: &Row<'_>) -> (ret: DbResult<Self, DbError>);
}

// strum-derived `FromStr` is derive-generated code (outside this family): ASSUMED total on stored strings
#[derive(Debug)]
pub struct ParseError {}
pub trait StrumEnum: Sized {
    spec fn of_str(s: Seq<char>) -> Self;
}
//@@ extract file=acts/src/event/message.rs item="enum MessageState" name=MessageState
//@@ opt structural
//@@ end
//@@ extract file=acts/src/package/mod.rs item="enum ActRunAs" name=ActRunAs
//@@ opt structural
//@@ end
//@@ extract file=acts/src/package/mod.rs item="enum ActPackageCatalog" name=ActPackageCatalog
//@@ opt structural
//@@ end
impl StrumEnum for MessageState { uninterp spec fn of_str(s: Seq<char>) -> Self; }
impl StrumEnum for ActRunAs { uninterp spec fn of_str(s: Seq<char>) -> Self; }
impl StrumEnum for ActPackageCatalog { uninterp spec fn of_str(s: Seq<char>) -> Self; }
impl MessageState {
    // TRUSTED: strum::EnumString (derive) parses the snake_case variant name; stored strings are valid
    #[verifier::external_body]
    pub fn from_str(s: &str) -> (r: Result<Self, ParseError>) ensures r is Ok, r->Ok_0 == <Self as StrumEnum>::of_str(s@) { unimplemented!() }
}
impl ActRunAs {
    // TRUSTED: strum::EnumString (derive)
    #[verifier::external_body]
    pub fn from_str(s: &str) -> (r: Result<Self, ParseError>) ensures r is Ok, r->Ok_0 == <Self as StrumEnum>::of_str(s@) { unimplemented!() }
}
impl ActPackageCatalog {
    // TRUSTED: strum::EnumString (derive)
    #[verifier::external_body]
    pub fn from_str(s: &str) -> (r: Result<Self, ParseError>) ensures r is Ok, r->Ok_0 == <Self as StrumEnum>::of_str(s@) { unimplemented!() }
}
pub mod acts { pub use super::MessageState; pub use super::ActRunAs; pub use super::ActPackageCatalog; }
// (derive(Structural) inside a submodule crashes Verus 0.2026.09.13: enums live at the crate root)
//@@ extract file=acts/src/store/data/message.rs item="enum MessageStatus" name=MessageStatus
//@@ opt structural
//@@ end
pub open spec fn status_of_i8(v: i8) -> MessageStatus {
    if v == 1 { MessageStatus::Acked } else if v == 2 { MessageStatus::Completed } else if v == 3 { MessageStatus::Error } else { MessageStatus::Created }
}
impl vstd::std_specs::convert::FromSpecImpl<i8> for MessageStatus {
    open spec fn obeys_from_spec() -> bool { true }
    open spec fn from_spec(v: i8) -> Self { status_of_i8(v) }
}
impl From<i8> for MessageStatus {
//@@ extract file=acts/src/store/data/message.rs in="impl From<i8> for MessageStatus" item="fn from" name=MessageStatus::from_i8 props=C10,C09
//@@ opt traitpost
//@@ end
}

pub mod data {
use super::*;
pub use super::{MessageStatus, status_of_i8};
//@@ extract file=acts/src/store/data/message.rs item="struct Message"
//@@ end
//@@ extract file=acts/src/store/data/package.rs item="struct Package"
//@@ end
//@@ extract file=acts/src/store/data/proc.rs item="struct Proc"
//@@ end
//@@ extract file=acts/src/store/data/task.rs item="struct Task"
//@@ end
//@@ extract file=acts/src/store/data/model.rs item="struct Model"
//@@ end
//@@ extract file=acts/src/store/data/event.rs item="struct Event"
//@@ end
}

// ---------------------------------------------------------------- Proc
impl DbRow for data::Proc {
    open spec fn row_spec(row: &Row<'_>) -> Self {
        data::Proc {
            id: row.col("id"@), state: row.col("state"@), mid: row.col("mid"@), name: row.col("name"@),
            start_time: row.col("start_time"@), end_time: row.col("end_time"@), timestamp: row.col("timestamp"@),
            model: row.col("model"@), env: row.col("env"@), err: row.col("err"@),
        }
    }
//@@ extract file=store/sqlite/src/collection/proc.rs in="impl DbRow for data::Proc" item="fn from_row" name=sqlite::Proc::from_row props=C10,C12
//@@ spec
    ensures
        //# Q4-ok
        ret is Ok,
        //# Q4-fields
        ret->Ok_0 == Self::row_spec(row),
//@@ end
}

// ---------------------------------------------------------------- Task
impl DbRow for data::Task {
    open spec fn row_spec(row: &Row<'_>) -> Self {
        data::Task {
            id: row.col("id"@), pid: row.col("pid"@), tid: row.col("tid"@), node_data: row.col("node_data"@),
            kind: row.col("kind"@), prev: row.col("prev"@), name: row.col("name"@), state: row.col("state"@),
            data: row.col("data"@), err: row.col("err"@), start_time: row.col("start_time"@),
            end_time: row.col("end_time"@), hooks: row.col("hooks"@), timestamp: row.col("timestamp"@),
        }
    }
//@@ extract file=store/sqlite/src/collection/task.rs in="impl DbRow for data::Task" item="fn from_row" name=sqlite::Task::from_row props=C10,C12
//@@ spec
    ensures
        //# Q4-ok
        ret is Ok,
        //# Q4-fields
        ret->Ok_0 == Self::row_spec(row),
//@@ end
}

// ---------------------------------------------------------------- Model
impl DbRow for data::Model {
    open spec fn row_spec(row: &Row<'_>) -> Self {
        data::Model {
            id: row.col("id"@), name: row.col("name"@), ver: row.col("ver"@), size: row.col("size"@),
            create_time: row.col("create_time"@), update_time: row.col("update_time"@),
            data: row.col("data"@), timestamp: row.col("timestamp"@),
        }
    }
//@@ extract file=store/sqlite/src/collection/model.rs in="impl DbRow for data::Model" item="fn from_row" name=sqlite::Model::from_row props=C10,C20
//@@ spec
    ensures
        //# Q4-ok
        ret is Ok,
        //# Q4-fields
        ret->Ok_0 == Self::row_spec(row),
//@@ end
}

// ---------------------------------------------------------------- Event
impl DbRow for data::Event {
    open spec fn row_spec(row: &Row<'_>) -> Self {
        data::Event {
            id: row.col("id"@), name: row.col("name"@), mid: row.col("mid"@), ver: row.col("ver"@),
            uses: row.col("uses"@), params: row.col("params"@),
            create_time: row.col("create_time"@), timestamp: row.col("timestamp"@),
        }
    }
//@@ extract file=store/sqlite/src/collection/event.rs in="impl DbRow for data::Event" item="fn from_row" name=sqlite::Event::from_row props=C10,C20
//@@ spec
    ensures
        //# Q4-ok
        ret is Ok,
        //# Q4-fields
        ret->Ok_0 == Self::row_spec(row),
//@@ end
}

// ---------------------------------------------------------------- Message
impl DbRow for data::Message {
    open spec fn row_spec(row: &Row<'_>) -> Self {
        data::Message {
            id: row.col("id"@), tid: row.col("tid"@), name: row.col("name"@),
            state: <MessageState as StrumEnum>::of_str(row.col::<String>("state"@)@),
            r#type: row.col("type"@), model: row.col("model"@), pid: row.col("pid"@), nid: row.col("nid"@),
            mid: row.col("mid"@), key: row.col("key"@), uses: row.col("uses"@), inputs: row.col("inputs"@),
            outputs: row.col("outputs"@), tag: row.col("tag"@), start_time: row.col("start_time"@),
            end_time: row.col("end_time"@), chan_id: row.col("chan_id"@), chan_pattern: row.col("chan_pattern"@),
            create_time: row.col("create_time"@), update_time: row.col("update_time"@),
            retry_times: row.col("retry_times"@), status: data::status_of_i8(row.col::<i8>("status"@)),
            timestamp: row.col("timestamp"@),
        }
    }
//@@ extract file=store/sqlite/src/collection/message.rs in="impl DbRow for data::Message" item="fn from_row" name=sqlite::Message::from_row props=C10,C09
//@@ spec
    ensures
        //# Q4-ok
        ret is Ok,
        //# Q4-fields
        ret->Ok_0 == Self::row_spec(row),
//@@ end
}

// ---------------------------------------------------------------- Package
impl DbRow for data::Package {
    open spec fn row_spec(row: &Row<'_>) -> Self {
        data::Package {
            id: row.col("id"@), desc: row.col("desc"@), icon: row.col("icon"@), doc: row.col("doc"@),
            version: row.col("version"@), schema: row.col("schema"@),
            run_as: <ActRunAs as StrumEnum>::of_str(row.col::<String>("run_as"@)@),
            resources: row.col("resources"@),
            catalog: <ActPackageCatalog as StrumEnum>::of_str(row.col::<String>("catalog"@)@),
            built_in: row.col("built_in"@), create_time: row.col("create_time"@),
            update_time: row.col("update_time"@), timestamp: row.col("timestamp"@),
        }
    }
//@@ extract file=store/sqlite/src/collection/package.rs in="impl DbRow for data::Package" item="fn from_row" name=sqlite::Package::from_row props=C10
//@@ spec
    ensures
        //# Q4-ok
        ret is Ok,
        //# Q4-fields
        ret->Ok_0 == Self::row_spec(row),
//@@ end
}

} // verus!
fn main() {}
