// U-sqlmap: SQLite row mappers (C10-Q4, C12).  Prelude: rusqlite::Row as an uninterpreted
// column map; `Row::get_unwrap(name)` is ASSUMED to return the value of the column `name`.
//@@ unit U-sqlmap
//@@ default props=C10 rewrites=R1,R2,R3,R5,R13
use vstd::prelude::*;
verus! {

#[verifier::external_body]
pub struct Row<'a> { _p: &'a u8 }
pub struct DbError {}
pub type DbResult<T, E> = std::result::Result<T, E>;

pub trait ColType: Sized {}
impl ColType for String {}
impl ColType for i64 {}
impl ColType for i32 {}
impl ColType for i8 {}
impl ColType for bool {}
impl ColType for Option<String> {}

impl<'a> Row<'a> {
    /// value of the column `name`, viewed at type T (uninterpreted)
    pub uninterp spec fn col<T>(&self, name: Seq<char>) -> T;

    // TRUSTED: rusqlite::Row::get_unwrap returns the named column's value
    #[verifier::external_body]
    pub fn get_unwrap<I: RowIdx, T: ColType>(&self, idx: I) -> (r: T)
        ensures r == self.col::<T>(idx.name())
    { unimplemented!() }
}
pub trait RowIdx: Sized { spec fn name(self) -> Seq<char>; }
impl<'b> RowIdx for &'b str { open spec fn name(self) -> Seq<char> { self@ } }

pub trait DbRow: Sized {
    spec fn row_spec(row: &Row<'_>) -> Self;
    fn from_row(row: &Row<'_>) -> (ret: DbResult<Self, DbError>);
}

pub mod data {
use super::*;
//@@ extract file=acts/src/store/data/proc.rs item="struct Proc"
//@@ end
//@@ extract file=acts/src/store/data/task.rs item="struct Task"
//@@ end
//@@ extract file=acts/src/store/data/model.rs item="struct Model"
//@@ end
//@@ extract file=acts/src/store/data/event.rs item="struct Event"
//@@ end
}

// ---------------------------------------------------------------- Proc
impl DbRow for data::Proc {
    open spec fn row_spec(row: &Row<'_>) -> Self {
        data::Proc {
            id: row.col("id"@), state: row.col("state"@), mid: row.col("mid"@), name: row.col("name"@),
            start_time: row.col("start_time"@), end_time: row.col("end_time"@), timestamp: row.col("timestamp"@),
            model: row.col("model"@), env: row.col("env"@), err: row.col("err"@),
        }
    }
//@@ extract file=store/sqlite/src/collection/proc.rs in="impl DbRow for data::Proc" item="fn from_row" name=sqlite::Proc::from_row props=C10,C12
//@@ spec
    ensures
        //# Q4-ok
        ret is Ok,
        //# Q4-fields
        ret->Ok_0 == Self::row_spec(row),
//@@ end
}

// ---------------------------------------------------------------- Task
impl DbRow for data::Task {
    open spec fn row_spec(row: &Row<'_>) -> Self {
        data::Task {
            id: row.col("id"@), pid: row.col("pid"@), tid: row.col("tid"@), node_data: row.col("node_data"@),
            kind: row.col("kind"@), prev: row.col("prev"@), name: row.col("name"@), state: row.col("state"@),
            data: row.col("data"@), err: row.col("err"@), start_time: row.col("start_time"@),
            end_time: row.col("end_time"@), hooks: row.col("hooks"@), timestamp: row.col("timestamp"@),
        }
    }
//@@ extract file=store/sqlite/src/collection/task.rs in="impl DbRow for data::Task" item="fn from_row" name=sqlite::Task::from_row props=C10,C12
//@@ spec
    ensures
        //# Q4-ok
        ret is Ok,
        //# Q4-fields
        ret->Ok_0 == Self::row_spec(row),
//@@ end
}

// ---------------------------------------------------------------- Model
impl DbRow for data::Model {
    open spec fn row_spec(row: &Row<'_>) -> Self {
        data::Model {
            id: row.col("id"@), name: row.col("name"@), ver: row.col("ver"@), size: row.col("size"@),
            create_time: row.col("create_time"@), update_time: row.col("update_time"@),
            data: row.col("data"@), timestamp: row.col("timestamp"@),
        }
    }
//@@ extract file=store/sqlite/src/collection/model.rs in="impl DbRow for data::Model" item="fn from_row" name=sqlite::Model::from_row props=C10,C20
//@@ spec
    ensures
        //# Q4-ok
        ret is Ok,
        //# Q4-fields
        ret->Ok_0 == Self::row_spec(row),
//@@ end
}

// ---------------------------------------------------------------- Event
impl DbRow for data::Event {
    open spec fn row_spec(row: &Row<'_>) -> Self {
        data::Event {
            id: row.col("id"@), name: row.col("name"@), mid: row.col("mid"@), ver: row.col("ver"@),
            uses: row.col("uses"@), params: row.col("params"@),
            create_time: row.col("create_time"@), timestamp: row.col("timestamp"@),
        }
    }
//@@ extract file=store/sqlite/src/collection/event.rs in="impl DbRow for data::Event" item="fn from_row" name=sqlite::Event::from_row props=C10,C20
//@@ spec
    ensures
        //# Q4-ok
        ret is Ok,
        //# Q4-fields
        ret->Ok_0 == Self::row_spec(row),
//@@ end
}

} // verus!
fn main() {}
