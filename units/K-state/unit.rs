// K-state (Kani): the persisted form of a task/process state (acts/src/scheduler/state.rs) read back gives the state that was written.
// The functions below are cut out of /repo on every run; only attributes/derives of crates that a stand-alone file cannot link
// (serde) are dropped (rewrite R1).  The harness enumerates all 13 states symbolically; with unwinding assertions on it is a
// complete proof for the whole domain (the only loops are the byte loops of string compare/copy, bounded by the longest name + 1).
//@@ unit K-state
//@@ default props=C12,C11 rewrites=R1
#![allow(dead_code, unused)]
//@@ extract file=acts/src/scheduler/state.rs item="enum TaskState" name=TaskState
//@@ opt noghost dropderive=Serialize,Deserialize
//@@ end
//@@ extract file=acts/src/scheduler/state.rs item="fn state_to_str" name=state_to_str
//@@ opt noghost
//@@ end
//@@ extract file=acts/src/scheduler/state.rs item="fn str_to_state" name=str_to_state
//@@ opt noghost
//@@ end
//@@ extract file=acts/src/scheduler/state.rs item="impl TaskState" name=TaskState::classes
//@@ opt noghost
//@@ end

fn nth_state(k: u8) -> TaskState {
    match k {
        0 => TaskState::None, 1 => TaskState::Ready, 2 => TaskState::Pending, 3 => TaskState::Running, 4 => TaskState::Interrupt,
        5 => TaskState::Completed, 6 => TaskState::Submitted, 7 => TaskState::Backed, 8 => TaskState::Cancelled, 9 => TaskState::Error,
        10 => TaskState::Skipped, 11 => TaskState::Aborted, _ => TaskState::Removed,
    }
}
// every variant is produced by nth_state (exhaustiveness of the enumeration is itself checked: a new variant breaks `variant_index`)
fn variant_index(s: &TaskState) -> u8 {
    match s {
        TaskState::None => 0, TaskState::Ready => 1, TaskState::Pending => 2, TaskState::Running => 3, TaskState::Interrupt => 4,
        TaskState::Completed => 5, TaskState::Submitted => 6, TaskState::Backed => 7, TaskState::Cancelled => 8, TaskState::Error => 9,
        TaskState::Skipped => 10, TaskState::Aborted => 11, TaskState::Removed => 12,
    }
}
fn roundtrip_ok(k: u8) -> bool {
    let s = nth_state(k);
    let text = state_to_str(s.clone());
    str_to_state(&text) == s
}
// two different states never share a stored name (otherwise a reload could not tell them apart)
fn injective_ok(a: u8, b: u8) -> bool {
    a == b || state_to_str(nth_state(a)) != state_to_str(nth_state(b))
}

//# L3-state-text-round-trip [C12,C11] complete
#[cfg(kani)]
#[kani::proof]
#[kani::unwind(13)]
fn h_roundtrip() {
    let k: u8 = kani::any();
    kani::assume(k < 13);
    assert!(variant_index(&nth_state(k)) == k);
    assert!(roundtrip_ok(k));
    kani::cover!(true);
}

//# L3-state-text-injective [C12] complete
#[cfg(kani)]
#[kani::proof]
#[kani::unwind(13)]
fn h_injective() {
    let a: u8 = kani::any();
    let b: u8 = kani::any();
    kani::assume(a < 13 && b < 13);
    assert!(injective_ok(a, b));
    kani::cover!(true);
}

#[cfg(not(kani))]
fn main() {
    let mut bad = 0;
    for k in 0..13u8 {
        if variant_index(&nth_state(k)) != k || !roundtrip_ok(k) {
            println!("REPLAY-FAIL harness=h_roundtrip state #{k}: stored as {:?}, read back as a different state", state_to_str(nth_state(k)));
            bad += 1;
        }
        for b in 0..13u8 {
            if !injective_ok(k, b) { println!("REPLAY-FAIL harness=h_injective states #{k} and #{b} share the stored name {:?}", state_to_str(nth_state(k))); bad += 1; }
        }
    }
    std::process::exit(if bad > 0 { 1 } else { 0 });
}
