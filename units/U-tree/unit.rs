// U-tree: the execution tree built from a model (C20, tree clause): scheduler/tree/build.rs build_workflow / build_step / build_branch /
// build_act / dyn_build_act.  "contains every declared step, branch and act ... with the declared nesting and order":
// every node is made with its (possibly generated) id at its level and linked exactly as declared: steps of one level chained by
// `next`, branches / first acts registered under their step, the steps of every catch / timeout rule registered under THEIR OWN
// rule key of the step or act that declares them and chained within the rule.
// The tree is an append-only ghost log of made nodes and links; NodeTree::make / node and Node::set_parent_in / set_next are the
// TRUSTED primitive layer (node_tree.rs / node.rs, 3-8 lines each).  Termination of the mutual recursion is not verified.
//@@ unit U-tree
//@@ default props=C20,C04,C12 rewrites=R1,R2,R3,R5,R13,R15,R23 ghost="Tracked(t): Tracked<&mut TreeAbs>" ghostarg="Tracked(t)" attr="#[verifier::exec_allows_no_decreases_clause] #[verifier::loop_isolation(false)]" bodyprelude="broadcast use {lemma_link_kept, lemma_rule_kept, lemma_acts_kept, lemma_branches_kept, lemma_made_kept, lemma_grows_refl, lemma_grows_tr};"
//@@ heapmethods make set_parent set_parent_in set_next append_node build_step build_branch build_act
use vstd::prelude::*;
use std::sync::Arc;
verus! {
#[verifier::external_body]
pub struct JsonValue { _p: u8 }
impl Clone for JsonValue { #[verifier::external_body] fn clone(&self) -> (r: Self) ensures r == *self { unimplemented!() } }
#[verifier::external_body]
pub struct Vars { _p: u8 }
impl Clone for Vars { #[verifier::external_body] fn clone(&self) -> (r: Self) ensures r == *self { unimplemented!() } }
// ---- the real model structs (serde attributes erased)
//@@ extract file=acts/src/model/mod.rs item="enum ActEvent" name=ActEvent
//@@ opt structural
//@@ end
//@@ extract file=acts/src/model/act/catch.rs item="struct Catch" name=Catch
//@@ opt dropderive=Clone
//@@ end
//@@ extract file=acts/src/model/act/timeout.rs item="struct Timeout" name=Timeout
//@@ opt dropderive=Clone
//@@ end
//@@ extract file=acts/src/model/act.rs item="struct Act" name=Act
//@@ opt dropderive=Clone
//@@ end
//@@ extract file=acts/src/model/step.rs item="struct Step" name=Step
//@@ opt dropderive=Clone
//@@ end
//@@ extract file=acts/src/model/branch.rs item="struct Branch" name=Branch
//@@ opt dropderive=Clone
//@@ end
//@@ extract file=acts/src/model/workflow.rs item="struct Workflow" name=Workflow
//@@ opt dropderive=Clone
//@@ end
// TRUSTED: derived Clone on the model structs is a deep copy
impl Clone for Catch { #[verifier::external_body] fn clone(&self) -> (r: Self) ensures r == *self { unimplemented!() } }
impl Clone for Timeout { #[verifier::external_body] fn clone(&self) -> (r: Self) ensures r == *self { unimplemented!() } }
impl Clone for Act { #[verifier::external_body] fn clone(&self) -> (r: Self) ensures r == *self { unimplemented!() } }
impl Clone for Step { #[verifier::external_body] fn clone(&self) -> (r: Self) ensures r == *self { unimplemented!() } }
impl Clone for Branch { #[verifier::external_body] fn clone(&self) -> (r: Self) ensures r == *self { unimplemented!() } }
impl Clone for Workflow { #[verifier::external_body] fn clone(&self) -> (r: Self) ensures r == *self { unimplemented!() } }
//@@ extract file=acts/src/scheduler/tree/node.rs item="enum NodeContent" name=NodeContent
//@@ opt dropderive=Clone
//@@ end
//@@ extract file=acts/src/scheduler/tree/node.rs item="enum NodeOutputKind" name=NodeOutputKind
//@@ opt structural
//@@ end
pub enum ActError { Runtime(String), Model(String) }
pub type Result<T> = std::result::Result<T, ActError>;
#[verifier::external_body]
pub fn fmt_opaque() -> String { unimplemented!() }
impl NodeContent {
//@@ extract file=acts/src/scheduler/tree/node.rs in="impl NodeContent" item="fn id" name=NodeContent::id
//@@ opt noghost
//@@ rw R7 `data . id . to_string ( )` => `data.id.clone()`
//@@ spec
    ensures
        //# N1-content-id
        ret@ == content_id(*self),
//@@ end
}
pub open spec fn content_id(c: NodeContent) -> Seq<char> {
    match c { NodeContent::Workflow(d) => d.id@, NodeContent::Branch(d) => d.id@, NodeContent::Step(d) => d.id@, NodeContent::Act(d) => d.id@ }
}
// utils: generated ids (ASSUMED non-empty)
#[verifier::external_body] pub fn shortid() -> (r: String) ensures r@.len() > 0 { unimplemented!() }
#[verifier::external_body] pub fn longid() -> (r: String) ensures r@.len() > 0 { unimplemented!() }

// ---- the tree as an append-only log
pub enum Link {
    Next { from: Seq<char>, to: Seq<char> },                                                            // from.next = to
    Under { child: Seq<char>, typ: NodeOutputKind, on: Option<Seq<char>>, parent: Seq<char> },         // child hangs under parent's output (typ, on)
}
pub ghost struct TreeAbs { pub made: Seq<(Seq<char>, usize)>, pub links: Seq<Link>, pub appended: Seq<(Seq<char>, Seq<char>, usize)> }
pub open spec fn grows(a: TreeAbs, b: TreeAbs) -> bool { a.made.is_prefix_of(b.made) && a.links.is_prefix_of(b.links) && a.appended.is_prefix_of(b.appended) }
pub open spec fn chained(t: TreeAbs, a: Seq<char>, b: Seq<char>) -> bool { t.links.contains(Link::Next { from: a, to: b }) }
pub open spec fn under(t: TreeAbs, child: Seq<char>, typ: NodeOutputKind, on: Option<Seq<char>>, parent: Seq<char>) -> bool {
    t.links.contains(Link::Under { child, typ, on, parent })
}
// R7: clones of the rule keys handed to the recursive call (same value)
#[verifier::external_body]
pub fn clone_string(s: &String) -> (r: String) ensures r@ == s@ { unimplemented!() }
#[verifier::external_body]
pub fn clone_opt_string(s: &Option<String>) -> (r: Option<String>) ensures opt_view(r) == opt_view(*s) { unimplemented!() }
pub open spec fn opt_view(o: Option<String>) -> Option<Seq<char>> { match o { Some(s) => Some(s@), None => None } }
pub proof fn lemma_grows_trans(a: TreeAbs, b: TreeAbs, c: TreeAbs) requires grows(a, b), grows(b, c) ensures grows(a, c) {}
pub proof fn lemma_grows_keeps(a: TreeAbs, b: TreeAbs, l: Link) requires grows(a, b), a.links.contains(l) ensures b.links.contains(l)
{
    let i = choose|i: int| 0 <= i < a.links.len() && a.links[i] == l;
    assert(b.links[i] == l);
}
pub broadcast proof fn lemma_link_kept(a: TreeAbs, b: TreeAbs, l: Link)
    requires #[trigger] grows(a, b), #[trigger] a.links.contains(l)
    ensures b.links.contains(l)
{ lemma_grows_keeps(a, b, l); }
// listed assumption: the model is nested far less than usize::MAX deep (R7: `level + 1` -> succ_level(level))
#[verifier::external_body]
pub fn succ_level(level: usize) -> (r: usize) ensures r as int == level as int + 1, r != level { unimplemented!() }
// the consequences stated in the primitive layer's contracts follow from their defining equations
pub proof fn lemma_push_link(a: TreeAbs, l: Link) ensures grows(a, TreeAbs { links: a.links.push(l), ..a }), (TreeAbs { links: a.links.push(l), ..a }).links.contains(l)
{ assert(a.links.push(l)[a.links.len() as int] == l); }
pub proof fn lemma_push_made(a: TreeAbs, m: (Seq<char>, usize)) ensures grows(a, TreeAbs { made: a.made.push(m), ..a }), (TreeAbs { made: a.made.push(m), ..a }).made.contains(m)
{ assert(a.made.push(m)[a.made.len() as int] == m); }
pub broadcast proof fn lemma_made_kept(a: TreeAbs, b: TreeAbs, m: (Seq<char>, usize))
    requires #[trigger] grows(a, b), #[trigger] a.made.contains(m)
    ensures b.made.contains(m)
{ let i = choose|i: int| 0 <= i < a.made.len() && a.made[i] == m; assert(b.made[i] == m); }
pub broadcast proof fn lemma_grows_refl(a: TreeAbs) ensures #[trigger] grows(a, a) {}
pub broadcast proof fn lemma_grows_tr(a: TreeAbs, b: TreeAbs, c: TreeAbs) requires #[trigger] grows(a, b), #[trigger] grows(b, c) ensures grows(a, c) {}
pub struct Node { pub id: String, pub level: usize }
impl Clone for Node { #[verifier::external_body] fn clone(&self) -> (r: Self) ensures r == *self { unimplemented!() } }
impl Node {
    // TRUSTED primitive layer (tree/node.rs)
    #[verifier::external_body]
    pub fn set_parent_in(&self, typ: NodeOutputKind, on: Option<String>, parent: &Arc<Node>, Tracked(t): Tracked<&mut TreeAbs>)
        ensures *final(t) == (TreeAbs { links: old(t).links.push(Link::Under { child: self.id@, typ, on: opt_view(on), parent: parent.id@ }), ..*old(t) }),
                grows(*old(t), *final(t)), under(*final(t), self.id@, typ, opt_view(on), parent.id@),     // consequences (lemma_push_link)
    { unimplemented!() }
    // set_parent(parent) = set_parent_in(Normal, None, parent)
    #[verifier::external_body]
    pub fn set_parent(&self, parent: &Arc<Node>, Tracked(t): Tracked<&mut TreeAbs>)
        ensures *final(t) == (TreeAbs { links: old(t).links.push(Link::Under { child: self.id@, typ: NodeOutputKind::Normal, on: None, parent: parent.id@ }), ..*old(t) }),
                grows(*old(t), *final(t)), under(*final(t), self.id@, NodeOutputKind::Normal, None, parent.id@),     // consequences (lemma_push_link)
    { unimplemented!() }
    #[verifier::external_body]
    pub fn set_next(&self, node: &Arc<Node>, is_prev: bool, Tracked(t): Tracked<&mut TreeAbs>)
        ensures *final(t) == (TreeAbs { links: old(t).links.push(Link::Next { from: self.id@, to: node.id@ }), ..*old(t) }),
                grows(*old(t), *final(t)), chained(*final(t), self.id@, node.id@),     // consequences (lemma_push_link)
    { unimplemented!() }
    // append_node: a run-time generated node kept by its parent (not in the tree's id map)
    #[verifier::external_body]
    pub fn append_node(&self, id: &String, data: NodeContent, level: usize, Tracked(t): Tracked<&mut TreeAbs>) -> (r: Arc<Node>)
        ensures r.id@ == id@, r.level == level, *final(t) == (TreeAbs { appended: old(t).appended.push((self.id@, id@, level)), ..*old(t) }),
                grows(*old(t), *final(t)), final(t).appended.contains((self.id@, id@, level)),     // consequences
    { unimplemented!() }
}
#[verifier::external_body]
pub struct TreeInner { _p: u8 }
pub struct NodeTree { pub model: Box<Workflow>, pub inner: TreeInner }
pub open spec fn is_made(t: TreeAbs, id: Seq<char>) -> bool { exists|i: int| 0 <= i < t.made.len() && (#[trigger] t.made[i]).0 == id }
impl NodeTree {
    // TRUSTED primitive layer (tree/node_tree.rs): make refuses an id that exists already
    #[verifier::external_body]
    pub fn make(&self, id: &String, data: NodeContent, level: usize, Tracked(t): Tracked<&mut TreeAbs>) -> (r: Result<Arc<Node>>)
        ensures
            r is Ok ==> !is_made(*old(t), id@) && r->Ok_0.id@ == id@ && r->Ok_0.level == level && *final(t) == (TreeAbs { made: old(t).made.push((id@, level)), ..*old(t) }),
            r is Err ==> is_made(*old(t), id@) && *final(t) == *old(t),
            grows(*old(t), *final(t)), r is Ok ==> final(t).made.contains((id@, level)),     // consequences (lemma_push_made)
    { unimplemented!() }
    #[verifier::external_body]
    pub fn node(&self, key: &String) -> (r: Option<Arc<Node>>) ensures r is Some ==> r->Some_0.id@ == key@ { unimplemented!() }
    #[verifier::external_body]
    pub fn set_error(&mut self, err: ActError) ensures final(self).model == old(self).model { unimplemented!() }
    #[verifier::external_body]
    pub fn set_root(&mut self, node: &Arc<Node>) ensures final(self).model == old(self).model { unimplemented!() }
}

// ---- oracle (statement): declared nesting and order
// the steps of one rule (catch / timeout) of `owner`: the first hangs under the rule's own key, the others are chained in order
// the first n steps of one rule: the first hangs under the rule's own key of `owner`, each later one follows its predecessor
pub open spec fn rule_prefix(t: TreeAbs, steps: Seq<Step>, n: int, typ: NodeOutputKind, on: Option<Seq<char>>, owner: Seq<char>) -> bool {
    &&& n > 0 ==> under(t, steps[0].id@, typ, on, owner)
    &&& forall|s: int| 0 < s < n ==> chained(t, (#[trigger] steps[s - 1]).id@, steps[s].id@)
}
pub open spec fn rule_built(t: TreeAbs, steps: Seq<Step>, typ: NodeOutputKind, on: Option<Seq<char>>, owner: Seq<char>) -> bool {
    rule_prefix(t, steps, steps.len() as int, typ, on, owner)
}
// the acts of a step: the first hangs under the step, each later one follows its predecessor (acts of a step run one after another)
pub open spec fn acts_prefix(t: TreeAbs, acts: Seq<Act>, n: int, owner: Seq<char>) -> bool {
    &&& n > 0 ==> under(t, acts[0].id@, NodeOutputKind::Normal, None, owner)
    &&& forall|s: int| 0 < s < n ==> chained(t, (#[trigger] acts[s - 1]).id@, acts[s].id@)
}
pub open spec fn act_cursor_ok(cur: Node, s: int, acts: Seq<Act>, owner: Seq<char>, owner_level: usize) -> bool {
    if s == 0 { cur.id@ == owner && cur.level == owner_level } else { cur.id@ == acts[s - 1].id@ && cur.level as int == owner_level as int + 1 }
}
pub broadcast proof fn lemma_acts_kept(a: TreeAbs, b: TreeAbs, acts: Seq<Act>, n: int, owner: Seq<char>)
    requires #[trigger] grows(a, b), #[trigger] acts_prefix(a, acts, n, owner)
    ensures acts_prefix(b, acts, n, owner)
{
    if n > 0 { lemma_grows_keeps(a, b, Link::Under { child: acts[0].id@, typ: NodeOutputKind::Normal, on: None, parent: owner }); }
    assert forall|s: int| 0 < s < n implies chained(b, (#[trigger] acts[s - 1]).id@, acts[s].id@) by {
        lemma_grows_keeps(a, b, Link::Next { from: acts[s - 1].id@, to: acts[s].id@ });
    }
}
// every branch of a step hangs under the step
pub open spec fn branches_prefix(t: TreeAbs, br: Seq<Branch>, n: int, owner: Seq<char>) -> bool {
    forall|b: int| 0 <= b < n ==> under(t, (#[trigger] br[b]).id@, NodeOutputKind::Normal, None, owner)
}
pub broadcast proof fn lemma_branches_kept(a: TreeAbs, b: TreeAbs, br: Seq<Branch>, n: int, owner: Seq<char>)
    requires #[trigger] grows(a, b), #[trigger] branches_prefix(a, br, n, owner)
    ensures branches_prefix(b, br, n, owner)
{
    assert forall|i: int| 0 <= i < n implies under(b, (#[trigger] br[i]).id@, NodeOutputKind::Normal, None, owner) by {
        lemma_grows_keeps(a, b, Link::Under { child: br[i].id@, typ: NodeOutputKind::Normal, on: None, parent: owner });
    }
}
pub open spec fn catches_built(t: TreeAbs, c: Seq<Catch>, owner: Seq<char>) -> bool {
    forall|r: int| 0 <= r < c.len() ==> rule_built(t, (#[trigger] c[r]).steps@, NodeOutputKind::Catch, opt_view(c[r].on), owner)
}
pub open spec fn timeouts_built(t: TreeAbs, c: Seq<Timeout>, owner: Seq<char>) -> bool {
    forall|r: int| 0 <= r < c.len() ==> rule_built(t, (#[trigger] c[r]).steps@, NodeOutputKind::Timeout, Some(c[r].on@), owner)
}
pub broadcast proof fn lemma_rule_kept(a: TreeAbs, b: TreeAbs, steps: Seq<Step>, n: int, typ: NodeOutputKind, on: Option<Seq<char>>, owner: Seq<char>)
    requires #[trigger] grows(a, b), #[trigger] rule_prefix(a, steps, n, typ, on, owner)
    ensures rule_prefix(b, steps, n, typ, on, owner)
{
    if n > 0 { lemma_grows_keeps(a, b, Link::Under { child: steps[0].id@, typ, on, parent: owner }); }
    assert forall|s: int| 0 < s < n implies chained(b, (#[trigger] steps[s - 1]).id@, steps[s].id@) by {
        lemma_grows_keeps(a, b, Link::Next { from: steps[s - 1].id@, to: steps[s].id@ });
    }
}
// how the node of a step / sequential act is tied to what was built before it
pub open spec fn tied(t: TreeAbs, prev_level: usize, prev_id: Seq<char>, level: usize, id: Seq<char>, typ: NodeOutputKind, on: Option<Seq<char>>, parent: Seq<char>) -> bool {
    if prev_level == level { chained(t, prev_id, id) } else { under(t, id, typ, on, parent) }
}
// the cursor handed to the s-th step of a rule: the owner itself for the first step, the previous step of the same rule afterwards
pub open spec fn cursor_ok(cur: Node, s: int, steps: Seq<Step>, owner: Seq<char>, owner_level: usize) -> bool {
    if s == 0 { cur.id@ == owner && cur.level == owner_level } else { cur.id@ == steps[s - 1].id@ && cur.level as int == owner_level as int + 1 }
}
// model fields that building never touches (it only fills in empty ids)
pub open spec fn same_rules(a: Seq<Catch>, b: Seq<Catch>) -> bool { a.len() == b.len() && forall|r: int| 0 <= r < a.len() ==> (#[trigger] a[r]).on == b[r].on && a[r].steps@.len() == b[r].steps@.len() }
pub open spec fn same_timeouts(a: Seq<Timeout>, b: Seq<Timeout>) -> bool { a.len() == b.len() && forall|r: int| 0 <= r < a.len() ==> (#[trigger] a[r]).on == b[r].on && a[r].steps@.len() == b[r].steps@.len() }

//@@ extract file=acts/src/scheduler/tree/build.rs item="fn build_step" name=build_step
//@@ spec
    ensures
        //# T1-tree-only-grows
        grows(*old(t), *final(t)),
        //# T2-the-step-node-is-made-at-its-level-and-the-cursor-moves-to-it
        ret is Ok ==> final(step).id@.len() > 0 && (old(step).id@.len() > 0 ==> final(step).id == old(step).id) && final(prev).id@ == final(step).id@ && final(prev).level == level
            && final(t).made.contains((final(step).id@, level)),
        //# T3-a-step-follows-its-predecessor-of-the-same-level-else-hangs-under-its-parent
        ret is Ok ==> (if old(prev).level == level { chained(*final(t), old(prev).id@, final(step).id@) } else { under(*final(t), final(step).id@, typ, opt_view(on), parent.id@) }),
        //# T4-the-steps-of-every-catch-hang-under-their-own-catch
        ret is Ok ==> same_rules(old(step).catches@, final(step).catches@) && catches_built(*final(t), final(step).catches@, final(step).id@),
        //# T5-the-steps-of-every-timeout-rule-hang-under-their-own-rule
        ret is Ok ==> same_timeouts(old(step).timeout@, final(step).timeout@) && timeouts_built(*final(t), final(step).timeout@, final(step).id@),
        //# T11-every-branch-hangs-under-its-step
        ret is Ok && old(step).next is None ==> final(step).branches@.len() == old(step).branches@.len() && branches_prefix(*final(t), final(step).branches@, final(step).branches@.len() as int, final(step).id@),
        //# T12-the-acts-of-a-step-hang-under-it-one-after-another
        ret is Ok ==> final(step).acts@.len() == old(step).acts@.len() && acts_prefix(*final(t), final(step).acts@, final(step).acts@.len() as int, final(step).id@),
//@@ rw R7 `level + 1` => `succ_level(level)`
//@@ rw R7 `catch . on . clone ( )` => `clone_opt_string(&catch.on)`
//@@ rw R7 `Some ( timeout . on . clone ( ) )` => `Some(clone_string(&timeout.on))`
//@@ proof after=make#1
    let ghost nid = node.id@;
    let ghost on_v = opt_view(on);
    let ghost t0 = *t;
//@@ proof at=beforeloop1
                let ghost s1 = *step;
//@@ loop 1
        invariant
            //# step-frame
            *step == (Step { branches: step.branches, ..s1 }) && step.branches@.len() == s1.branches@.len() && grows(t0, *t)
                && branches_prefix(*t, step.branches@, __m1 as int, nid)
                && tied(*t, old(prev).level, old(prev).id@, level, nid, typ, on_v, parent.id@),
//@@ proof at=beforeloop2
        let ghost s2 = *step;
//@@ loop 2
        invariant
            //# step-frame
            *step == (Step { acts: step.acts, ..s2 }) && step.acts@.len() == s2.acts@.len() && grows(t0, *t)
                && act_cursor_ok(*act_prev, __m2 as int, step.acts@, nid, level) && acts_prefix(*t, step.acts@, __m2 as int, nid)
                && (step.next is None ==> branches_prefix(*t, step.branches@, step.branches@.len() as int, nid))
                && tied(*t, old(prev).level, old(prev).id@, level, nid, typ, on_v, parent.id@),
//@@ proof at=beforeloop3
        let ghost s3 = *step;
//@@ loop 3
        invariant
            //# catches-built-so-far
            *step == (Step { catches: step.catches, ..s3 }) && step.catches@.len() == s3.catches@.len() && grows(t0, *t)
                && acts_prefix(*t, step.acts@, step.acts@.len() as int, nid) && (step.next is None ==> branches_prefix(*t, step.branches@, step.branches@.len() as int, nid))
                && tied(*t, old(prev).level, old(prev).id@, level, nid, typ, on_v, parent.id@)
                && (forall|r: int| 0 <= r < __m3 ==> rule_built(*t, (#[trigger] step.catches@[r]).steps@, NodeOutputKind::Catch, opt_view(step.catches@[r].on), nid)
                        && step.catches@[r].on == s3.catches@[r].on && step.catches@[r].steps@.len() == s3.catches@[r].steps@.len())
                && (forall|r: int| __m3 <= r < step.catches@.len() ==> #[trigger] step.catches@[r] == s3.catches@[r]),
//@@ proof at=beforeloop4
            let ghost c0 = *catch;
//@@ loop 4
        invariant
            //# every-rule-starts-from-its-owner-and-chains-its-own-steps
            catch.on == c0.on && catch.steps@.len() == c0.steps@.len() && grows(t0, *t)
                && acts_prefix(*t, step.acts@, step.acts@.len() as int, nid) && (step.next is None ==> branches_prefix(*t, step.branches@, step.branches@.len() as int, nid))
                && tied(*t, old(prev).level, old(prev).id@, level, nid, typ, on_v, parent.id@)
                && cursor_ok(*catch_prev, __m4 as int, catch.steps@, nid, level)
                && rule_prefix(*t, catch.steps@, __m4 as int, NodeOutputKind::Catch, opt_view(catch.on), nid)
                && (forall|r: int| 0 <= r < __m3 ==> rule_built(*t, (#[trigger] step.catches@[r]).steps@, NodeOutputKind::Catch, opt_view(step.catches@[r].on), nid)),
//@@ proof at=beforeloop5
        let ghost s5 = *step;
//@@ loop 5
        invariant
            //# timeouts-built-so-far
            *step == (Step { timeout: step.timeout, ..s5 }) && step.timeout@.len() == s5.timeout@.len() && grows(t0, *t)
                && acts_prefix(*t, step.acts@, step.acts@.len() as int, nid) && (step.next is None ==> branches_prefix(*t, step.branches@, step.branches@.len() as int, nid))
                && tied(*t, old(prev).level, old(prev).id@, level, nid, typ, on_v, parent.id@)
                && catches_built(*t, step.catches@, nid)
                && (forall|r: int| 0 <= r < __m5 ==> rule_built(*t, (#[trigger] step.timeout@[r]).steps@, NodeOutputKind::Timeout, Some(step.timeout@[r].on@), nid)
                        && step.timeout@[r].on == s5.timeout@[r].on && step.timeout@[r].steps@.len() == s5.timeout@[r].steps@.len())
                && (forall|r: int| __m5 <= r < step.timeout@.len() ==> #[trigger] step.timeout@[r] == s5.timeout@[r]),
//@@ proof at=beforeloop6
            let ghost c0 = *timeout;
//@@ loop 6
        invariant
            //# every-rule-starts-from-its-owner-and-chains-its-own-steps
            timeout.on == c0.on && timeout.steps@.len() == c0.steps@.len() && grows(t0, *t)
                && acts_prefix(*t, step.acts@, step.acts@.len() as int, nid) && (step.next is None ==> branches_prefix(*t, step.branches@, step.branches@.len() as int, nid))
                && tied(*t, old(prev).level, old(prev).id@, level, nid, typ, on_v, parent.id@)
                && catches_built(*t, step.catches@, nid)
                && cursor_ok(*timeout_prev, __m6 as int, timeout.steps@, nid, level)
                && rule_prefix(*t, timeout.steps@, __m6 as int, NodeOutputKind::Timeout, Some(timeout.on@), nid)
                && (forall|r: int| 0 <= r < __m5 ==> rule_built(*t, (#[trigger] step.timeout@[r]).steps@, NodeOutputKind::Timeout, Some(step.timeout@[r].on@), nid)),
//@@ end
//@@ extract file=acts/src/scheduler/tree/build.rs item="fn build_branch" name=build_branch
//@@ spec
    ensures
        //# T1-tree-only-grows
        grows(*old(t), *final(t)),
        //# T6-the-branch-node-hangs-under-its-step-and-the-cursor-moves-to-it
        ret is Ok ==> final(branch).id@.len() > 0 && (old(branch).id@.len() > 0 ==> final(branch).id == old(branch).id) && final(prev).id@ == final(branch).id@ && final(prev).level == level
            && final(t).made.contains((final(branch).id@, level)) && under(*final(t), final(branch).id@, NodeOutputKind::Normal, None, parent.id@),
        //# T7-the-steps-of-a-branch-hang-under-it-in-declared-order
        ret is Ok ==> final(branch).steps@.len() == old(branch).steps@.len() && rule_built(*final(t), final(branch).steps@, NodeOutputKind::Normal, None, final(branch).id@),
//@@ rw R7 `level + 1` => `succ_level(level)`
//@@ proof after=make#1
    let ghost nid = node.id@;
    let ghost pid = parent.id@;
    let ghost t0 = *t;
//@@ proof at=beforeloop1
    let ghost b1 = *branch;
//@@ loop 1
        invariant
            //# steps-of-the-branch-so-far
            *branch == (Branch { steps: branch.steps, ..b1 }) && branch.steps@.len() == b1.steps@.len() && grows(t0, *t)
                && under(*t, nid, NodeOutputKind::Normal, None, pid)
                && cursor_ok(*step_prev, __m1 as int, branch.steps@, nid, level)
                && rule_prefix(*t, branch.steps@, __m1 as int, NodeOutputKind::Normal, None, nid),
//@@ end
//@@ extract file=acts/src/scheduler/tree/build.rs item="fn build_act" name=build_act
//@@ spec
    ensures
        //# T1-tree-only-grows
        grows(*old(t), *final(t)),
        //# T8-the-act-node-is-made-and-linked-in-declared-order
        ret is Ok ==> final(act).id@.len() > 0 && (old(act).id@.len() > 0 ==> final(act).id == old(act).id) && final(t).made.contains((final(act).id@, level))
            && (if is_sequence { final(prev).id@ == final(act).id@ && final(prev).level == level
                    && (if old(prev).level == level { chained(*final(t), old(prev).id@, final(act).id@) } else { under(*final(t), final(act).id@, NodeOutputKind::Normal, None, parent.id@) }) }
                else { *final(prev) == *old(prev) && under(*final(t), final(act).id@, NodeOutputKind::Normal, None, parent.id@) }),
        //# T4-the-steps-of-every-catch-hang-under-their-own-catch
        ret is Ok ==> same_rules(old(act).catches@, final(act).catches@) && catches_built(*final(t), final(act).catches@, final(act).id@),
        //# T5-the-steps-of-every-timeout-rule-hang-under-their-own-rule
        ret is Ok ==> same_timeouts(old(act).timeout@, final(act).timeout@) && timeouts_built(*final(t), final(act).timeout@, final(act).id@),
//@@ rw R7 `level + 1` => `succ_level(level)`
//@@ rw R7 `catch . on . clone ( )` => `clone_opt_string(&catch.on)`
//@@ rw R7 `Some ( timeout . on . clone ( ) )` => `Some(clone_string(&timeout.on))`
//@@ proof after=make#1
    let ghost nid = node.id@;
    let ghost t0 = *t;
//@@ proof at=beforeloop1
        let ghost s3 = *act;
        let ghost p3 = *prev;
        let ghost t3 = *t;
//@@ loop 1
        invariant
            //# catches-built-so-far
            *act == (Act { catches: act.catches, ..s3 }) && act.catches@.len() == s3.catches@.len() && grows(t3, *t) && *prev == p3
                && (forall|r: int| 0 <= r < __m1 ==> rule_built(*t, (#[trigger] act.catches@[r]).steps@, NodeOutputKind::Catch, opt_view(act.catches@[r].on), nid)
                        && act.catches@[r].on == s3.catches@[r].on && act.catches@[r].steps@.len() == s3.catches@[r].steps@.len())
                && (forall|r: int| __m1 <= r < act.catches@.len() ==> #[trigger] act.catches@[r] == s3.catches@[r]),
//@@ proof at=beforeloop2
            let ghost c0 = *catch;
//@@ loop 2
        invariant
            //# every-rule-starts-from-its-owner-and-chains-its-own-steps
            catch.on == c0.on && catch.steps@.len() == c0.steps@.len() && grows(t3, *t) && *prev == p3
                && cursor_ok(*catch_prev, __m2 as int, catch.steps@, nid, level)
                && rule_prefix(*t, catch.steps@, __m2 as int, NodeOutputKind::Catch, opt_view(catch.on), nid)
                && (forall|r: int| 0 <= r < __m1 ==> rule_built(*t, (#[trigger] act.catches@[r]).steps@, NodeOutputKind::Catch, opt_view(act.catches@[r].on), nid)),
//@@ proof at=beforeloop3
        let ghost s5 = *act;
        let ghost p5 = *prev;
        let ghost t5 = *t;
//@@ loop 3
        invariant
            //# timeouts-built-so-far
            *act == (Act { timeout: act.timeout, ..s5 }) && act.timeout@.len() == s5.timeout@.len() && grows(t5, *t) && *prev == p5
                && catches_built(*t, act.catches@, nid)
                && (forall|r: int| 0 <= r < __m3 ==> rule_built(*t, (#[trigger] act.timeout@[r]).steps@, NodeOutputKind::Timeout, Some(act.timeout@[r].on@), nid)
                        && act.timeout@[r].on == s5.timeout@[r].on && act.timeout@[r].steps@.len() == s5.timeout@[r].steps@.len())
                && (forall|r: int| __m3 <= r < act.timeout@.len() ==> #[trigger] act.timeout@[r] == s5.timeout@[r]),
//@@ proof at=beforeloop4
            let ghost c0 = *timeout;
//@@ loop 4
        invariant
            //# every-rule-starts-from-its-owner-and-chains-its-own-steps
            timeout.on == c0.on && timeout.steps@.len() == c0.steps@.len() && grows(t5, *t) && *prev == p5
                && catches_built(*t, act.catches@, nid)
                && cursor_ok(*timeout_prev, __m4 as int, timeout.steps@, nid, level)
                && rule_prefix(*t, timeout.steps@, __m4 as int, NodeOutputKind::Timeout, Some(timeout.on@), nid)
                && (forall|r: int| 0 <= r < __m3 ==> rule_built(*t, (#[trigger] act.timeout@[r]).steps@, NodeOutputKind::Timeout, Some(act.timeout@[r].on@), nid)),
//@@ end
//@@ extract file=acts/src/scheduler/tree/build.rs item="fn build_workflow" name=build_workflow
//@@ rw R7 `level + 1` => `succ_level(level)`
//@@ spec
    ensures
        //# T1-tree-only-grows
        grows(*old(t), *final(t)),
        //# T9-the-root-is-made-and-the-steps-of-the-workflow-hang-under-it-in-declared-order
        ret is Ok ==> final(workflow).id@.len() > 0 && (old(workflow).id@.len() > 0 ==> final(workflow).id == old(workflow).id) && final(t).made.contains((final(workflow).id@, 0usize))
            && final(workflow).steps@.len() == old(workflow).steps@.len() && rule_built(*final(t), final(workflow).steps@, NodeOutputKind::Normal, None, final(workflow).id@),
        //# T9-the-tree-keeps-the-model-it-was-built-from
        ret is Ok ==> *final(tree).model == *final(workflow),
//@@ proof after=make#1
    let ghost nid = root.id@;
    let ghost t0 = *t;
//@@ proof at=beforeloop1
    let ghost w1 = *workflow;
//@@ loop 1
        invariant
            //# steps-of-the-workflow-so-far
            *workflow == (Workflow { steps: workflow.steps, ..w1 }) && workflow.steps@.len() == w1.steps@.len() && grows(t0, *t) && level == 0
                && cursor_ok(*prev, __m1 as int, workflow.steps@, nid, 0usize)
                && rule_prefix(*t, workflow.steps@, __m1 as int, NodeOutputKind::Normal, None, nid),
//@@ end
//@@ extract file=acts/src/scheduler/tree/build.rs item="fn dyn_build_act" name=dyn_build_act props=C20,C04,C12,C16
//@@ spec
    ensures
        //# T1-tree-only-grows
        grows(*old(t), *final(t)),
        //# T10-a-generated-act-is-appended-to-its-parent-and-linked-in-order
        ret is Ok && final(act).id@.len() > 0 && (old(act).id@.len() > 0 ==> final(act).id == old(act).id) && final(t).appended.contains((parent.id@, final(act).id@, level))
            && (if is_sequence { final(prev).id@ == final(act).id@ && final(prev).level == level
                    && (if old(prev).level == level { chained(*final(t), old(prev).id@, final(act).id@) } else { under(*final(t), final(act).id@, NodeOutputKind::Normal, None, parent.id@) }) }
                else { *final(prev) == *old(prev) && under(*final(t), final(act).id@, NodeOutputKind::Normal, None, parent.id@) }),
//@@ end
} // verus!
fn main() {}
