// U-cell: the state-writing primitives themselves (C02-P1, C03: process mirrors the root task), against the lock cells.
// R11: `*self.F.write().unwrap() = V` -> cell write; `utils::time::time_millis()` -> clock reading.
//@@ unit U-cell
//@@ default props=C02,C03 rewrites=R1,R2,R3,R5,R13 ghost="Tracked(c): Tracked<&mut Cells>" ghostarg="Tracked(c)"
//@@ heapmethods set_state set_end_time set_start_time w_state w_err w_start w_end time_millis
use vstd::prelude::*;
use std::sync::Arc;
verus! {
//@@ include prelude/state.rs
//@@ extract file=acts/src/error.rs item="struct Error" name=Error
//@@ opt dropderive=Clone
//@@ end
impl Clone for Error { #[verifier::external_body] fn clone(&self) -> (r: Self) ensures r == *self { unimplemented!() } }
// TRUSTED: derived Clone on the field-less enum TaskState copies the value (R7: `state.clone()`)
#[verifier::external_body]
pub fn clone_state(s: &TaskState) -> (r: TaskState) ensures r == *s { unimplemented!() }

// the RwLock'd fields of one task and of its process
pub ghost struct Cells {
    pub t_state: TaskState, pub t_err: Option<Error>, pub t_start: int, pub t_end: int,
    pub p_state: TaskState, pub p_err: Option<Error>, pub p_start: int, pub p_end: int,
    pub now: int,
}
pub const TASK_ROOT_TID: &'static str = "$";
pub struct Process { pub _p: u8 }
pub struct Task { pub id: String, pub proc: Arc<Process> }
// TRUSTED: String == &str compares the characters (R7)
#[verifier::external_body]
pub fn str_is(a: &String, b: &str) -> (r: bool) ensures r == (a@ == b@) { unimplemented!() }
pub mod utils { pub mod time {
    use vstd::prelude::*;
    use super::super::Cells;
    verus! {
    // TRUSTED: the clock (one reading; i64)
    #[verifier::external_body]
    pub fn time_millis(Tracked(c): Tracked<&Cells>) -> (r: i64) ensures r as int == c.now { unimplemented!() }
    }
} }
impl Task {
    #[verifier::external_body]
    pub fn proc(&self) -> (r: &Arc<Process>) { unimplemented!() }
    // TRUSTED cell writes (R11): RwLock::write().unwrap() assignment
    #[verifier::external_body] pub fn w_state(&self, v: TaskState, Tracked(c): Tracked<&mut Cells>) ensures *final(c) == (Cells { t_state: v, ..*old(c) }) { unimplemented!() }
    #[verifier::external_body] pub fn w_err(&self, v: Option<Error>, Tracked(c): Tracked<&mut Cells>) ensures *final(c) == (Cells { t_err: v, ..*old(c) }) { unimplemented!() }
    #[verifier::external_body] pub fn w_start(&self, v: i64, Tracked(c): Tracked<&mut Cells>) ensures *final(c) == (Cells { t_start: v as int, ..*old(c) }) { unimplemented!() }
    #[verifier::external_body] pub fn w_end(&self, v: i64, Tracked(c): Tracked<&mut Cells>) ensures *final(c) == (Cells { t_end: v as int, ..*old(c) }) { unimplemented!() }
}
impl Process {
    #[verifier::external_body] pub fn w_state(&self, v: TaskState, Tracked(c): Tracked<&mut Cells>) ensures *final(c) == (Cells { p_state: v, ..*old(c) }) { unimplemented!() }
    #[verifier::external_body] pub fn w_err(&self, v: Option<Error>, Tracked(c): Tracked<&mut Cells>) ensures *final(c) == (Cells { p_err: v, ..*old(c) }) { unimplemented!() }
    #[verifier::external_body] pub fn w_start(&self, v: i64, Tracked(c): Tracked<&mut Cells>) ensures *final(c) == (Cells { p_start: v as int, ..*old(c) }) { unimplemented!() }
    #[verifier::external_body] pub fn w_end(&self, v: i64, Tracked(c): Tracked<&mut Cells>) ensures *final(c) == (Cells { p_end: v as int, ..*old(c) }) { unimplemented!() }
}

// ---- oracle: what one state write does (this is the `set_state_spec` the scheduler units ASSUME for Task::set_state)
pub open spec fn proc_set(c: Cells, s: TaskState) -> Cells {
    Cells { p_state: s, p_end: if st_terminal(s) { c.now } else { c.p_end }, p_start: if !st_terminal(s) && s is Running { c.now } else { c.p_start }, ..c }
}
pub open spec fn task_set(c: Cells, is_root: bool, s: TaskState) -> Cells {
    let c1 = if st_terminal(s) && is_root { proc_set(c, s) } else { c };
    Cells {
        t_state: s,
        t_err: if s is Error { c.t_err } else { None },
        t_end: if st_terminal(s) { c.now } else { c.t_end },
        t_start: if !st_terminal(s) && st_created(s) { c.now } else { c.t_start },
        ..c1
    }
}

impl Process {
//@@ extract file=acts/src/scheduler/process/process.rs in="impl Process" item="fn set_start_time" name=Process::set_start_time
//@@ rw R11 `* self . start_time . write ( ) . unwrap ( ) = time ;` => `self.w_start(time);`
//@@ spec
    ensures
        //# P1-cell
        *final(c) == (Cells { p_start: time as int, ..*old(c) }),
//@@ end
//@@ extract file=acts/src/scheduler/process/process.rs in="impl Process" item="fn set_end_time" name=Process::set_end_time
//@@ rw R11 `* self . end_time . write ( ) . unwrap ( ) = time ;` => `self.w_end(time);`
//@@ spec
    ensures
        //# P1-cell
        *final(c) == (Cells { p_end: time as int, ..*old(c) }),
//@@ end
//@@ extract file=acts/src/scheduler/process/process.rs in="impl Process" item="fn set_state" name=Process::set_state
//@@ rw R11 `* self . state . write ( ) . unwrap ( ) = state ;` => `self.w_state(state);`
//@@ spec
    ensures
        //# P1-process-state-write
        *final(c) == proc_set(*old(c), state),
//@@ end
//@@ extract file=acts/src/scheduler/process/process.rs in="impl Process" item="fn set_err" name=Process::set_err
//@@ rw R11 `* self . err . write ( ) . unwrap ( ) = Some ( err . clone ( ) ) ;` => `self.w_err(Some(err.clone()));`
//@@ spec
    ensures
        //# P1-process-error-write
        *final(c) == proc_set(Cells { p_err: Some(*err), ..*old(c) }, TaskState::Error),
//@@ end
}
impl Task {
//@@ extract file=acts/src/scheduler/process/task.rs in="impl Task" item="fn set_start_time" name=Task::set_start_time
//@@ rw R11 `* self . start_time . write ( ) . unwrap ( ) = time ;` => `self.w_start(time);`
//@@ spec
    ensures
        //# P1-cell
        *final(c) == (Cells { t_start: time as int, ..*old(c) }),
//@@ end
//@@ extract file=acts/src/scheduler/process/task.rs in="impl Task" item="fn set_end_time" name=Task::set_end_time
//@@ rw R11 `* self . end_time . write ( ) . unwrap ( ) = time ;` => `self.w_end(time);`
//@@ spec
    ensures
        //# P1-cell
        *final(c) == (Cells { t_end: time as int, ..*old(c) }),
//@@ end
//@@ extract file=acts/src/scheduler/process/task.rs in="impl Task" item="fn set_state" name=Task::set_state
//@@ rw R7 `self . id == TASK_ROOT_TID` => `str_is(&self.id, TASK_ROOT_TID)` {*}
//@@ rw R11 `* self . state . write ( ) . unwrap ( ) = state . clone ( ) ;` => `self.w_state(clone_state(&state));`
//@@ rw R7 `self . proc ( ) . set_state ( state . clone ( ) )` => `self.proc().set_state(clone_state(&state))` {*}
//@@ rw R11 `* self . err . write ( ) . unwrap ( ) = None ;` => `self.w_err(None);` {*}
//@@ spec
    ensures
        //# P1-task-state-write-and-root-mirror
        *final(c) == task_set(*old(c), self.id@ == TASK_ROOT_TID@, state),
//@@ end
//@@ extract file=acts/src/scheduler/process/task.rs in="impl Task" item="fn set_err" name=Task::set_err
//@@ rw R11 `* self . err . write ( ) . unwrap ( ) = Some ( err . clone ( ) ) ;` => `self.w_err(Some(err.clone()));`
//@@ spec
    ensures
        //# P1-task-error-write
        *final(c) == task_set(Cells { t_err: Some(*err), ..*old(c) }, self.id@ == TASK_ROOT_TID@, TaskState::Error),
//@@ end
}

} // verus!
fn main() {}
